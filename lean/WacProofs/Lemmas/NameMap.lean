import WacProofs.Lemmas.Names
import Mathlib.Data.List.Lex
/-
  Lemmas about the `NameMap` model: what `insertAll` leaves in the two tables, and the
  declarative reading of `get`.
-/
namespace Wac
open Wac.Spec

variable {β : Type}

theorem amGet_amInsert (m : List (Str × β)) (k k' : Str) (v : β) :
    amGet (amInsert m k v) k' = if k = k' then some v else amGet m k' := by
  induction m with
  | nil => simp [amInsert, amGet]
  | cons e m ih =>
    obtain ⟨ke, ve⟩ := e
    simp only [amInsert]
    by_cases h : ke = k
    · subst h; simp only [beq_self_eq_true, ↓reduceIte, amGet]
      by_cases h2 : ke = k' <;> simp [h2]
    · have : (ke == k) = false := beq_eq_false_iff_ne.mpr h
      simp only [this, Bool.false_eq_true, ↓reduceIte, amGet, ih]
      by_cases h2 : ke = k'
      · subst h2
        have : ¬ k = ke := fun e => h e.symm
        simp [this]
      · have : (ke == k') = false := beq_eq_false_iff_ne.mpr h2
        simp [this]

theorem lookup_cons (e : Str × β) (es : List (Str × β)) (n : Str) :
    lookup (e :: es) n = if e.1 = n then some e.2 else lookup es n := by
  unfold lookup
  by_cases h : e.1 = n
  · simp [h]
  · have : (e.1 == n) = false := beq_eq_false_iff_ne.mpr h
    simp [List.find?_cons, this, h]

theorem lookup_none_iff (es : List (Str × β)) (n : Str) : lookup es n = none ↔ n ∉ es.map (·.1) := by
  induction es with
  | nil => simp [lookup]
  | cons e es ih =>
    rw [lookup_cons]
    by_cases h : e.1 = n
    · simp [h]
    · simp only [h, ↓reduceIte, ih, List.map_cons, List.mem_cons, not_or]
      constructor
      · intro hh; exact ⟨fun e' => h e'.symm, hh⟩
      · intro hh; exact hh.2

theorem lookup_some_mem {es : List (Str × β)} {n : Str} {x : β} (h : lookup es n = some x) :
    (n, x) ∈ es := by
  induction es with
  | nil => simp [lookup] at h
  | cons e es ih =>
    rw [lookup_cons] at h
    by_cases he : e.1 = n
    · simp only [he, ↓reduceIte, Option.some.injEq] at h
      obtain ⟨a, b⟩ := e; simp at he h; subst he h; simp
    · simp only [he, ↓reduceIte] at h
      exact List.mem_cons_of_mem _ (ih h)

theorem mem_lookup {es : List (Str × β)} {n : Str} {x : β} (hnd : (es.map (·.1)).Nodup)
    (h : (n, x) ∈ es) : lookup es n = some x := by
  induction es with
  | nil => simp at h
  | cons e es ih =>
    rw [lookup_cons]
    simp only [List.map_cons, List.nodup_cons] at hnd
    simp only [List.mem_cons] at h
    rcases h with h | h
    · subst h; simp
    · have : e.1 ≠ n := by
        intro e'
        apply hnd.1
        rw [e']
        exact List.mem_map.mpr ⟨(n, x), h, rfl⟩
      simp only [this, ↓reduceIte]
      exact ih hnd.2 h

/-- the alternate-table update performed by one `insert` -/
def altStep (cur : Option (Str × Version)) (n : Str) (v : Version) : Option (Str × Version) :=
  match cur with
  | none => some (n, v)
  | some (pn, pv) => if v.lt pv then some (pn, pv) else some (n, v)

/-- the alternate-table entry for key `k` after inserting `es` in order, starting from `cur` -/
def bestFrom (cur : Option (Str × Version)) (es : List (Str × β)) (k : Str) : Option (Str × Version) :=
  match es with
  | [] => cur
  | (n, _) :: r =>
    match altKey n with
    | none => bestFrom cur r k
    | some (k', v) => if k' = k then bestFrom (altStep cur n v) r k else bestFrom cur r k

/-- what `insertAll` leaves in both tables -/
theorem insertAll_tables (es : List (Str × β)) (m m' : NameMap β)
    (hnd : (es.map (·.1)).Nodup) (hfresh : ∀ n ∈ es.map (·.1), amGet m.definitions n = none)
    (h : m.insertAll es = some m') :
    (∀ n, amGet m'.definitions n = match lookup es n with
        | some x => some x | none => amGet m.definitions n) ∧
    (∀ k, amGet m'.alternate k = bestFrom (amGet m.alternate k) es k) := by
  induction es generalizing m with
  | nil =>
    simp only [NameMap.insertAll, Option.some.injEq] at h; subst h
    simp [lookup, bestFrom]
  | cons e es ih =>
    obtain ⟨n, x⟩ := e
    simp only [NameMap.insertAll] at h
    cases hi : m.insert n false x with
    | none => simp [hi] at h
    | some m1 =>
      simp only [hi] at h
      simp only [List.map_cons, List.nodup_cons] at hnd
      have hn : amGet m.definitions n = none := hfresh n (by simp)
      -- the definitions table after one insert
      have hdefs : m1.definitions = amInsert m.definitions n x := by
        unfold NameMap.insert at hi
        simp only [hn, Option.isSome_none, Bool.false_and, Bool.false_eq_true, ↓reduceIte] at hi
        split at hi
        · simp at hi; rw [← hi]
        · split at hi
          · simp at hi; rw [← hi]
          · split at hi <;> (simp at hi; rw [← hi])
      have halt : ∀ k, amGet m1.alternate k = match altKey n with
          | none => amGet m.alternate k
          | some (k', v) => if k' = k then altStep (amGet m.alternate k) n v else amGet m.alternate k := by
        intro k
        unfold NameMap.insert at hi
        simp only [hn, Option.isSome_none, Bool.false_and, Bool.false_eq_true, ↓reduceIte] at hi
        split at hi
        · rename_i hk; simp at hi; rw [← hi, hk]
        · rename_i k' v hk
          rw [hk]; simp only
          split at hi
          · rename_i hg
            simp at hi; rw [← hi]; simp only [amGet_amInsert]
            by_cases hkk : k' = k
            · subst hkk; simp [hg, altStep]
            · simp [hkk]
          · rename_i pn pv hg
            by_cases hkk : k' = k
            · subst hkk
              split at hi
              · rename_i hlt; simp at hi; rw [← hi]; simp [hg, altStep, hlt]
              · rename_i hlt; simp at hi; rw [← hi]; simp [amGet_amInsert, hg, altStep, hlt]
            · split at hi <;> (simp at hi; rw [← hi]; simp [amGet_amInsert, hkk])
      have hfresh1 : ∀ n' ∈ es.map (·.1), amGet m1.definitions n' = none := by
        intro n' hn'
        rw [hdefs, amGet_amInsert]
        have : n ≠ n' := fun e => hnd.1 (e ▸ hn')
        simp only [this, ↓reduceIte]
        exact hfresh n' (by simp [hn'])
      obtain ⟨ih1, ih2⟩ := ih m1 hnd.2 hfresh1 h
      constructor
      · intro n'
        rw [ih1 n', lookup_cons]
        by_cases hnn : n = n'
        · subst hnn
          have : lookup es n = none := (lookup_none_iff es n).mpr hnd.1
          simp [this, hdefs, amGet_amInsert]
        · simp only [hnn, ↓reduceIte]
          cases lookup es n' with
          | some x => rfl
          | none => simp [hdefs, amGet_amInsert, hnn]
      · intro k
        rw [ih2 k, halt k]
        simp only [bestFrom]
        cases altKey n with
        | none => rfl
        | some kv =>
          obtain ⟨k', v⟩ := kv
          by_cases hkk : k' = k <;> simp [hkk]

/-- `insertAll` of pairwise distinct fresh names never fails -/
theorem insertAll_ok (es : List (Str × β)) (m : NameMap β)
    (hnd : (es.map (·.1)).Nodup) (hfresh : ∀ n ∈ es.map (·.1), amGet m.definitions n = none) :
    ∃ m', m.insertAll es = some m' := by
  induction es generalizing m with
  | nil => exact ⟨m, rfl⟩
  | cons e es ih =>
    obtain ⟨n, x⟩ := e
    simp only [List.map_cons, List.nodup_cons] at hnd
    have hn : amGet m.definitions n = none := hfresh n (by simp)
    have : ∃ m1, m.insert n false x = some m1 ∧ m1.definitions = amInsert m.definitions n x := by
      unfold NameMap.insert
      simp only [hn, Option.isSome_none, Bool.false_and, Bool.false_eq_true, ↓reduceIte]
      split
      · exact ⟨_, rfl, rfl⟩
      · split
        · exact ⟨_, rfl, rfl⟩
        · split <;> exact ⟨_, rfl, rfl⟩
    obtain ⟨m1, hi, hdefs⟩ := this
    simp only [NameMap.insertAll, hi]
    apply ih m1 hnd.2
    intro n' hn'
    rw [hdefs, amGet_amInsert]
    have : n ≠ n' := fun e => hnd.1 (e ▸ hn')
    simp only [this, ↓reduceIte]
    exact hfresh n' (by simp [hn'])

end Wac

namespace Wac
open Wac.Spec
variable {β : Type}

theorem vlt_iff (a b : Version) : a.lt b = true ↔ a.key < b.key := by
  simp [Version.lt]

theorem not_vlt_iff (a b : Version) : ¬ (a.lt b = true) ↔ b.key ≤ a.key := by
  rw [vlt_iff]; exact not_lt

/-- the alternate-table entry is an inserted entry of that key (or the initial one) and no
entry of that key, nor the initial one, has a strictly higher version -/
theorem bestFrom_spec (cur : Option (Str × Version)) (es : List (Str × β)) (k : Str) :
    match bestFrom cur es k with
    | none => cur = none ∧ ∀ e ∈ es, ∀ v, altKey e.1 ≠ some (k, v)
    | some (rn, rv) =>
        (cur = some (rn, rv) ∨ (∃ x, (rn, x) ∈ es) ∧ altKey rn = some (k, rv)) ∧
        (∀ pn pv, cur = some (pn, pv) → ¬ (rv.lt pv = true)) ∧
        (∀ e ∈ es, ∀ v, altKey e.1 = some (k, v) → ¬ (rv.lt v = true)) := by
  induction es generalizing cur with
  | nil =>
    simp only [bestFrom]
    cases cur with
    | none => simp
    | some c =>
      obtain ⟨n, v⟩ := c
      refine ⟨.inl rfl, ?_, by simp⟩
      intro pn pv h; simp at h; rw [← h.2, not_vlt_iff]
  | cons e es ih =>
    obtain ⟨n, x⟩ := e
    simp only [bestFrom]
    cases hk : altKey n with
    | none =>
      simp only
      have := ih cur
      cases hb : bestFrom cur es k with
      | none =>
        rw [hb] at this
        refine ⟨this.1, ?_⟩
        intro e he v
        simp only [List.mem_cons] at he
        rcases he with rfl | he
        · simp [hk]
        · exact this.2 e he v
      | some r =>
        obtain ⟨rn, rv⟩ := r
        rw [hb] at this
        obtain ⟨h1, h2, h3⟩ := this
        refine ⟨?_, h2, ?_⟩
        · rcases h1 with h1 | ⟨⟨x', hx'⟩, ha⟩
          · exact .inl h1
          · exact .inr ⟨⟨x', List.mem_cons_of_mem _ hx'⟩, ha⟩
        · intro e he v hv
          simp only [List.mem_cons] at he
          rcases he with rfl | he
          · simp [hk] at hv
          · exact h3 e he v hv
    | some kv =>
      obtain ⟨k', v⟩ := kv
      simp only
      by_cases hkk : k' = k
      · subst hkk
        simp only [↓reduceIte]
        have := ih (altStep cur n v)
        cases hb : bestFrom (altStep cur n v) es k' with
        | none =>
          rw [hb] at this
          cases cur with
          | none => simp [altStep] at this
          | some c => obtain ⟨pn, pv⟩ := c; simp only [altStep] at this; split at this <;> simp at this
        | some r =>
          obtain ⟨rn, rv⟩ := r
          rw [hb] at this
          obtain ⟨h1, h2, h3⟩ := this
          -- rv is at least the result of altStep, which is at least cur and v
          have hstep : ∃ sn sv, altStep cur n v = some (sn, sv) ∧
              (cur = some (sn, sv) ∨ (sn = n ∧ sv = v)) ∧
              (∀ pn pv, cur = some (pn, pv) → pv.key ≤ sv.key) ∧ v.key ≤ sv.key := by
            cases cur with
            | none => exact ⟨n, v, rfl, .inr ⟨rfl, rfl⟩, by simp, le_refl _⟩
            | some c =>
              obtain ⟨pn, pv⟩ := c
              simp only [altStep]
              by_cases hlt : v.lt pv = true
              · simp only [hlt, ↓reduceIte]
                refine ⟨pn, pv, rfl, .inl rfl, ?_, ?_⟩
                · intro a b h; simp at h; rw [h.2]
                · exact le_of_lt ((vlt_iff _ _).mp hlt)
              · simp only [hlt, Bool.false_eq_true, ↓reduceIte]
                refine ⟨n, v, rfl, .inr ⟨rfl, rfl⟩, ?_, le_refl _⟩
                intro a b h; simp at h; rw [← h.2]
                exact (not_vlt_iff _ _).mp hlt
          obtain ⟨sn, sv, hs, hs1, hs2, hs3⟩ := hstep
          have hsr : sv.key ≤ rv.key := (not_vlt_iff _ _).mp (h2 sn sv hs)
          refine ⟨?_, ?_, ?_⟩
          · rcases h1 with h1 | ⟨⟨x', hx'⟩, ha⟩
            · rw [hs] at h1; simp at h1; obtain ⟨rfl, rfl⟩ := h1
              rcases hs1 with hs1 | ⟨rfl, rfl⟩
              · exact .inl hs1
              · exact .inr ⟨⟨x, by simp⟩, hk⟩
            · exact .inr ⟨⟨x', List.mem_cons_of_mem _ hx'⟩, ha⟩
          · intro pn pv hc
            rw [not_vlt_iff]
            exact le_trans (hs2 pn pv hc) hsr
          · intro e he v' hv'
            simp only [List.mem_cons] at he
            rcases he with rfl | he
            · rw [hk] at hv'; simp at hv'; subst hv'
              rw [not_vlt_iff]; exact le_trans hs3 hsr
            · exact h3 e he v' hv'
      · simp only [hkk, ↓reduceIte]
        have := ih cur
        cases hb : bestFrom cur es k with
        | none =>
          rw [hb] at this
          refine ⟨this.1, ?_⟩
          intro e he v'
          simp only [List.mem_cons] at he
          rcases he with rfl | he
          · simp [hk, hkk]
          · exact this.2 e he v'
        | some r =>
          obtain ⟨rn, rv⟩ := r
          rw [hb] at this
          obtain ⟨h1, h2, h3⟩ := this
          refine ⟨?_, h2, ?_⟩
          · rcases h1 with h1 | ⟨⟨x', hx'⟩, ha⟩
            · exact .inl h1
            · exact .inr ⟨⟨x', List.mem_cons_of_mem _ hx'⟩, ha⟩
          · intro e he v' hv'
            simp only [List.mem_cons] at he
            rcases he with rfl | he
            · rw [hk] at hv'; simp at hv'; exact absurd hv'.1 hkk
            · exact h3 e he v' hv'

end Wac

namespace Wac
open Wac.Spec
variable {β : Type}

theorem altKey_of_track {n : Str} {t : Track} (h : trackOf n = some t) :
    ∃ k v, altKey n = some (k, v) ∧ KeyRep k t ∧ versionOf n = some v := by
  have := altKey_track n
  rw [h] at this
  cases hk : altKey n with
  | none => rw [hk] at this; exact this.elim
  | some kv => obtain ⟨k, v⟩ := kv; rw [hk] at this; exact ⟨k, v, rfl, this.1, this.2⟩

theorem track_of_altKey {n k : Str} {v : Version} (h : altKey n = some (k, v)) :
    ∃ t, trackOf n = some t ∧ KeyRep k t ∧ versionOf n = some v := by
  have := altKey_track n
  rw [h] at this
  cases ht : trackOf n with
  | none => rw [ht] at this; exact this.elim
  | some t => rw [ht] at this; exact ⟨t, rfl, this.1, this.2⟩

theorem altKey_none_of_track {n : Str} (h : trackOf n = none) : altKey n = none := by
  have := altKey_track n
  rw [h] at this
  cases hk : altKey n with
  | none => rfl
  | some kv => rw [hk] at this; exact this.elim

/-- the model's `get` after inserting pairwise distinct names returns an admissible answer -/
theorem get_isGet_aux (es : List (Str × β)) (m : NameMap β) (q : Str)
    (hnd : (es.map (·.1)).Nodup) (h : ({} : NameMap β).insertAll es = some m) :
    IsGet es q (m.get q) := by
  obtain ⟨hdefs, halt⟩ := insertAll_tables es {} m hnd (by intro n _; rfl) h
  have hdefs' : ∀ n, amGet m.definitions n = lookup es n := by
    intro n; rw [hdefs n]; cases lookup es n <;> rfl
  unfold IsGet NameMap.get
  rw [hdefs' q]
  cases hl : lookup es q with
  | some x => rfl
  | none =>
    simp only
    cases ht : trackOf q with
    | none => simp [altKey_none_of_track ht]
    | some t =>
      obtain ⟨kq, vq, hkq, hrep, _⟩ := altKey_of_track ht
      simp only [hkq]
      rw [halt kq]
      have hb := bestFrom_spec (none : Option (Str × Version)) es kq
      have hb0 : amGet ({} : NameMap β).alternate kq = none := rfl
      rw [hb0]
      cases hbf : bestFrom none es kq with
      | none =>
        rw [hbf] at hb
        left
        refine ⟨rfl, ?_⟩
        intro e he hte
        obtain ⟨ke, ve, hke, hrepe, _⟩ := altKey_of_track hte
        have : ke = kq := (keyRep_eq_iff hrepe hrep).mpr rfl
        exact hb.2 e he ve (by rw [hke, this])
      | some r =>
        obtain ⟨rn, rv⟩ := r
        rw [hbf] at hb
        obtain ⟨h1, _, h3⟩ := hb
        right
        rcases h1 with h1 | ⟨⟨x, hx⟩, ha⟩
        · cases h1
        · obtain ⟨tr, htr, hreprn, hvrn⟩ := track_of_altKey ha
          have htt : tr = t := (keyRep_eq_iff hreprn hrep).mp rfl
          subst htt
          refine ⟨rn, x, rv, ?_, hx, htr, hvrn, ?_⟩
          · simp only; rw [hdefs' rn]; exact mem_lookup hnd hx
          · intro e he hte v' hv'
            obtain ⟨ke, ve, hke, hrepe, hve⟩ := altKey_of_track hte
            have : ke = kq := (keyRep_eq_iff hrepe hrep).mpr rfl
            rw [hve] at hv'; cases hv'
            exact h3 e he _ (by rw [hke, this])

theorem lookup_perm {es es' : List (Str × β)} (hp : es.Perm es') (hnd : (es.map (·.1)).Nodup)
    (n : Str) : lookup es n = lookup es' n := by
  have hnd' : (es'.map (·.1)).Nodup := (hp.map _).nodup_iff.mp hnd
  cases h : lookup es n with
  | some x => exact (mem_lookup hnd' (hp.mem_iff.mp (lookup_some_mem h))).symm
  | none =>
    cases h' : lookup es' n with
    | none => rfl
    | some x =>
      have := mem_lookup hnd (hp.mem_iff.mpr (lookup_some_mem h'))
      rw [h] at this; cases this

theorem isGet_perm {es es' : List (Str × β)} (hp : es.Perm es') (hnd : (es.map (·.1)).Nodup)
    (q : Str) (r : Option β) (h : IsGet es q r) : IsGet es' q r := by
  unfold IsGet at h ⊢
  rw [← lookup_perm hp hnd q]
  cases hl : lookup es q with
  | some x => rw [hl] at h; exact h
  | none =>
    rw [hl] at h
    simp only at h ⊢
    cases ht : trackOf q with
    | none => rw [ht] at h; exact h
    | some t =>
      rw [ht] at h
      simp only at h ⊢
      rcases h with ⟨h1, h2⟩ | ⟨n, x, v, h1, h2, h3, h4, h5⟩
      · exact .inl ⟨h1, fun e he => h2 e (hp.mem_iff.mpr he)⟩
      · exact .inr ⟨n, x, v, h1, hp.mem_iff.mp h2, h3, h4, fun e he => h5 e (hp.mem_iff.mpr he)⟩

/-- with pairwise distinct names and no ties, the admissible answer is unique -/
theorem isGet_unique {es : List (Str × β)} (hnd : (es.map (·.1)).Nodup) (htf : TieFree es)
    (q : Str) (r r' : Option β) (h : IsGet es q r) (h' : IsGet es q r') : r = r' := by
  unfold IsGet at h h'
  cases hl : lookup es q with
  | some x => rw [hl] at h h'; rw [h, h']
  | none =>
    rw [hl] at h h'
    simp only at h h'
    cases ht : trackOf q with
    | none => rw [ht] at h h'; rw [h, h']
    | some t =>
      rw [ht] at h h'
      simp only at h h'
      rcases h with ⟨h1, h2⟩ | ⟨n, x, v, h1, h2, h3, h4, h5⟩
      · rcases h' with ⟨h1', _⟩ | ⟨n', x', v', _, h2', h3', _, _⟩
        · rw [h1, h1']
        · exact absurd h3' (h2 _ h2')
      · rcases h' with ⟨_, h2'⟩ | ⟨n', x', v', h1', h2', h3', h4', h5'⟩
        · exact absurd h3 (h2' _ h2)
        · have a := (not_vlt_iff _ _).mp (h5 _ h2' h3' v' h4')
          have b := (not_vlt_iff _ _).mp (h5' _ h2 h3 v h4)
          have hk : v.key = v'.key := le_antisymm b a
          have hn : n = n' := htf _ h2 _ h2' t h3 h3' v v' h4 h4' hk
          subst hn
          have e1 := mem_lookup hnd h2
          have e2 := mem_lookup hnd h2'
          rw [e1] at e2; cases e2
          rw [h1, h1']

end Wac

namespace Wac
open Wac.Spec
variable {β : Type}

theorem versionOf_of_track {n : Str} {t : Track} (h : trackOf n = some t) : ∃ v, versionOf n = some v := by
  obtain ⟨_, v, _, _, hv⟩ := altKey_of_track h; exact ⟨v, hv⟩

theorem highest_spec (l : List (Str × β)) (hall : ∀ e ∈ l, ∃ v, versionOf e.1 = some v) :
    match highest l with
    | none => l = []
    | some h => h ∈ l ∧ ∀ e ∈ l, ∀ vh ve, versionOf h.1 = some vh → versionOf e.1 = some ve →
        ¬ (vh.lt ve = true) := by
  induction l with
  | nil => simp [highest]
  | cons e r ih =>
    have ih := ih (fun e' he' => hall e' (List.mem_cons_of_mem _ he'))
    obtain ⟨ve, hve⟩ := hall e (by simp)
    simp only [highest]
    cases hh : highest r with
    | none =>
      rw [hh] at ih; subst ih
      simp only [List.mem_singleton, true_and]
      intro e' he' vh ve' h1 h2; subst he'
      rw [h1] at h2; cases h2
      rw [not_vlt_iff]
    | some h =>
      rw [hh] at ih
      obtain ⟨hmem, hmax⟩ := ih
      obtain ⟨vh, hvh⟩ := hall h (List.mem_cons_of_mem _ hmem)
      simp only [hve, hvh]
      by_cases hlt : vh.lt ve = true
      · simp only [hlt, ↓reduceIte, List.mem_cons, true_or, true_and]
        intro e' he' v1 v2 h1 h2
        rw [hve] at h1; cases h1
        rcases he' with rfl | he'
        · rw [hve] at h2; cases h2; rw [not_vlt_iff]
        · have := (not_vlt_iff _ _).mp (hmax e' he' vh v2 hvh h2)
          rw [not_vlt_iff]
          exact le_of_lt (lt_of_le_of_lt this ((vlt_iff _ _).mp hlt))
      · simp only [hlt, Bool.false_eq_true, ↓reduceIte, List.mem_cons]
        refine ⟨.inr hmem, ?_⟩
        intro e' he' v1 v2 h1 h2
        rw [hvh] at h1; cases h1
        rcases he' with rfl | he'
        · rw [hve] at h2; cases h2; exact hlt
        · exact hmax e' he' _ v2 hvh h2

/-- the executable specification `getSpec` returns an admissible answer -/
theorem getSpec_isGet (es : List (Str × β)) (q : Str) : IsGet es q (getSpec es q) := by
  unfold IsGet getSpec
  have hl : lookup es q = (es.find? (fun e => e.1 == q)).map (·.2) := rfl
  cases hf : es.find? (fun e => e.1 == q) with
  | some e => simp [hl, hf]
  | none =>
    simp only [hl, hf, Option.map_none]
    cases ht : trackOf q with
    | none => rfl
    | some t =>
      simp only
      have hall : ∀ e ∈ onTrack es t, ∃ v, versionOf e.1 = some v := by
        intro e he
        simp only [onTrack, List.mem_filter, beq_iff_eq] at he
        exact versionOf_of_track he.2
      have := highest_spec (onTrack es t) hall
      cases hh : highest (onTrack es t) with
      | none =>
        rw [hh] at this
        left
        refine ⟨rfl, ?_⟩
        intro e he hte
        have : e ∈ onTrack es t := by simp [onTrack, List.mem_filter, he, hte]
        rw [‹onTrack es t = []›] at this; simp at this
      | some h =>
        rw [hh] at this
        obtain ⟨hmem, hmax⟩ := this
        simp only [onTrack, List.mem_filter, beq_iff_eq] at hmem
        obtain ⟨v, hv⟩ := versionOf_of_track hmem.2
        right
        refine ⟨h.1, h.2, v, rfl, hmem.1, hmem.2, hv, ?_⟩
        intro e he hte v' hv'
        exact hmax e (by simp [onTrack, List.mem_filter, he, hte]) v v' hv hv'

end Wac
