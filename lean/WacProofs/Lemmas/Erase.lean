import WacModel.Spec.Grammar
/-
  C12 proofs: erasure of the layout-dependent parts of a syntax tree.

  The trees of the grammar specification (`WacModel/Spec/Grammar.lean`) carry the span `⟨0,0⟩`
  everywhere and no doc comments (comments are white space in the grammar).  `erase*` maps a
  tree built by the parser model to that form: every `Span` becomes `⟨0,0⟩`, every `docs` list
  becomes `[]`, nothing else changes.
-/
namespace Wac.C12
open Wac Wac.Ast
open Wac.Spec.Grammar (z)

def eraseIdent (i : Ident) : Ident := { i with span := z }
def eraseString (s : StringLit) : StringLit := { s with span := z }
def erasePackageName (p : PackageName) : PackageName := { p with span := z }
def erasePackagePath (p : PackagePath) : PackagePath := { p with span := z }

mutual
def eraseTy : Ty → Ty
  | .U8 _ => .U8 z | .S8 _ => .S8 z | .U16 _ => .U16 z | .S16 _ => .S16 z
  | .U32 _ => .U32 z | .S32 _ => .S32 z | .U64 _ => .U64 z | .S64 _ => .S64 z
  | .F32 _ => .F32 z | .F64 _ => .F64 z | .Char _ => .Char z | .Bool _ => .Bool z
  | .String _ => .String z
  | .Tuple ts _ => .Tuple (eraseTys ts) z
  | .List t _ => .List (eraseTy t) z
  | .Option t _ => .Option (eraseTy t) z
  | .Result ok err _ => .Result (eraseTyOpt ok) (eraseTyOpt err) z
  | .Borrow id _ => .Borrow (eraseIdent id) z
  | .Ident id => .Ident (eraseIdent id)
def eraseTys : List Ty → List Ty
  | [] => []
  | t :: ts => eraseTy t :: eraseTys ts
def eraseTyOpt : Option Ty → Option Ty
  | none => none
  | some t => some (eraseTy t)
end

theorem eraseTys_eq_map (ts : List Ty) : eraseTys ts = ts.map eraseTy := by
  induction ts with
  | nil => rfl
  | cons t ts ih => simp [eraseTys, ih]

theorem eraseTyOpt_eq_map (o : Option Ty) : eraseTyOpt o = o.map eraseTy := by
  cases o <;> rfl

def eraseNamedType (n : NamedType) : NamedType := ⟨eraseIdent n.id, eraseTy n.ty⟩

def eraseResultList : ResultList → ResultList
  | .Empty => .Empty
  | .Scalar t => .Scalar (eraseTy t)

def eraseFuncType (f : FuncType) : FuncType := ⟨f.params.map eraseNamedType, eraseResultList f.results⟩

def eraseFuncTypeRef : FuncTypeRef → FuncTypeRef
  | .Func f => .Func (eraseFuncType f)
  | .Ident id => .Ident (eraseIdent id)

def eraseResourceMethod : ResourceMethod → ResourceMethod
  | .Constructor c => .Constructor ⟨[], z, c.params.map eraseNamedType⟩
  | .Method m => .Method ⟨[], eraseIdent m.id, m.isStatic, eraseFuncType m.ty⟩

def eraseResourceDecl (d : ResourceDecl) : ResourceDecl :=
  ⟨[], eraseIdent d.id, d.methods.map eraseResourceMethod⟩

def eraseVariantCase (c : VariantCase) : VariantCase := ⟨[], eraseIdent c.id, c.ty.map eraseTy⟩
def eraseVariantDecl (d : VariantDecl) : VariantDecl := ⟨[], eraseIdent d.id, d.cases.map eraseVariantCase⟩
def eraseField (f : Field) : Field := ⟨[], eraseIdent f.id, eraseTy f.ty⟩
def eraseRecordDecl (d : RecordDecl) : RecordDecl := ⟨[], eraseIdent d.id, d.fields.map eraseField⟩
def eraseFlag (f : Flag) : Flag := ⟨[], eraseIdent f.id⟩
def eraseFlagsDecl (d : FlagsDecl) : FlagsDecl := ⟨[], eraseIdent d.id, d.flags.map eraseFlag⟩
def eraseEnumCase (c : EnumCase) : EnumCase := ⟨[], eraseIdent c.id⟩
def eraseEnumDecl (d : EnumDecl) : EnumDecl := ⟨[], eraseIdent d.id, d.cases.map eraseEnumCase⟩

def eraseTypeAliasKind : TypeAliasKind → TypeAliasKind
  | .Func f => .Func (eraseFuncType f)
  | .Type' t => .Type' (eraseTy t)

def eraseTypeAlias (a : TypeAlias) : TypeAlias := ⟨[], eraseIdent a.id, eraseTypeAliasKind a.kind⟩

def eraseTypeDecl : TypeDecl → TypeDecl
  | .Variant d => .Variant (eraseVariantDecl d)
  | .Record d => .Record (eraseRecordDecl d)
  | .Flags d => .Flags (eraseFlagsDecl d)
  | .Enum d => .Enum (eraseEnumDecl d)
  | .Alias d => .Alias (eraseTypeAlias d)

def eraseItemTypeDecl : ItemTypeDecl → ItemTypeDecl
  | .Resource d => .Resource (eraseResourceDecl d)
  | .Variant d => .Variant (eraseVariantDecl d)
  | .Record d => .Record (eraseRecordDecl d)
  | .Flags d => .Flags (eraseFlagsDecl d)
  | .Enum d => .Enum (eraseEnumDecl d)
  | .Alias d => .Alias (eraseTypeAlias d)

def eraseUseItem (u : UseItem) : UseItem := ⟨eraseIdent u.id, u.asId.map eraseIdent⟩

def eraseUsePath : UsePath → UsePath
  | .Package p => .Package (erasePackagePath p)
  | .Ident id => .Ident (eraseIdent id)

def eraseUse (u : Use) : Use := ⟨[], eraseUsePath u.path, u.items.map eraseUseItem⟩

def eraseInterfaceExport (e : InterfaceExport) : InterfaceExport :=
  ⟨[], eraseIdent e.id, eraseFuncTypeRef e.ty⟩

def eraseInterfaceItem : InterfaceItem → InterfaceItem
  | .Use u => .Use (eraseUse u)
  | .Type' d => .Type' (eraseItemTypeDecl d)
  | .Export e => .Export (eraseInterfaceExport e)

def eraseInterfaceDecl (d : InterfaceDecl) : InterfaceDecl :=
  ⟨[], eraseIdent d.id, d.items.map eraseInterfaceItem⟩

def eraseInlineInterface (i : InlineInterface) : InlineInterface := ⟨i.items.map eraseInterfaceItem⟩

def eraseExternType : ExternType → ExternType
  | .Ident id => .Ident (eraseIdent id)
  | .Func f => .Func (eraseFuncType f)
  | .Interface i => .Interface (eraseInlineInterface i)

def eraseNamedWorldItem (n : NamedWorldItem) : NamedWorldItem := ⟨eraseIdent n.id, eraseExternType n.ty⟩

def eraseWorldItemPath : WorldItemPath → WorldItemPath
  | .Named n => .Named (eraseNamedWorldItem n)
  | .Package p => .Package (erasePackagePath p)
  | .Ident id => .Ident (eraseIdent id)

def eraseWorldRef : WorldRef → WorldRef
  | .Ident id => .Ident (eraseIdent id)
  | .Package p => .Package (erasePackagePath p)

def eraseWorldIncludeItem (i : WorldIncludeItem) : WorldIncludeItem := ⟨eraseIdent i.fromId, eraseIdent i.toId⟩

def eraseWorldItem : WorldItem → WorldItem
  | .Use u => .Use (eraseUse u)
  | .Type' d => .Type' (eraseItemTypeDecl d)
  | .Import i => .Import ⟨[], eraseWorldItemPath i.path⟩
  | .Export e => .Export ⟨[], eraseWorldItemPath e.path⟩
  | .Include i => .Include ⟨[], eraseWorldRef i.world, i.withItems.map eraseWorldIncludeItem⟩

def eraseWorldDecl (d : WorldDecl) : WorldDecl := ⟨[], eraseIdent d.id, d.items.map eraseWorldItem⟩

def eraseTypeStatement : TypeStatement → TypeStatement
  | .Interface d => .Interface (eraseInterfaceDecl d)
  | .World d => .World (eraseWorldDecl d)
  | .Type' d => .Type' (eraseTypeDecl d)

def eraseExternName : ExternName → ExternName
  | .Ident id => .Ident (eraseIdent id)
  | .String s => .String (eraseString s)

def eraseImportType : ImportType → ImportType
  | .Package p => .Package (erasePackagePath p)
  | .Func f => .Func (eraseFuncType f)
  | .Interface i => .Interface (eraseInlineInterface i)
  | .Ident id => .Ident (eraseIdent id)

def eraseImportStatement (s : ImportStatement) : ImportStatement :=
  ⟨[], eraseIdent s.id, s.name.map eraseExternName, eraseImportType s.ty⟩

def eraseArgName : InstantiationArgumentName → InstantiationArgumentName
  | .Ident id => .Ident (eraseIdent id)
  | .String s => .String (eraseString s)

def erasePostfix : PostfixExpr → PostfixExpr
  | .Access a => .Access ⟨z, eraseIdent a.id⟩
  | .NamedAccess a => .NamedAccess ⟨z, eraseString a.string⟩

mutual
def eraseExpr : Expr → Expr
  | .mk _ p post => .mk z (erasePrimary p) (post.map erasePostfix)
def erasePrimary : PrimaryExpr → PrimaryExpr
  | .New (.mk _ pkg args) => .New (.mk z (erasePackageName pkg) (eraseArgs args))
  | .Nested (.mk _ inner) => .Nested (.mk z (eraseExpr inner))
  | .Ident id => .Ident (eraseIdent id)
def eraseArgs : List InstantiationArgument → List InstantiationArgument
  | [] => []
  | a :: as => eraseArg a :: eraseArgs as
def eraseArg : InstantiationArgument → InstantiationArgument
  | .Inferred id => .Inferred (eraseIdent id)
  | .Spread id => .Spread (eraseIdent id)
  | .Named (.mk name e) => .Named (.mk (eraseArgName name) (eraseExpr e))
  | .Fill _ => .Fill z
end

theorem eraseArgs_eq_map (as : List InstantiationArgument) : eraseArgs as = as.map eraseArg := by
  induction as with
  | nil => rfl
  | cons a as ih => simp [eraseArgs, ih]

def eraseLetStatement (s : LetStatement) : LetStatement := ⟨[], eraseIdent s.id, eraseExpr s.expr⟩

def eraseExportOptions : ExportOptions → ExportOptions
  | .None => .None
  | .Spread _ => .Spread z
  | .Rename n => .Rename (eraseExternName n)

def eraseExportStatement (s : ExportStatement) : ExportStatement :=
  ⟨[], eraseExpr s.expr, eraseExportOptions s.options⟩

def eraseStatement : Statement → Statement
  | .Import s => .Import (eraseImportStatement s)
  | .Type' s => .Type' (eraseTypeStatement s)
  | .Let s => .Let (eraseLetStatement s)
  | .Export s => .Export (eraseExportStatement s)

def erasePackageDirective (d : PackageDirective) : PackageDirective :=
  ⟨erasePackageName d.package, d.targets.map erasePackagePath⟩

/-- the tree the grammar assigns to the token sequence of a parsed document -/
def eraseDocument (d : Document) : Document :=
  ⟨[], erasePackageDirective d.directive, d.statements.map eraseStatement⟩

end Wac.C12
