import WacProofs.Lemmas.GraphInv
/-
  `alias_instance_export` preserves `Inv`.
-/
namespace Wac.Graph
open Wac Wac.HashSites

theorem alFull_get {β : Type} {m : List (Str × β)} {k : Str} {i : Nat} {v : β} (h : alFull m k = some (i, v)) :
    m[i]? = some (k, v) := by
  induction m generalizing i with
  | nil => simp [alFull] at h
  | cons x r ih =>
    obtain ⟨a, b⟩ := x
    unfold alFull at h
    split at h
    · rename_i hk
      simp only [Option.some.injEq, Prod.mk.injEq] at h
      obtain ⟨rfl, rfl⟩ := h
      subst hk; rfl
    · cases hr : alFull r k with
      | none => rw [hr] at h; simp at h
      | some p =>
        obtain ⟨j, w⟩ := p
        rw [hr] at h
        simp only [Option.map_some, Option.some.injEq, Prod.mk.injEq] at h
        obtain ⟨rfl, rfl⟩ := h
        simpa using ih hr

/-- a new alias node plus its alias edge, on field equalities -/
theorem inv_alias_new {ctx : Ctx} {g g1 g' : Graph} {inst idx i : Nat} {nd : Node} {exps : List (Str × Kind)}
    {ename : Str} {k : Kind}
    (h : Inv ctx g) (hnd : g.node? inst = some nd) (hexps : ctx.kindExports nd.item = some exps)
    (hidx : exps[i]? = some (ename, k))
    (a : Added g g1 idx ⟨.alias, nd.pkg, k, none, none⟩)
    (hn : g'.nodes = g1.nodes) (hfn : g'.freeNodes = g1.freeNodes)
    (he : g'.edges = ⟨inst, idx, .alias i⟩ :: g1.edges)
    (him : g'.imports = g1.imports) (hde : g'.defined = g1.defined) (hex : g'.exports = g1.exports)
    (hp : g'.pkgs = g1.pkgs) (hm : g'.pkgMap = g1.pkgMap) (hfp : g'.freePkgs = g1.freePkgs) : Inv ctx g' := by
  have pk := pkgPart_congr (g' := g') h (hp.trans a.pkgs) (hm.trans a.pkgMap) (hfp.trans a.freePkgs)
  have hnode : ∀ m, g'.node? m = if m = idx then some ⟨.alias, nd.pkg, k, none, none⟩ else g.node? m := by
    intro m; rw [node?_congr hn]; exact a.node m
  have hinst' : g'.node? inst = some nd := by rw [node?_congr hn]; exact (a.old hnd).1
  have hnew' : g'.node? idx = some ⟨.alias, nd.pkg, k, none, none⟩ := by rw [node?_congr hn]; exact a.new
  -- no old edge touches the fresh slot
  have hold : ∀ e ∈ g.edges, e.dst ≠ idx ∧ e.src ≠ idx := by
    intro e hem
    obtain ⟨⟨s, hs⟩, ⟨d, hd⟩⟩ := h.edge_live hem
    refine ⟨fun eq => ?_, fun eq => ?_⟩
    · rw [eq, a.fresh] at hd; cases hd
    · rw [eq, a.fresh] at hs; cases hs
  apply Inv.build
  · intro e hem
    rw [he] at hem
    rcases List.mem_cons.mp hem with rfl | hem
    · refine ⟨nd, hinst', _, hnew', ?_⟩
      exact ⟨rfl, rfl, exps, hexps, (ename, k), hidx, rfl⟩
    · rw [a.edges] at hem
      exact a.edgeOk hn hp (h.edges e hem)
  · rw [he, a.edges]
    simp only [List.filterMap_cons, Edge.argKey]
    exact h.argUnique
  · intro m x hx
    rw [hnode] at hx
    by_cases hmi : m = idx
    · subst hmi
      simp only [↓reduceIte, Option.some.injEq] at hx
      subst hx
      refine ⟨?_, ?_, by simp⟩
      · intro pid hpid
        rw [pkgLive_congr (hp.trans a.pkgs)]
        exact (h.node hnd).1 pid hpid
      · simp only
        unfold Graph.inEdges
        rw [he, a.edges]
        simp only [List.filter_cons, beq_self_eq_true, ↓reduceIte, List.length_cons, Nat.add_eq_right,
          List.length_eq_zero_iff, List.filter_eq_nil_iff, beq_iff_eq]
        intro e hem
        exact (hold e hem).1
    · simp only [hmi, ↓reduceIte] at hx
      refine (h.node hx).mono (NodeSim.refl _) rfl (hp.trans a.pkgs) ?_ ?_ ?_ ?_ ?_
      · intro e hem; rw [he, a.edges]; exact List.mem_cons_of_mem _ hem
      · intro _
        unfold Graph.inEdges
        rw [he, a.edges]
        simp only [List.filter_cons]
        have : (idx == m) = false := by simpa using (Ne.symm hmi)
        simp [this]
      · intro q hq; rw [him, a.imports]; exact hq
      · intro q hq; rw [hde, a.defined]; exact hq
      · intro q hq; rw [hex, a.exports]; exact hq
  · rw [hex, a.exports]; exact h.exportsKeys
  · intro e hem
    rw [hex, a.exports] at hem
    obtain ⟨x, hx, hxe⟩ := h.exportsLive' e hem
    exact ⟨x, by rw [node?_congr hn]; exact (a.old hx).1, hxe⟩
  · rw [him, a.imports]; exact h.importsKeys
  · intro e hem
    rw [him, a.imports] at hem
    obtain ⟨x, hx, hxe⟩ := h.importsLive' e hem
    exact ⟨x, by rw [node?_congr hn]; exact (a.old hx).1, hxe⟩
  · rw [hde, a.defined]; exact h.definedKeys
  · intro e hem
    rw [hde, a.defined] at hem
    obtain ⟨x, hx, hxe⟩ := h.definedLive' e hem
    exact ⟨x, by rw [node?_congr hn]; exact (a.old hx).1, hxe⟩
  · exact pk.1
  · exact pk.2.1
  · exact pk.2.2.1
  · exact pk.2.2.2.1
  · exact pk.2.2.2.2
  · have f := a.free
    refine ⟨by rw [hfn]; exact f.nodup, ?_, ?_⟩
    · intro j hj
      rw [hfn] at hj
      rw [hn, node?_congr hn]; exact f.vacant j hj
    · intro j hj hv
      rw [hn] at hj
      rw [node?_congr hn] at hv
      rw [hfn]; exact f.all j hj hv

theorem inv_aliasInstanceExport {ctx : Ctx} {g g' : Graph} {inst : Nat} {ename : Str} {out : Outcome}
    (h : Inv ctx g) (hs : aliasInstanceExport ctx g inst ename = (g', out)) : Inv ctx g' := by
  unfold aliasInstanceExport at hs
  split at hs
  · simp only [Prod.mk.injEq] at hs; rw [← hs.1]; exact h
  · rename_i nd hnd
    split at hs
    · simp only [Prod.mk.injEq] at hs; rw [← hs.1]; exact h
    · rename_i exps hexps
      split at hs
      · simp only [Prod.mk.injEq] at hs; rw [← hs.1]; exact h
      · rename_i i k hfull
        split at hs
        · simp only [Prod.mk.injEq] at hs; rw [← hs.1]; exact h
        · simp only [Prod.mk.injEq] at hs
          rw [← hs.1]
          have a := added_of_addNode h ⟨.alias, nd.pkg, k, none, none⟩
          exact inv_alias_new h hnd hexps (alFull_get hfull) a rfl rfl rfl rfl rfl rfl rfl rfl rfl

end Wac.Graph
