import WacProofs.Lemmas.PrinterParse
import WacProofs.Lemmas.PrinterErase
/-
  C13: what the equivalence "equal up to positions and doc-comment line splitting" (`erase`) keeps.
  Each *feature* named in the property (package target, versions, `%` escapes, string names, the
  position of `...`, static methods / constructors, use renames, include-with lists) is a function
  of the tree that does not change under `erase`; so two trees with equal erasures agree on it.
  `Wac.Props.C13Print.print_keeps_*` combine these with the per-construct parser lemmas.
-/
namespace Wac.Lemmas.PrinterNonLoss
open Wac Wac.Ast Wac.Lex Wac.Parse Wac.PrintTok Wac.Lemmas.PrinterParse Wac.Lemmas.PrinterErase

/-- the doc-comment normal-form lemma in the form the parser lemmas take as a hypothesis -/
theorem docsNF : DocsNF := fun ds' ds h => eraseDocs_of_comments_eq ds' ds h

/-! ### features -/

/-- the target of the package directive: the text of its package path -/
def targetText (d : PackageDirective) : Option Str := d.targets.map (·.string)

theorem targetText_erase (d : PackageDirective) : targetText d.erase = targetText d := by
  obtain ⟨p, t⟩ := d
  cases t <;> rfl

/-- everything a package name carries besides its position -/
def packageNameData (p : PackageName) : Str × Str × Option Version := (p.string, p.name, p.version)
theorem packageNameData_erase (p : PackageName) : packageNameData p.erase = packageNameData p := rfl

/-- everything a package path carries besides its position -/
def packagePathData (p : PackagePath) : Str × Str × Str × Option Version :=
  (p.string, p.name, p.segments, p.version)
theorem packagePathData_erase (p : PackagePath) : packagePathData p.erase = packagePathData p := rfl

/-- the cooked identifier and its `%` flag -/
def identData (i : Ident) : Str × Bool := (i.string, i.escaped)
theorem identData_erase (i : Ident) : identData i.erase = identData i := rfl

/-- is the name a string, and its text -/
def externNameData : ExternName → Bool × Str
  | .Ident id => (false, id.raw)
  | .String s => (true, s.value)
theorem externNameData_erase (n : ExternName) : externNameData n.erase = externNameData n := by
  cases n <;> rfl

def argNameData : InstantiationArgumentName → Bool × Str
  | .Ident id => (false, id.raw)
  | .String s => (true, s.value)
theorem argNameData_erase (n : InstantiationArgumentName) : argNameData n.erase = argNameData n := by
  cases n <;> rfl

/-- the kind of an instantiation argument: 0 inferred, 1 spread, 2 named, 3 fill (`...`) -/
def argKind : InstantiationArgument → Nat
  | .Inferred _ => 0
  | .Spread _ => 1
  | .Named _ => 2
  | .Fill _ => 3

theorem argKinds_erase : ∀ args : List InstantiationArgument,
    (eraseArgs args).map argKind = args.map argKind
  | [] => rfl
  | .Inferred _ :: r => by rw [PrinterErase.eraseArgs_inferred, List.map_cons, List.map_cons, argKinds_erase r]; rfl
  | .Spread _ :: r => by rw [PrinterErase.eraseArgs_spread, List.map_cons, List.map_cons, argKinds_erase r]; rfl
  | .Named (.mk _ _) :: r => by rw [PrinterErase.eraseArgs_named, List.map_cons, List.map_cons, argKinds_erase r]; rfl
  | .Fill _ :: r => by rw [PrinterErase.eraseArgs_fill, List.map_cons, List.map_cons, argKinds_erase r]; rfl

theorem argKinds_of_erase_eq (a b : List InstantiationArgument) (h : eraseArgs a = eraseArgs b) :
    a.map argKind = b.map argKind := by
  rw [← argKinds_erase a, h, argKinds_erase b]

/-- the `static` flag of a method -/
theorem isStatic_erase (m : Method) : m.erase.isStatic = m.isStatic := rfl

/-- constructor or method, and the `static` flag -/
def resourceMethodKind : ResourceMethod → Bool × Bool
  | .Constructor _ => (true, false)
  | .Method m => (false, m.isStatic)
theorem resourceMethodKind_erase (m : ResourceMethod) :
    resourceMethodKind m.erase = resourceMethodKind m := by
  cases m <;> rfl

/-- the items of a `use`: name and optional rename (raw spellings) -/
def useRenames (u : Use) : List (Str × Option Str) :=
  u.items.map fun it => (it.id.raw, it.asId.map Ident.raw)

theorem useRenames_erase (u : Use) : useRenames u.erase = useRenames u := by
  obtain ⟨docs, path, items⟩ := u
  simp only [useRenames, Use.erase, List.map_map]
  congr 1
  funext it
  obtain ⟨id, a⟩ := it
  cases a <;> rfl

/-- the `with` list of an `include`: (from, to) raw spellings -/
def includeWith (i : WorldInclude) : List (Str × Str) :=
  i.withItems.map fun it => (it.fromId.raw, it.toId.raw)

theorem includeWith_erase (i : WorldInclude) : includeWith i.erase = includeWith i := by
  obtain ⟨docs, world, items⟩ := i
  simp only [includeWith, WorldInclude.erase, List.map_map]
  congr 1

/-- transfer along an equality of erasures -/
theorem feature_eq {α β : Type} (er : α → α) (f : α → β) (hf : ∀ x, f (er x) = f x) {x y : α}
    (h : er x = er y) : f x = f y := by
  rw [← hf x, h, hf y]

end Wac.Lemmas.PrinterNonLoss
