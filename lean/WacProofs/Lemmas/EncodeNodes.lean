import WacModel.Spec.EncodeWF
import WacProofs.Lemmas.EncodeBasic
/-
  The loop over the non-import nodes (`encNodes`) simulates the specification's fold
  (`specNode`): the invariant `NodeInv` says that every node emitted so far is realised by an
  index whose provenance is the node's designated term, and that the instantiations, aliases,
  exports and embedded components read back from the skeleton are the designated ones.
-/
namespace Wac
open Wac.Spec

/-- the provenance of the component index that stands for package `slot` -/
def compTerm (define : Bool) (g : GraphVal) (seen : List Nat) (slot : Nat) : Term :=
  if define then .comp (seen.idxOf slot)
  else match g.pkg? slot with
    | some p => .imp (unlockedName p)
    | none => .bad

/-- the recorded implicit arguments are the unsatisfied imports, each realised by the import
    item of its canonical name -/
def ImplicitOk (w : WState) (cn : Str → Str) : List (Str × Kind × Nat) → List ImportReq → Prop
  | [], [] => True
  | a :: L, r :: R =>
    (a.1 = r.name ∧ a.2.1 = r.ty.kind ∧ Has w a.2.1 a.2.2 (.imp (cn r.name))) ∧ ImplicitOk w cn L R
  | _, _ => False

theorem ImplicitOk.ext {w w' : WState} {cn : Str → Str} {L R} (h : ImplicitOk w cn L R) (he : Ext w w') :
    ImplicitOk w' cn L R := by
  induction L generalizing R with
  | nil => cases R <;> simp_all [ImplicitOk]
  | cons a L ih =>
    cases R with
    | nil => simp [ImplicitOk] at h
    | cons r R =>
      simp only [ImplicitOk] at h ⊢
      exact ⟨⟨h.1.1, h.1.2.1, he _ _ _ h.1.2.2⟩, ih h.2⟩

structure NodeInv (g : GraphVal) (cn : Str → Str) (o : Opts) (st : EncSt) (ss : SpecSt) : Prop where
  sync : Sync st
  nodes : ∀ n idx, natGet st.nodeIdx n = some idx → Has (G st) (kindOf g n) idx (ss.term n)
  dom : ∀ n, natGet st.nodeIdx n = none ↔ natGet ss.terms n = none
  seen : st.pkgs.map (·.1) = ss.seen
  pkgs : ∀ slot c, natGet st.pkgs slot = some c → Has (G st) .component c (compTerm o.define g ss.seen slot)
  ncomp : o.define = true → ss.w.comps.length = ss.seen.length
  insts : (G st).w.insts = ss.w.insts
  aliases : (G st).w.aliases = ss.w.aliases
  exports : (G st).w.exports = ss.w.exports
  comps : (G st).w.comps = ss.w.comps
  names : (G st).w.names = []
  snames : ss.w.names = []
  implicit : ∀ n ∈ g.nodes, ∀ slot sat p, n.kind = .instantiation slot sat → g.pkg? slot = some p →
      natGet st.nodeIdx n.id = none →
      ImplicitOk (G st) cn ((natGet st.implicit n.id).getD []) (unsatisfiedByArgs n p)

/-- what one node's encoding establishes, before `node_indexes.insert` -/
structure StepOut (g : GraphVal) (cn : Str → Str) (o : Opts) (st : EncSt) (ss : SpecSt) (id : Nat)
    (st' : EncSt) (idx : Nat) (ss' : SpecSt) : Prop where
  sync : Sync st'
  ext : Ext (G st) (G st')
  nodeIdx : st'.nodeIdx = st.nodeIdx
  terms : ∃ T, ss'.terms = ss.terms ++ [(id, T)] ∧ Has (G st') (kindOf g id) idx T
  seen : st'.pkgs.map (·.1) = ss'.seen
  seenMono : ∀ slot, slot ∈ ss.seen → compTerm o.define g ss'.seen slot = compTerm o.define g ss.seen slot
  pkgs : ∀ slot c, natGet st'.pkgs slot = some c → Has (G st') .component c (compTerm o.define g ss'.seen slot)
  ncomp : o.define = true → ss'.w.comps.length = ss'.seen.length
  insts : (G st').w.insts = ss'.w.insts
  aliases : (G st').w.aliases = ss'.w.aliases
  exports : (G st').w.exports = ss'.w.exports
  comps : (G st').w.comps = ss'.w.comps
  names : (G st').w.names = []
  snames : ss'.w.names = []
  implicit : ∀ n, n ≠ id → natGet st'.implicit n = natGet st.implicit n

theorem term_eq_natGet (ss : SpecSt) (n : Nat) : ss.term n = (natGet ss.terms n).getD .bad := rfl

theorem G_nodeIdx (st : EncSt) (x : List (Nat × Nat)) : G { st with nodeIdx := x } = G st := rfl
theorem G_pkgs (st : EncSt) (x : List (Nat × Nat)) : G { st with pkgs := x } = G st := rfl
theorem G_implicit (st : EncSt) (x : List (Nat × List (Str × Kind × Nat))) : G { st with implicit := x } = G st := rfl

/-- `node_indexes.insert(n, index)` after a step -/
theorem NodeInv.finish {g : GraphVal} {cn : Str → Str} {o : Opts} {st st' : EncSt} {ss ss' : SpecSt} {id idx : Nat}
    (h : NodeInv g cn o st ss) (s : StepOut g cn o st ss id st' idx ss')
    (hnone : natGet st'.nodeIdx id = none) :
    NodeInv g cn o { st' with nodeIdx := st'.nodeIdx ++ [(id, idx)] } ss' := by
  obtain ⟨T, hT, hHas⟩ := s.terms
  have hdomid : natGet ss.terms id = none := (h.dom id).mp (by rw [← s.nodeIdx]; exact hnone)
  refine
    { sync := s.sync, nodes := ?_, dom := ?_, seen := s.seen, pkgs := s.pkgs, ncomp := s.ncomp,
      insts := s.insts, aliases := s.aliases, exports := s.exports, comps := s.comps,
      names := s.names, snames := s.snames, implicit := ?_ }
  · intro n i hn
    simp only [G_nodeIdx] at *
    rw [natGet_snoc, s.nodeIdx] at hn
    rw [term_eq_natGet, hT, natGet_snoc]
    cases hq : natGet st.nodeIdx n with
    | some x =>
      simp only [hq, Option.some.injEq] at hn
      subst hn
      have := h.nodes n x hq
      have hsome : natGet ss.terms n ≠ none := fun e => by
        have := (h.dom n).mpr e; simp [hq] at this
      cases hs : natGet ss.terms n with
      | none => exact absurd hs hsome
      | some t =>
        simp only [Option.getD_some]
        have h2 := s.ext _ _ _ this
        rw [term_eq_natGet, hs] at h2
        exact h2
    | none =>
      simp only [hq] at hn
      by_cases hid : id = n
      · subst hid
        simp only [↓reduceIte, Option.some.injEq] at hn
        subst hn
        simp [hdomid, hHas]
      · simp [hid] at hn
  · intro n
    simp only [natGet_snoc, s.nodeIdx, hT]
    cases hq : natGet st.nodeIdx n with
    | some x =>
      have hsome : natGet ss.terms n ≠ none := fun e => by
        have := (h.dom n).mpr e; simp [hq] at this
      cases hs : natGet ss.terms n with
      | none => exact absurd hs hsome
      | some t => simp
    | none =>
      have := (h.dom n).mp hq
      simp [this]
  · intro n hn slot sat p hk hp hnone'
    simp only [G_nodeIdx] at *
    rw [natGet_snoc, s.nodeIdx] at hnone'
    cases hq : natGet st.nodeIdx n.id with
    | some x => simp [hq] at hnone'
    | none =>
      simp only [hq] at hnone'
      have hne : n.id ≠ id := fun e => by simp [e] at hnone'
      have := h.implicit n hn slot sat p hk hp hq
      show ImplicitOk (G st') cn ((natGet st'.implicit n.id).getD []) (unsatisfiedByArgs n p)
      rw [s.implicit n.id hne]
      exact this.ext s.ext

/-! ### facts about `g.node?` -/

theorem node?_mem {g : GraphVal} {id : Nat} {n : Node} (h : g.node? id = some n) : n ∈ g.nodes ∧ n.id = id := by
  unfold GraphVal.node? at h
  exact ⟨List.mem_of_find?_eq_some h, by simpa using List.find?_some h⟩

theorem kindOf_of_node? {g : GraphVal} {id : Nat} {n : Node} (h : g.node? id = some n) : kindOf g id = n.ty.kind := by
  simp [kindOf, h]

/-! ### alias -/

theorem encAlias_step {g : GraphVal} {cn : Str → Str} {o : Opts} {st st' : EncSt} {ss : SpecSt} {id idx : Nat} {n : Node}
    (h : NodeInv g cn o st ss) (hn : g.node? id = some n) (hk : n.kind = .alias)
    (he : encAlias g st n = .ok (st', idx)) :
    StepOut g cn o st ss id st' idx (specNode g cn o.define ss id) := by
  unfold encAlias at he
  cases hsrc : n.aliasSource with
  | none => simp [hsrc] at he
  | some se =>
    obtain ⟨src, e⟩ := se
    simp only [hsrc] at he
    cases hsn : g.node? src with
    | none => simp [hsn] at he
    | some sn =>
      simp only [hsn] at he
      by_cases hki : sn.ty.kind = .instance
      · simp only [hki, ne_eq, not_true_eq_false, ↓reduceIte] at he
        cases hix : natGet st.nodeIdx src with
        | none => simp [hix] at he
        | some inst =>
          simp only [hix] at he
          injection he with he
          have he1 : (st.emit (.aliasExport inst n.ty.kind e)).1 = st' := by rw [he]
          have he2 : (st.emit (.aliasExport inst n.ty.kind e)).2 = idx := by rw [he]
          have hsrcHas : Has (G st) .instance inst (ss.term src) := by
            have := h.nodes src inst hix
            rwa [kindOf_of_node? hsn, hki] at this
          have hlook : (G st).look .instance inst = ss.term src := hsrcHas.2
          have hspec : specNode g cn o.define ss id =
              { ss with
                terms := ss.terms ++ [(id, .aliasOf (ss.term src) e)],
                w := if n.ty.kind = .type ∧ (ss.term src).isImp then ss.w
                     else { ss.w with aliases := ss.w.aliases ++ [(ss.term src, n.ty.kind, e)] } } := by
            simp [specNode, hn, hk, hsrc]
          have hhas := emit_has h.sync (.aliasExport inst n.ty.kind e) n.ty.kind rfl
          have hw : (G st').w = (wstep (G st) (.aliasExport inst n.ty.kind e)).w := by
            rw [← he1, emit_w]
          rw [wstep_alias_w, hlook] at hw
          rw [hspec]
          refine
            { sync := by rw [← he1]; exact emit_sync h.sync _,
              ext := by rw [← he1]; exact emit_ext _ _,
              nodeIdx := by rw [← he1, emit_nodeIdx],
              terms := ⟨.aliasOf (ss.term src) e, rfl, ?_⟩,
              seen := by rw [← he1, emit_pkgs]; exact h.seen,
              seenMono := fun _ _ => rfl,
              pkgs := ?_, ncomp := ?_, insts := ?_, aliases := ?_, exports := ?_, comps := ?_, names := ?_, snames := ?_,
              implicit := fun m _ => by rw [← he1, emit_implicit] }
          · rw [kindOf_of_node? hn, ← he1, ← he2]
            simpa [newTerm, hlook] using hhas
          · intro slot c hc
            rw [← he1, emit_pkgs] at hc
            rw [← he1]
            exact emit_ext _ _ _ _ _ (h.pkgs slot c hc)
          · intro hd; split <;> exact h.ncomp hd
          · rw [hw]; split <;> simp [h.insts]
          · rw [hw]; split <;> simp [h.aliases]
          · rw [hw]; split <;> simp [h.exports]
          · rw [hw]; split <;> simp [h.comps]
          · rw [hw]; split <;> simp [h.names]
          · split <;> exact h.snames
      · simp [hki] at he

/-! ### definition -/

theorem encDefinition_step {g : GraphVal} {cn : Str → Str} {o : Opts} {st st' : EncSt} {ss : SpecSt} {id idx : Nat} {n : Node}
    (wf : WF g) (h : NodeInv g cn o st ss) (hn : g.node? id = some n) (hk : n.kind = .definition)
    (he : encDefinition st n = .ok (st', idx)) :
    StepOut g cn o st ss id st' idx (specNode g cn o.define ss id) := by
  have hmem := (node?_mem hn).1
  have hty : n.ty.kind = .type := wf.defKind n hmem hk
  unfold encDefinition at he
  cases hname : n.exportName with
  | none => simp [hname] at he
  | some name =>
    simp only [hname] at he
    -- the type index that gets exported, with its provenance
    let inner : Term := defInner ss n
    have hspec : specNode g cn o.define ss id =
        { ss with terms := ss.terms ++ [(id, .exported name inner)],
                  w := { ss.w with exports := ss.w.exports ++ [(name, .type, inner)] } } := by
      simp [specNode, hn, hk, hname, inner]
    -- first half: st1, ty
    have key : ∃ st1 ty, defTypeIndex st n = (st1, ty) ∧ Sync st1 ∧ Ext (G st) (G st1) ∧ Has (G st1) .type ty inner ∧
          st1.nodeIdx = st.nodeIdx ∧ st1.pkgs = st.pkgs ∧ st1.implicit = st.implicit ∧ (G st1).w = (G st).w := by
      unfold defTypeIndex
      cases hb : n.defAlias.bind (natGet st.nodeIdx) with
      | some i =>
        refine ⟨st, i, rfl, h.sync, Ext.refl _, ?_, rfl, rfl, rfl, rfl⟩
        cases hda : n.defAlias with
        | none => simp [hda] at hb
        | some m =>
          simp only [hda, Option.bind_some] at hb
          have hH := h.nodes m i hb
          rw [wf.defAliasType n hmem m hda] at hH
          have hsome : natGet ss.terms m ≠ none := fun e => by
            have := (h.dom m).mpr e; simp [hb] at this
          have hinner : inner = ss.term m := by
            simp only [inner, defInner, hda, term_eq_natGet, natGet]
            cases hf : ss.terms.find? (·.1 == m) with
            | none => simp [natGet, hf] at hsome
            | some pr => simp
          rw [hinner]; exact hH
      | none =>
        have hinner : inner = .opaque := by
          cases hda : n.defAlias with
          | none => simp [inner, defInner, hda]
          | some m =>
            simp only [hda, Option.bind_some] at hb
            have := (h.dom m).mp hb
            simp only [natGet, Option.map_eq_none_iff] at this
            simp [inner, defInner, hda, this]
        refine ⟨(st.emit .typeDef).1, (st.emit .typeDef).2, rfl, emit_sync h.sync _, emit_ext _ _, ?_,
          emit_nodeIdx _ _, emit_pkgs _ _, emit_implicit _ _, ?_⟩
        · rw [hinner]; exact emit_has h.sync .typeDef .type rfl
        · rw [emit_w, wstep_typeDef_w]
    obtain ⟨st1, ty, hst1, hsync1, hext1, hhas1, hni1, hpk1, him1, hw1⟩ := key
    simp only [hst1] at he
    injection he with he
    have he1 : (st1.emit (.export name .type ty)).1 = st' := by rw [he]
    have he2 : (st1.emit (.export name .type ty)).2 = idx := by rw [he]
    have hlook : (G st1).look .type ty = inner := hhas1.2
    have hhas := emit_has hsync1 (.export name .type ty) .type rfl
    have hw : (G st').w = { (G st).w with exports := (G st).w.exports ++ [(name, .type, inner)] } := by
      rw [← he1, emit_w, wstep_export_w, hlook, hw1]
    rw [hspec]
    refine
      { sync := by rw [← he1]; exact emit_sync hsync1 _,
        ext := by rw [← he1]; exact hext1.trans (emit_ext _ _),
        nodeIdx := by rw [← he1, emit_nodeIdx, hni1],
        terms := ⟨.exported name inner, rfl, ?_⟩,
        seen := by rw [← he1, emit_pkgs, hpk1]; exact h.seen,
        seenMono := fun _ _ => rfl,
        pkgs := ?_, ncomp := h.ncomp, insts := by rw [hw]; exact h.insts, aliases := by rw [hw]; exact h.aliases,
        exports := by rw [hw]; simp [h.exports], comps := by rw [hw]; exact h.comps,
        names := by rw [hw]; exact h.names, snames := h.snames,
        implicit := fun m _ => by rw [← he1, emit_implicit, him1] }
    · rw [kindOf_of_node? hn, hty, ← he1, ← he2]
      simpa [newTerm, hlook] using hhas
    · intro slot c hc
      rw [← he1, emit_pkgs, hpk1] at hc
      rw [← he1]
      exact emit_ext _ _ _ _ _ (hext1 _ _ _ (h.pkgs slot c hc))

/-! ### instantiation -/

theorem implicitOk_map {w : WState} {cn : Str → Str} {L : List (Str × Kind × Nat)} {R : List ImportReq}
    (h : ImplicitOk w cn L R) :
    L.map (fun (a : Str × Kind × Nat) => (a.1, a.2.1, w.look a.2.1 a.2.2)) =
      R.map (fun r => (r.name, r.ty.kind, Term.imp (cn r.name))) := by
  induction L generalizing R with
  | nil => cases R <;> simp_all [ImplicitOk]
  | cons a L ih =>
    cases R with
    | nil => simp [ImplicitOk] at h
    | cons r R =>
      simp only [ImplicitOk] at h
      simp only [List.map_cons, List.cons.injEq]
      refine ⟨?_, ih h.2⟩
      rw [h.1.1, h.1.2.1] at *
      simp [← h.1.2.1, h.1.2.2.2]

theorem explicitArgs_spec {g : GraphVal} {cn : Str → Str} {o : Opts} {st st1 : EncSt} {ss : SpecSt}
    (h : NodeInv g cn o st ss) (hni : st1.nodeIdx = st.nodeIdx) (w' : WState) (hext : Ext (G st) w')
    (inc : List (EdgeW × Nat)) (args : List (Str × Kind × Nat))
    (he : explicitArgs g st1 inc = .ok args) :
    args.map (fun (a : Str × Kind × Nat) => (a.1, a.2.1, w'.look a.2.1 a.2.2)) =
      (Node.argsOf inc).map (fun (a : Str × Nat) => (a.1, kindOf g a.2, ss.term a.2)) := by
  induction inc generalizing args with
  | nil =>
    simp only [explicitArgs] at he
    injection he with he
    subst he
    simp [Node.argsOf]
  | cons e inc ih =>
    obtain ⟨w, src⟩ := e
    simp only [explicitArgs] at he
    cases hsn : g.node? src with
    | none => simp [hsn] at he
    | some sn =>
      simp only [hsn] at he
      cases hix : natGet st1.nodeIdx src with
      | none => simp [hix] at he
      | some idx =>
        simp only [hix] at he
        cases w with
        | alias e => simp at he
        | dep => simp at he
        | arg i name =>
          simp only at he
          cases hr : explicitArgs g st1 inc with
          | error e => simp [hr] at he
          | panic s => simp [hr] at he
          | ok l =>
            simp only [hr] at he
            injection he with he
            subst he
            have hH := hext _ _ _ (h.nodes src idx (by rw [← hni]; exact hix))
            simp only [Node.argsOf, List.map_cons, List.cons.injEq]
            refine ⟨?_, ih l hr⟩
            rw [kindOf_of_node? hsn] at hH ⊢
            simp [hH.2]

theorem idxOf_snoc_self (l : List Nat) (a : Nat) (h : a ∉ l) : (l ++ [a]).idxOf a = l.length := by
  induction l with
  | nil => simp [List.idxOf_cons]
  | cons b l ih =>
    have hb : (b == a) = false := by
      have : b ≠ a := fun e => h (by simp [e])
      simpa using this
    have hl : a ∉ l := fun e => h (by simp [e])
    simp [List.idxOf_cons, hb, ih hl]

theorem idxOf_snoc_mem (l : List Nat) (a b : Nat) (h : b ∈ l) : (l ++ [a]).idxOf b = l.idxOf b := by
  induction l with
  | nil => simp at h
  | cons c l ih =>
    by_cases hc : c = b
    · simp [List.idxOf_cons, hc]
    · have : b ∈ l := by
        rcases List.mem_cons.mp h with e | e
        · exact absurd e.symm hc
        · exact e
      have hcb : (c == b) = false := by simpa using hc
      simp [List.idxOf_cons, hcb, ih this]

theorem natGet_some_mem {β} {m : List (Nat × β)} {k : Nat} {v : β} (h : natGet m k = some v) : k ∈ m.map (·.1) := by
  induction m with
  | nil => simp [natGet_nil] at h
  | cons e m ih =>
    rw [natGet_cons] at h
    by_cases he : e.1 = k
    · simp [he]
    · simp only [he, ↓reduceIte] at h
      simp [ih h]

theorem natGet_none_not_mem {β} {m : List (Nat × β)} {k : Nat} (h : natGet m k = none) : k ∉ m.map (·.1) := by
  induction m with
  | nil => simp
  | cons e m ih =>
    rw [natGet_cons] at h
    by_cases he : e.1 = k
    · simp [he] at h
    · simp only [he, ↓reduceIte] at h
      have := ih h
      simp only [List.map_cons, List.mem_cons, not_or]
      exact ⟨fun e' => he e'.symm, this⟩

theorem pkgImportName_eq (p : PkgVal) : pkgImportName p = unlockedName p := rfl

/-- the seen list and component provenance after `pkgComponent` -/
def seenAfter (seen : List Nat) (slot : Nat) : List Nat := if seen.contains slot then seen else seen ++ [slot]

structure CompOut (g : GraphVal) (o : Opts) (st : EncSt) (ss : SpecSt) (slot : Nat) (p : PkgVal)
    (st1 : EncSt) (comp : Nat) : Prop where
  sync : Sync st1
  ext : Ext (G st) (G st1)
  nodeIdx : st1.nodeIdx = st.nodeIdx
  implicit : st1.implicit = st.implicit
  seen : st1.pkgs.map (·.1) = seenAfter ss.seen slot
  has : Has (G st1) .component comp (compTerm o.define g (seenAfter ss.seen slot) slot)
  mono : ∀ s, s ∈ ss.seen → compTerm o.define g (seenAfter ss.seen slot) s = compTerm o.define g ss.seen s
  pkgs : ∀ s c, natGet st1.pkgs s = some c → Has (G st1) .component c (compTerm o.define g (seenAfter ss.seen slot) s)
  insts : (G st1).w.insts = (G st).w.insts
  aliases : (G st1).w.aliases = (G st).w.aliases
  exports : (G st1).w.exports = (G st).w.exports
  names : (G st1).w.names = (G st).w.names
  comps : (G st1).w.comps =
    if o.define = true ∧ ¬ ss.seen.contains slot then (G st).w.comps ++ [p.bytesId] else (G st).w.comps

theorem compTerm_mono (define : Bool) (g : GraphVal) (seen : List Nat) (slot s : Nat) (hs : s ∈ seen) :
    compTerm define g (seenAfter seen slot) s = compTerm define g seen s := by
  unfold compTerm seenAfter
  by_cases hd : define = true
  · simp only [hd, ↓reduceIte]
    split
    · rfl
    · rw [idxOf_snoc_mem _ _ _ hs]
  · simp [hd]

theorem pkgComponent_step {g : GraphVal} {cn : Str → Str} {o : Opts} {st : EncSt} {ss : SpecSt} {slot : Nat} {p : PkgVal}
    (h : NodeInv g cn o st ss) (hp : g.pkg? slot = some p) :
    CompOut g o st ss slot p (pkgComponent o st slot p).1 (pkgComponent o st slot p).2 := by
  unfold pkgComponent
  cases hc : natGet st.pkgs slot with
  | some c =>
    have hmem : slot ∈ ss.seen := by rw [← h.seen]; exact natGet_some_mem hc
    have hcont : ss.seen.contains slot = true := by simpa using hmem
    have hsa : seenAfter ss.seen slot = ss.seen := by simp [seenAfter, hmem]
    simp only
    refine
      { sync := h.sync, ext := Ext.refl _, nodeIdx := rfl, implicit := rfl,
        seen := by rw [hsa]; exact h.seen,
        has := by rw [hsa]; exact h.pkgs slot c hc,
        mono := fun s _ => by rw [hsa],
        pkgs := fun s c' hc' => by rw [hsa]; exact h.pkgs s c' hc',
        insts := rfl, aliases := rfl, exports := rfl, names := rfl,
        comps := by simp [hmem] }
  | none =>
    have hnm : slot ∉ ss.seen := by rw [← h.seen]; exact natGet_none_not_mem hc
    have hcont : ss.seen.contains slot = false := by simpa using hnm
    have hsa : seenAfter ss.seen slot = ss.seen ++ [slot] := by simp [seenAfter, hnm]
    simp only
    by_cases hd : o.define = true
    · simp only [hd, ↓reduceIte]
      have hhas := emit_has h.sync (.component p.bytesId) .component rfl
      have hw : (G (st.emit (.component p.bytesId)).1).w = { (G st).w with comps := (G st).w.comps ++ [p.bytesId] } := by
        rw [emit_w, wstep_component_w]
      have hterm : compTerm o.define g (ss.seen ++ [slot]) slot = .comp (G st).w.comps.length := by
        simp only [compTerm, hd, ↓reduceIte]
        rw [idxOf_snoc_self _ _ hnm, h.comps, h.ncomp hd]
      have hhas' : Has (G (st.emit (.component p.bytesId)).1) .component (st.emit (.component p.bytesId)).2
          (.comp (G st).w.comps.length) := by simpa [newTerm] using hhas
      refine
        { sync := (emit_sync h.sync (.component p.bytesId) : Sync _), ext := (emit_ext st (.component p.bytesId) : Ext _ _),
          nodeIdx := emit_nodeIdx _ _, implicit := emit_implicit _ _,
          seen := by rw [hsa]; simp [emit_pkgs, h.seen],
          has := by rw [hsa, hterm]; exact hhas',
          mono := fun s hs => compTerm_mono _ _ _ _ _ hs,
          pkgs := ?_, insts := by rw [G_pkgs, hw], aliases := by rw [G_pkgs, hw], exports := by rw [G_pkgs, hw],
          names := by rw [G_pkgs, hw], comps := by rw [G_pkgs, hw]; simp [hd, hnm] }
      intro s c hsc
      rw [G_pkgs]
      simp only [emit_pkgs, natGet_snoc] at hsc
      cases hq : natGet st.pkgs s with
      | some x =>
        simp only [hq, Option.some.injEq] at hsc
        subst hsc
        have hs : s ∈ ss.seen := by rw [← h.seen]; exact natGet_some_mem hq
        rw [compTerm_mono _ _ _ _ _ hs]
        exact emit_ext _ _ _ _ _ (h.pkgs s x hq)
      | none =>
        simp only [hq] at hsc
        by_cases hss : slot = s
        · subst hss
          simp only [↓reduceIte, Option.some.injEq] at hsc
          subst hsc
          rw [hsa, hterm]; exact hhas'
        · simp [hss] at hsc
    · have hdf : o.define = false := by simpa using hd
      simp only [hdf, Bool.false_eq_true, ↓reduceIte]
      have hs1 := emit_sync h.sync .typeDef
      have hhas := emit_has hs1 (.import (pkgImportName p) .component) .component rfl
      have hw : (G ((st.emit .typeDef).1.emit (.import (pkgImportName p) .component)).1).w =
          { (G st).w with imports := (G st).w.imports ++ [(pkgImportName p, .component)] } := by
        rw [emit_w, wstep_import_w, emit_w, wstep_typeDef_w]
      have hterm : compTerm o.define g (ss.seen ++ [slot]) slot = .imp (pkgImportName p) := by
        simp [compTerm, hdf, hp, pkgImportName_eq]
      have hext : Ext (G st) (G ((st.emit .typeDef).1.emit (.import (pkgImportName p) .component)).1) :=
        (emit_ext _ _).trans (emit_ext _ _)
      have hhas' : Has (G ((st.emit .typeDef).1.emit (.import (pkgImportName p) .component)).1) .component
          ((st.emit .typeDef).1.emit (.import (pkgImportName p) .component)).2 (.imp (pkgImportName p)) := by
        simpa [newTerm] using hhas
      refine
        { sync := (emit_sync hs1 (.import (pkgImportName p) .component) : Sync _), ext := hext,
          nodeIdx := by simp [emit_nodeIdx], implicit := by simp [emit_implicit],
          seen := by rw [hsa]; simp [emit_pkgs, h.seen],
          has := by rw [hsa, hterm]; exact hhas',
          mono := fun s hs => compTerm_mono _ _ _ _ _ hs,
          pkgs := ?_, insts := by rw [G_pkgs, hw], aliases := by rw [G_pkgs, hw], exports := by rw [G_pkgs, hw],
          names := by rw [G_pkgs, hw], comps := by rw [G_pkgs, hw]; simp [hdf] }
      intro s c hsc
      rw [G_pkgs]
      simp only [emit_pkgs, natGet_snoc] at hsc
      cases hq : natGet st.pkgs s with
      | some x =>
        simp only [hq, Option.some.injEq] at hsc
        subst hsc
        have hs : s ∈ ss.seen := by rw [← h.seen]; exact natGet_some_mem hq
        rw [compTerm_mono _ _ _ _ _ hs]
        exact hext _ _ _ (h.pkgs s x hq)
      | none =>
        simp only [hq] at hsc
        by_cases hss : slot = s
        · subst hss
          simp only [↓reduceIte, Option.some.injEq] at hsc
          subst hsc
          rw [hsa, hterm]; exact hhas'
        · simp [hss] at hsc

theorem specInst_eq (g : GraphVal) (cn : Str → Str) (define : Bool) (s : SpecSt) (id : Nat) (n : Node)
    (slot : Nat) (p : PkgVal) (hp : g.pkg? slot = some p) (hnc : define = true → s.w.comps.length = s.seen.length) :
    specInst g cn define s id n slot p =
      { terms := s.terms ++ [(id, .inst s.w.insts.length)],
        seen := seenAfter s.seen slot,
        w := { s.w with
               insts := s.w.insts ++
                 [{ comp := compTerm define g (seenAfter s.seen slot) slot,
                    args := (n.args.map fun (a : Str × Nat) => (a.1, kindOf g a.2, s.term a.2)) ++
                      (unsatisfiedByArgs n p).map fun r => (r.name, r.ty.kind, Term.imp (cn r.name)) }],
               comps := if define = true ∧ ¬ s.seen.contains slot then s.w.comps ++ [p.bytesId] else s.w.comps } } := by
  unfold specInst seenAfter compTerm
  by_cases hc : slot ∈ s.seen
  · simp [hc, hp]
  · by_cases hd : define = true
    · simp [hc, hd, idxOf_snoc_self _ _ hc]
    · simp [hc, hd, hp]

theorem encInstantiation_step {g : GraphVal} {cn : Str → Str} {o : Opts} {st st' : EncSt} {ss : SpecSt} {id idx : Nat}
    {n : Node} {slot : Nat} {sat : List Nat}
    (wf : WF g) (h : NodeInv g cn o st ss) (hn : g.node? id = some n) (hk : n.kind = .instantiation slot sat)
    (hnone : natGet st.nodeIdx id = none)
    (he : encInstantiation g o st n slot = .ok (st', idx)) :
    StepOut g cn o st ss id st' idx (specNode g cn o.define ss id) := by
  obtain ⟨hmem, hid⟩ := node?_mem hn
  unfold encInstantiation at he
  cases hp : g.pkg? slot with
  | none => simp [hp] at he
  | some p =>
    simp only [hp] at he
    have co := pkgComponent_step h hp
    generalize hr : pkgComponent o st slot p = r at he co
    cases hargs : explicitArgs g r.1 n.inc with
    | error e => simp [hargs] at he
    | panic s => simp [hargs] at he
    | ok args =>
      simp only [hargs] at he
      injection he with he
      -- names for the pieces
      let L := (natGet r.1.implicit n.id).getD []
      let st2 : EncSt := { r.1 with implicit := r.1.implicit.filter fun e => e.1 != n.id }
      have he1 : (st2.emit (.instantiate r.2 (args ++ L))).1 = st' := by rw [he]
      have he2 : (st2.emit (.instantiate r.2 (args ++ L))).2 = idx := by rw [he]
      have hG2 : G st2 = G r.1 := rfl
      have hsync2 : Sync st2 := co.sync
      have hspec : specNode g cn o.define ss id = specInst g cn o.define ss id n slot p := by
        simp [specNode, hn, hk, hp]
      rw [hspec, specInst_eq g cn o.define ss id n slot p hp h.ncomp]
      -- the arguments as the section reader sees them
      have hexp := explicitArgs_spec h co.nodeIdx (G r.1) co.ext n.inc args hargs
      have himp : ImplicitOk (G r.1) cn L (unsatisfiedByArgs n p) := by
        have := h.implicit n hmem slot sat p hk hp (by rw [hid]; exact hnone)
        have h2 := this.ext co.ext
        simpa [L, co.implicit] using h2
      have hargsEq : (args ++ L).map (fun (a : Str × Kind × Nat) => (a.1, a.2.1, (G st2).look a.2.1 a.2.2)) =
          (n.args.map fun (a : Str × Nat) => (a.1, kindOf g a.2, ss.term a.2)) ++
            (unsatisfiedByArgs n p).map fun r => (r.name, r.ty.kind, Term.imp (cn r.name)) := by
        rw [List.map_append, hG2, hexp, implicitOk_map himp]
        rfl
      have hhas := emit_has hsync2 (.instantiate r.2 (args ++ L)) .instance rfl
      have hw : (G st').w = { (G r.1).w with insts := (G r.1).w.insts ++
          [{ comp := compTerm o.define g (seenAfter ss.seen slot) slot,
             args := (n.args.map fun (a : Str × Nat) => (a.1, kindOf g a.2, ss.term a.2)) ++
               (unsatisfiedByArgs n p).map fun r => (r.name, r.ty.kind, Term.imp (cn r.name)) }] } := by
        rw [← he1, emit_w, wstep_instantiate_w, hG2, ← hargsEq, hG2, co.has.2]
      have hkind : kindOf g id = .instance := by
        rw [kindOf_of_node? hn]
        exact wf.instKind n hmem slot sat hk
      refine
        { sync := by rw [← he1]; exact emit_sync hsync2 _,
          ext := by rw [← he1]; exact co.ext.trans (emit_ext st2 _),
          nodeIdx := by rw [← he1, emit_nodeIdx]; exact co.nodeIdx,
          terms := ⟨.inst ss.w.insts.length, rfl, ?_⟩,
          seen := by rw [← he1, emit_pkgs]; exact co.seen,
          seenMono := co.mono,
          pkgs := ?_, ncomp := ?_,
          insts := by rw [hw, co.insts, h.insts],
          aliases := by rw [hw, co.aliases, h.aliases],
          exports := by rw [hw, co.exports, h.exports],
          comps := by rw [hw, co.comps, h.comps],
          names := by rw [hw, co.names, h.names], snames := h.snames,
          implicit := ?_ }
      · rw [hkind, ← he1, ← he2]
        have : newTerm (G st2) (.instantiate r.2 (args ++ L)) = .inst ss.w.insts.length := by
          simp [newTerm, hG2, co.insts, h.insts]
        rw [← this]; exact hhas
      · intro s c hc
        rw [← he1, emit_pkgs] at hc
        rw [← he1]
        exact emit_ext st2 _ _ _ _ (co.pkgs s c hc)
      · intro hd
        by_cases hc : slot ∈ ss.seen
        · simp [seenAfter, hc, h.ncomp hd]
        · simp [seenAfter, hc, hd, h.ncomp hd]
      · intro m hm
        rw [← he1, emit_implicit]
        show natGet (r.1.implicit.filter fun e => e.1 != n.id) m = natGet st.implicit m
        rw [natGet_filter_ne _ _ _ (by rw [hid]; exact hm), co.implicit]

/-! ### the loop -/

theorem encNode_inv {g : GraphVal} {cn : Str → Str} {o : Opts} {st st' : EncSt} {ss : SpecSt} {id : Nat}
    (wf : WF g) (h : NodeInv g cn o st ss) (he : encNode g o st id = .ok st') :
    NodeInv g cn o st' (specNode g cn o.define ss id) := by
  unfold encNode at he
  cases hn : g.node? id with
  | none => simp [hn] at he
  | some n =>
    simp only [hn] at he
    -- the per-kind result
    have key : ∀ (r : Res (EncSt × Nat)),
        (∀ s1 i, r = .ok (s1, i) → StepOut g cn o st ss id s1 i (specNode g cn o.define ss id)) →
        (match r with
          | .error e => Res.error e
          | .panic s => Res.panic s
          | .ok (st', idx) =>
            match natGet st'.nodeIdx id with
            | some _ => Res.panic "assert!(prev.is_none())"
            | none => Res.ok { st' with nodeIdx := st'.nodeIdx ++ [(id, idx)] }) = Res.ok st' →
        NodeInv g cn o st' (specNode g cn o.define ss id) := by
      intro r hr hres
      cases r with
      | error e => simp at hres
      | panic s => simp at hres
      | ok pr =>
        obtain ⟨s1, i⟩ := pr
        simp only at hres
        cases hq : natGet s1.nodeIdx id with
        | some x => simp [hq] at hres
        | none =>
          simp only [hq] at hres
          injection hres with hres
          rw [← hres]
          exact h.finish (hr s1 i rfl) hq
    cases hk : n.kind with
    | definition =>
      simp only [hk] at he
      exact key _ (fun s1 i hr => encDefinition_step wf h hn hk hr) he
    | alias =>
      simp only [hk] at he
      exact key _ (fun s1 i hr => encAlias_step h hn hk hr) he
    | «import» nm =>
      simp [hk] at he
    | instantiation slot sat =>
      simp only [hk] at he
      -- `natGet st.nodeIdx id = none` follows from the post-hoc assertion, as `nodeIdx` is untouched
      cases hr : encInstantiation g o st n slot with
      | error e => simp [hr] at he
      | panic s => simp [hr] at he
      | ok pr =>
        obtain ⟨s1, i⟩ := pr
        have hni : s1.nodeIdx = st.nodeIdx := by
          unfold encInstantiation at hr
          cases hp : g.pkg? slot with
          | none => simp [hp] at hr
          | some p =>
            simp only [hp] at hr
            cases hargs : explicitArgs g (pkgComponent o st slot p).1 n.inc with
            | error e => simp [hargs] at hr
            | panic s => simp [hargs] at hr
            | ok args =>
              simp only [hargs] at hr
              injection hr with hr
              have : s1 = ({ (pkgComponent o st slot p).1 with
                  implicit := (pkgComponent o st slot p).1.implicit.filter fun e => e.1 != n.id }.emit
                    (.instantiate (pkgComponent o st slot p).2
                      (args ++ (natGet (pkgComponent o st slot p).1.implicit n.id).getD []))).1 := by rw [hr]
              rw [this, emit_nodeIdx]
              exact (pkgComponent_step h hp).nodeIdx
        simp only [hr] at he
        cases hq : natGet s1.nodeIdx id with
        | some x => simp [hq] at he
        | none =>
          have hnone : natGet st.nodeIdx id = none := by rw [← hni]; exact hq
          exact key (.ok (s1, i)) (fun s1' i' e => by cases e; exact encInstantiation_step wf h hn hk hnone hr) he

theorem encNodes_inv {g : GraphVal} {cn : Str → Str} {o : Opts} (wf : WF g) (ids : List Nat) {st st' : EncSt} {ss : SpecSt}
    (h : NodeInv g cn o st ss) (he : encNodes g o ids st = .ok st') :
    NodeInv g cn o st' (ids.foldl (specNode g cn o.define) ss) := by
  induction ids generalizing st ss with
  | nil =>
    simp only [encNodes] at he
    injection he with he
    subst he
    simpa using h
  | cons id rest ih =>
    simp only [encNodes] at he
    cases h1 : encNode g o st id with
    | error e => simp [h1] at he
    | panic s => simp [h1] at he
    | ok st1 =>
      simp only [h1] at he
      simp only [List.foldl_cons]
      exact ih (encNode_inv wf h h1) he

end Wac
