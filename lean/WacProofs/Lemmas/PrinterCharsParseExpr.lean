import WacProofs.Lemmas.PrinterCharsParseTypes
/-
  C13, "the parser puts only characters of the tokens into the leaves": expressions (`parseExpr`,
  `parsePrimaryExpr`, `parseInstantiationArgument`, by simultaneous induction on the fuel), the
  postfix loop, `let`/`export` statements, extern names.
-/
namespace Wac.Lemmas.PrinterChars
open Wac Wac.Ast Wac.Lex Wac.Parse

variable {q : Char → Bool}

/-- the characters of one instantiation argument (the head condition of `charsArgs`) -/
def argChars (q : Char → Bool) : InstantiationArgument → Bool
  | .Inferred id => id.chars q
  | .Spread id => id.chars q
  | .Named (.mk name e) => name.chars q && e.chars q
  | .Fill _ => true

theorem charsArgs_cons (a : InstantiationArgument) (r : List InstantiationArgument) :
    charsArgs q (a :: r) = (argChars q a && charsArgs q r) := by
  cases a with
  | Inferred id => rfl
  | Spread id => rfl
  | Named n => cases n; rfl
  | Fill sp => rfl

theorem charsArgs_of_forall (as : List InstantiationArgument) (h : ∀ a ∈ as, argChars q a = true) :
    charsArgs q as = true := by
  induction as with
  | nil => rfl
  | cons a r ih =>
    rw [charsArgs_cons, h a (List.mem_cons_self ..), ih (fun x hx => h x (List.mem_cons_of_mem _ hx))]
    rfl

theorem Expr.chars_mk (sp : Span) (p : PrimaryExpr) (post : List PostfixExpr) :
    (Expr.mk sp p post).chars q = (p.chars q && post.all (PostfixExpr.chars q)) := by rfl
theorem PrimaryExpr.chars_New (sp : Span) (pk : PackageName) (as : List InstantiationArgument) :
    (PrimaryExpr.New (.mk sp pk as)).chars q = (pk.chars q && charsArgs q as) := by rfl
theorem PrimaryExpr.chars_Nested (sp : Span) (e : Expr) : (PrimaryExpr.Nested (.mk sp e)).chars q = e.chars q := by rfl
theorem PrimaryExpr.chars_Ident (id : Ident) : (PrimaryExpr.Ident id).chars q = id.chars q := by rfl

theorem parseInstantiationArgumentName_chars {st : PState} (hst : ToksChars q st) :
    PostC q (parseInstantiationArgumentName st) (fun n => n.chars q = true) := by
  unfold parseInstantiationArgumentName
  split
  · cbind parseIdent_chars hst => id st1 hid hst1
    exact PostC_ok (by simpa [InstantiationArgumentName.chars] using hid) hst1
  · cbind parseString_chars hst => s st1 hs hst1
    exact PostC_ok (by simpa [InstantiationArgumentName.chars] using hs) hst1
  · exact PostC_error

theorem parseAccessExpr_chars {st : PState} (hst : ToksChars q st) :
    PostC q (parseAccessExpr st) (fun a => a.id.chars q = true) := by
  unfold parseAccessExpr
  cbind parseToken_chars _ hst => _ st1 _ hst1
  cbind parseIdent_chars hst1 => id st2 hid hst2
  exact PostC_ok hid hst2

theorem parseNamedAccessExpr_chars {st : PState} (hst : ToksChars q st) :
    PostC q (parseNamedAccessExpr st) (fun a => a.string.chars q = true) := by
  unfold parseNamedAccessExpr
  cbind parseToken_chars _ hst => _ st1 _ hst1
  cbind parseString_chars hst1 => s st2 hs hst2
  cbind parseToken_chars _ hst2 => _ st3 _ hst3
  exact PostC_ok hs hst3

theorem parsePostfix_chars : ∀ (fuel : Nat) {st : PState}, ToksChars q st →
    PostC q (parsePostfix fuel st) (fun ps => ps.all (PostfixExpr.chars q) = true) := by
  intro fuel
  induction fuel with
  | zero => intro st _; unfold parsePostfix; exact PostC_error
  | succ fuel ih =>
    intro st hst
    unfold parsePostfix
    split
    · cbind parseAccessExpr_chars hst => a st1 ha hst1
      cbind ih hst1 => r st2 hr hst2
      exact PostC_ok (by simp only [List.all_cons, PostfixExpr.chars, ha, hr]; rfl) hst2
    · cbind parseNamedAccessExpr_chars hst => a st1 ha hst1
      cbind ih hst1 => r st2 hr hst2
      exact PostC_ok (by simp only [List.all_cons, PostfixExpr.chars, ha, hr]; rfl) hst2
    · exact PostC_ok rfl hst

theorem parseExpr_mutual_chars : ∀ (fuel : Nat),
    (∀ {st : PState}, ToksChars q st → PostC q (parseExpr fuel st) (fun e => e.chars q = true)) ∧
    (∀ {st : PState}, ToksChars q st → PostC q (parsePrimaryExpr fuel st) (fun e => e.chars q = true)) ∧
    (∀ {st : PState}, ToksChars q st → PostC q (parseInstantiationArgument fuel st) (fun a => argChars q a = true)) := by
  intro fuel
  induction fuel with
  | zero =>
    refine ⟨?_, ?_, ?_⟩
    · intro st _; unfold parseExpr; exact PostC_error
    · intro st _; unfold parsePrimaryExpr; exact PostC_error
    · intro st _; unfold parseInstantiationArgument; exact PostC_error
  | succ fuel ih =>
    obtain ⟨ihE, ihP, ihA⟩ := ih
    refine ⟨?_, ?_, ?_⟩
    · intro st hst
      unfold parseExpr
      cbind ihP hst => p st1 hp hst1
      cbind parsePostfix_chars _ hst1 => post st2 hpost hst2
      exact PostC_ok (by rw [Expr.chars_mk, hp, hpost]; rfl) hst2
    · intro st hst
      unfold parsePrimaryExpr
      split
      · cbind parseToken_chars _ hst => _ st1 _ hst1
        cbind parsePackageName_chars hst1 => pk st2 hpk hst2
        cbind parseToken_chars _ hst2 => _ st3 _ hst3
        cbind parseDelimited_chars _ _ _ (fun _ h => ihA h) _ hst3 => as st4 has hst4
        cbind parseToken_chars _ hst4 => _ st5 _ hst5
        exact PostC_ok (by rw [PrimaryExpr.chars_New, hpk, charsArgs_of_forall _ has]; rfl) hst5
      · cbind parseToken_chars _ hst => _ st1 _ hst1
        cbind ihE hst1 => e st2 he hst2
        cbind parseToken_chars _ hst2 => _ st3 _ hst3
        exact PostC_ok (by rw [PrimaryExpr.chars_Nested]; exact he) hst3
      · cbind parseIdent_chars hst => id st1 hid hst1
        exact PostC_ok (by rw [PrimaryExpr.chars_Ident]; exact hid) hst1
      · exact PostC_error
    · intro st hst
      unfold parseInstantiationArgument
      split
      · cbind parseToken_chars _ hst => e st1 _ hst1
        split
        · exact PostC_ok rfl hst1
        · cbind parseIdent_chars hst1 => id st2 hid hst2
          exact PostC_ok hid hst2
      · split
        · split
          · cbind parseInstantiationArgumentName_chars hst => n st1 hn hst1
            cbind parseToken_chars _ hst1 => _ st2 _ hst2
            cbind ihE hst2 => e st3 he hst3
            exact PostC_ok (by show (n.chars q && e.chars q) = true; rw [hn, he]; rfl) hst3
          · cbind parseIdent_chars hst => id st1 hid hst1
            exact PostC_ok hid hst1
        · exact PostC_error
      · exact PostC_error

theorem parseExpr_chars (fuel : Nat) {st : PState} (hst : ToksChars q st) :
    PostC q (parseExpr fuel st) (fun e => e.chars q = true) := (parseExpr_mutual_chars fuel).1 hst

/-! ### `let`, `export` -/

theorem parseLetStatement_chars (fuel : Nat) {st : PState} (hst : ToksChars q st) :
    PostC q (parseLetStatement fuel st) (fun s => s.chars q = true) := by
  unfold parseLetStatement
  cbind parseToken_chars _ hst => _ st1 _ hst1
  cbind parseIdent_chars hst1 => id st2 hid hst2
  cbind parseToken_chars _ hst2 => _ st3 _ hst3
  cbind parseExpr_chars fuel hst3 => e st4 he hst4
  cbind parseToken_chars _ hst4 => _ st5 _ hst5
  exact PostC_ok (by simp [LetStatement.chars, parseDocs_chars hst, hid, he]) hst5

theorem parseExternName_chars {st : PState} (hst : ToksChars q st) :
    PostC q (parseExternName st) (fun n => n.chars q = true) := by
  unfold parseExternName
  split
  · cbind parseIdent_chars hst => id st1 hid hst1
    exact PostC_ok (by simpa [ExternName.chars] using hid) hst1
  · cbind parseString_chars hst => s st1 hs hst1
    exact PostC_ok (by simpa [ExternName.chars] using hs) hst1
  · exact PostC_error

theorem parseExportOptions_chars {st : PState} (hst : ToksChars q st) :
    PostC q (parseExportOptions st) (fun o => o.chars q = true) := by
  unfold parseExportOptions
  split
  · cbind parseToken_chars _ hst => e st1 _ hst1
    exact PostC_ok rfl hst1
  · split
    · cbind parseToken_chars _ hst => _ st1 _ hst1
      cbind parseExternName_chars hst1 => n st2 hn hst2
      exact PostC_ok (by simpa [ExportOptions.chars] using hn) hst2
    · exact PostC_ok rfl hst

theorem parseExportStatement_chars (fuel : Nat) {st : PState} (hst : ToksChars q st) :
    PostC q (parseExportStatement fuel st) (fun s => s.chars q = true) := by
  unfold parseExportStatement
  cbind parseToken_chars _ hst => _ st1 _ hst1
  cbind parseExpr_chars fuel hst1 => e st2 he hst2
  cbind parseExportOptions_chars hst2 => o st3 ho hst3
  cbind parseToken_chars _ hst3 => _ st4 _ hst4
  exact PostC_ok (by simp [ExportStatement.chars, parseDocs_chars hst, he, ho]) hst4

end Wac.Lemmas.PrinterChars
