import WacProofs.Lemmas.Document
import WacProofs.Lemmas.C12Screen
import WacProofs.Lemmas.LexShape
import WacProofs.Lemmas.LexSpec
/-
  C12 proofs: from token lists to source texts.  Combines the code-point screen (`Screen.lean`),
  the lexer theorem (`lex_spec`: the model lexer is the documented longest-match lexer), the
  lexical shape of package-path tokens (`tokenize_pathShape`) and the token-level parser theorems
  (`Document.lean`) into statements about `parseDocument` (the model of `Document::parse`) and
  `Spec.Grammar.verdict` (the specification's verdict on a text).  The remaining ingredients are
  section hypotheses here and are discharged in `Props/C12Grammar.lean`.
-/
namespace Wac.C12
open Wac Wac.Ast Wac.Lex Wac.Parse Wac.Spec.Grammar

/-! ### from token lists to source texts -/

theorem abs_init (src : Str) : abs (PState.init src) = (tokenize src).map absTok := rfl

theorem wf_init (src : Str) : WF (PState.init src) := tokenize_pathShape src

theorem no_formfeed {src : Str} (h : src.any forbiddenChar = false) : ∀ c ∈ src, c ≠ '\x0c' := by
  intro c hc hff
  subst hff
  have : forbiddenChar '\x0c' = false := by
    have := List.any_eq_false.mp h _ hc
    simpa using this
  exact absurd this (by decide)

theorem all_ok_of_no_junk {toks : List LTok} (h : junk ∉ toks.map absTok) :
    toks.all (fun tk => tk.tok?.isSome) = true := by
  rw [List.all_eq_true]
  intro tk htk
  cases hr : tk.res with
  | ok k => simp [tok?_ok hr]
  | error e =>
    exfalso; apply h
    rw [List.mem_map]
    exact ⟨tk, htk, by rw [absTok_error hr]; rfl⟩

/-- the text is in the documented language, with tree `d` -/
def InLanguage (src : Str) (d : Document) : Prop :=
  src.any forbiddenChar = false ∧ ∃ ts, tokens (src.length + 1) src = some ts ∧ d ∈ derivations ts

section Text
variable (hV : SemverAgree) (hS : StmtSound) (hC : StmtComplete)
  (hJ : ∀ ts d, d ∈ derivations ts → junk ∉ ts)
include hV hS hJ

theorem parseDocument_sound (src : Str) (d : Document) (h : parseDocument src = .ok d) :
    InLanguage src (eraseDocument d) := by
  have hscreen : src.any forbiddenChar = false := by
    cases hany : src.any forbiddenChar with
    | false => rfl
    | true =>
      obtain ⟨e, sp, he, _⟩ := screen_before_lexing src hany
      rw [he] at h; cases h
  rw [screen_transparent src hscreen] at h
  have hmem := parseTokens_sound hV hS _ _ (wf_init src) h
  have hj := hJ _ _ hmem
  rw [abs_init] at hj
  have hall := all_ok_of_no_junk hj
  refine ⟨hscreen, _, ?_, hmem⟩
  rw [lex_spec src (no_formfeed hscreen), hall]
  simp [abs_init]

include hC

omit hJ in
theorem parseDocument_complete (src : Str) (d' : Document) (h : InLanguage src d') :
    ∃ d, parseDocument src = .ok d ∧ eraseDocument d = d' := by
  obtain ⟨hscreen, ts, hts, hd⟩ := h
  rw [lex_spec src (no_formfeed hscreen)] at hts
  split at hts
  · cases hts
    rw [screen_transparent src hscreen]
    exact parseTokens_complete hV hS hC _ (wf_init src) d' (by rw [abs_init]; exact hd)
  · cases hts

omit hJ in
/-- the tree of a text of the language is unique -/
theorem inLanguage_unique (src : Str) (d1 d2 : Document) (h1 : InLanguage src d1) (h2 : InLanguage src d2) :
    d1 = d2 := by
  obtain ⟨e1, he1, rfl⟩ := parseDocument_complete hV hS hC src d1 h1
  obtain ⟨e2, he2, rfl⟩ := parseDocument_complete hV hS hC src d2 h2
  rw [he1] at he2; cases he2; rfl

variable (hN : ∀ ts, (∀ d1 ∈ derivations ts, ∀ d2 ∈ derivations ts, d1 = d2) → (derivations ts).length ≤ 1)
include hN

omit hJ in
theorem verdict_of_inLanguage (src : Str) (d : Document) (h : InLanguage src d) :
    verdict src = .accept d := by
  obtain ⟨hscreen, ts, hts, hd⟩ := h
  have huniq : ∀ d1 ∈ derivations ts, ∀ d2 ∈ derivations ts, d1 = d2 := fun d1 h1 d2 h2 =>
    inLanguage_unique hV hS hC src d1 d2 ⟨hscreen, ts, hts, h1⟩ ⟨hscreen, ts, hts, h2⟩
  have hlen := hN ts huniq
  unfold verdict
  simp only [hscreen, Bool.false_eq_true, if_false, hts]
  match hds : derivations ts, hd, hlen with
  | [d0], hd, _ =>
    have : d = d0 := by simpa using hd
    subst this; rfl
  | [], hd, _ => simp at hd
  | _ :: _ :: _, _, hlen => simp at hlen

/-- the specification's verdict is "accept with tree `d'`" exactly when the parser model accepts
with a tree that is `d'` up to spans and doc comments -/
theorem verdict_accept_iff (src : Str) (d' : Document) :
    verdict src = .accept d' ↔ ∃ d, parseDocument src = .ok d ∧ eraseDocument d = d' := by
  constructor
  · intro hv
    apply parseDocument_complete hV hS hC src d'
    unfold verdict at hv
    split at hv
    · cases hv
    · rename_i hscreen
      split at hv
      · cases hv
      · rename_i ts hts
        split at hv
        · cases hv
        · rename_i d hds
          cases hv
          exact ⟨by simpa using hscreen, ts, hts, by rw [hds]; simp⟩
        · cases hv
  · rintro ⟨d, hd, rfl⟩
    exact verdict_of_inLanguage hV hS hC hN src _ (parseDocument_sound hV hS hJ src d hd)

omit hJ in
/-- the specification never reports an ambiguity -/
theorem verdict_not_ambiguous (src : Str) (n : Nat) : verdict src ≠ .ambiguous n := by
  intro hv
  unfold verdict at hv
  split at hv
  · cases hv
  · rename_i hscreen
    split at hv
    · cases hv
    · rename_i ts hts
      have hscreen' : src.any forbiddenChar = false := by simpa using hscreen
      have huniq : ∀ d1 ∈ derivations ts, ∀ d2 ∈ derivations ts, d1 = d2 := fun d1 h1 d2 h2 =>
        inLanguage_unique hV hS hC src d1 d2 ⟨hscreen', ts, hts, h1⟩ ⟨hscreen', ts, hts, h2⟩
      have hlen := hN ts huniq
      split at hv
      · cases hv
      · cases hv
      · rename_i ds h1 h2
        match hds : derivations ts, hlen, h1, h2 with
        | [], _, h1, _ => exact h1 rfl
        | [d], _, _, h2 => exact h2 d rfl
        | _ :: _ :: _, hlen, _, _ => simp at hlen
end Text
end Wac.C12
