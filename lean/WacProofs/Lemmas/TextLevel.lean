import WacProofs.Lemmas.Document
import WacProofs.Lemmas.C12Screen
import WacProofs.Lemmas.LexShape
import WacProofs.Lemmas.LexSpec
/-
  C12 proofs: from token lists to source texts.  Combines the code-point screen (`C12Screen.lean`),
  the lexer theorem (`lex_spec`: the model lexer is the documented longest-match lexer), the
  lexical shape of package-path tokens (`tokenize_pathShape`), the bracket-nesting limit
  (`effToks_spec`: the items `Lexer::next` delivers are the raw tokens exactly when the
  specification's `nestingWithin` holds, and contain a junk item otherwise) and the token-level
  parser theorems (`Document.lean`) into statements about `parseDocument` (the model of
  `Document::parse`) and `Spec.Grammar.verdictWith Generated.maxNestingDepth` (the specification's
  verdict on a text, with the implementation's nesting limit, deviation D9).  The remaining
  ingredients are section hypotheses here and are discharged in `Props/C12Grammar.lean`.
-/
namespace Wac.C12
open Wac Wac.Ast Wac.Lex Wac.Parse Wac.Spec.Grammar

/-! ### the nesting limit: `effToks` vs the specification's `nestingWithin` -/

/-- the specification's nesting condition for an optional limit -/
def nestOK (limit : Option Nat) (d : Nat) (ts : List STok) : Bool :=
  match limit with
  | some l => nestingWithin l d ts
  | none => true

theorem tooDeep_eq (d : Nat) :
    tooDeep d = (match Generated.maxNestingDepth with | some l => decide (d > l) | none => false) := by
  unfold tooDeep; split <;> simp_all

theorem absTok_open {t : LTok} {k : Token} (h : t.res = .ok k) :
    ((absTok t).kind == .lit && ((absTok t).text == ['('] || (absTok t).text == ['<'] || (absTok t).text == ['{']))
      = isOpenBracket k := by
  rw [absTok_ok h]
  cases k <;> rfl

theorem absTok_close {t : LTok} {k : Token} (h : t.res = .ok k) :
    ((absTok t).kind == .lit && ((absTok t).text == [')'] || (absTok t).text == ['>'] || (absTok t).text == ['}']))
      = isCloseBracket k := by
  rw [absTok_ok h]
  cases k <;> rfl

theorem open_not_close (k : Token) (h : isOpenBracket k = true) : isCloseBracket k = false := by
  cases k <;> first | rfl | (exact absurd h (by decide))

theorem effToks_spec (toks : List LTok) (hok : ∀ t ∈ toks, t.tok?.isSome = true) (d : Nat) :
    (nestOK Generated.maxNestingDepth d (toks.map absTok) = true → effToks d toks = toks) ∧
    (nestOK Generated.maxNestingDepth d (toks.map absTok) = false →
      junk ∈ (effToks d toks).map absTok) := by
  induction toks generalizing d with
  | nil => simp [nestOK, effToks, nestingWithin]; split <;> simp [nestingWithin]
  | cons a r ih =>
    have ha : a.tok?.isSome = true := hok a (by simp)
    obtain ⟨k, hk⟩ := Option.isSome_iff_exists.mp ha
    have hr := tok?_eq_some.mp hk
    have ihr := fun d => ih (fun t ht => hok t (by simp [ht])) d
    rw [effToks_cons]
    unfold deliver depthAfter
    simp only [hr, List.map_cons]
    cases hL : Generated.maxNestingDepth with
    | none =>
      have htd : ∀ n, tooDeep n = false := fun n => by rw [tooDeep_eq, hL]
      simp only [nestOK, htd, and_false, if_false, Bool.false_eq_true]
      have := (ihr (if isOpenBracket k then d + 1 else if isCloseBracket k then d - 1 else d))
      simp only [nestOK, hL] at this
      refine ⟨fun _ => by rw [this.1 trivial], fun h => by cases h⟩
    | some l =>
      have htd : ∀ n, tooDeep n = decide (n > l) := fun n => by rw [tooDeep_eq, hL]
      simp only [nestOK, nestingWithin, absTok_open hr, absTok_close hr]
      by_cases ho : isOpenBracket k = true
      · have hc := open_not_close k ho
        simp only [ho, if_true, true_and, htd]
        have := ihr (d + 1)
        simp only [nestOK, hL] at this
        by_cases hd : d + 1 ≤ l
        · have hnd : ¬ (d + 1 > l) := by omega
          simp only [hd, decide_true, Bool.true_and, hnd, decide_false, Bool.false_eq_true, if_false]
          refine ⟨fun h => by rw [this.1 h], fun h => ?_⟩
          exact List.mem_cons_of_mem _ (this.2 h)
        · have hnd : d + 1 > l := by omega
          simp only [hd, decide_false, Bool.false_and, Bool.false_eq_true, false_imp_iff, hnd,
            decide_true, if_true, true_and]
          intro _
          simp [absTok, junk]
      · simp only [ho, Bool.false_eq_true, if_false, false_and]
        by_cases hc : isCloseBracket k = true
        · simp only [hc, if_true]
          have := ihr (d - 1)
          simp only [nestOK, hL] at this
          exact ⟨fun h => by rw [this.1 h], fun h => List.mem_cons_of_mem _ (this.2 h)⟩
        · simp only [hc, Bool.false_eq_true, if_false]
          have := ihr d
          simp only [nestOK, hL] at this
          exact ⟨fun h => by rw [this.1 h], fun h => List.mem_cons_of_mem _ (this.2 h)⟩

/-! ### from token lists to source texts -/

theorem abs_init (src : Str) : abs (PState.init src) = (effToks 0 (tokenize src)).map absTok := rfl

theorem wf_init (src : Str) : WF (PState.init src) := tokenize_pathShape src

theorem no_formfeed {src : Str} (h : src.any forbiddenChar = false) : ∀ c ∈ src, c ≠ '\x0c' := by
  intro c hc hff
  subst hff
  have : forbiddenChar '\x0c' = false := by
    have := List.any_eq_false.mp h _ hc
    simpa using this
  exact absurd this (by decide)

theorem all_ok_of_no_junk {toks : List LTok} (h : junk ∉ toks.map absTok) :
    toks.all (fun tk => tk.tok?.isSome) = true := by
  rw [List.all_eq_true]
  intro tk htk
  cases hr : tk.res with
  | ok k => simp [tok?_ok hr]
  | error e =>
    exfalso; apply h
    rw [List.mem_map]
    exact ⟨tk, htk, by rw [absTok_error hr]; rfl⟩

/-- a delivered item that is not an error was not an error before delivery -/
theorem raw_ok_of_eff_ok (toks : List LTok) (d : Nat)
    (h : (effToks d toks).all (fun tk => tk.tok?.isSome) = true) :
    toks.all (fun tk => tk.tok?.isSome) = true := by
  induction toks generalizing d with
  | nil => rfl
  | cons a r ih =>
    rw [effToks_cons] at h
    simp only [List.all_cons, Bool.and_eq_true] at h ⊢
    refine ⟨?_, ih _ h.2⟩
    have h1 := h.1
    obtain ⟨k, hk⟩ := Option.isSome_iff_exists.mp h1
    rw [(deliver_tok? hk).2]; rfl

/-- the text is in the documented language (with the implementation's bracket-nesting limit
`limit`, deviation D9 of the specification), with tree `d` -/
def InLanguage (limit : Option Nat) (src : Str) (d : Document) : Prop :=
  src.any forbiddenChar = false ∧
    ∃ ts, tokens (src.length + 1) src = some ts ∧ nestOK limit 0 ts = true ∧ d ∈ derivations ts

/-- `verdictWith`, with the nesting condition written as `nestOK` -/
theorem verdictWith_eq (limit : Option Nat) (src : Str) :
    verdictWith limit src =
      if src.any forbiddenChar then .reject "forbidden code point" else
      match tokens (src.length + 1) src with
      | none => .reject "lexical"
      | some ts =>
        if (!nestOK limit 0 ts) = true then .reject "nesting limit" else
        match derivations ts with
        | [] => .reject "syntax"
        | [d] => .accept d
        | ds => .ambiguous ds.length := rfl

section Text
variable (hV : SemverAgree) (hS : StmtSound) (hC : StmtComplete)
  (hJ : ∀ ts d, d ∈ derivations ts → junk ∉ ts)
include hV hS hJ

theorem parseDocument_sound (src : Str) (d : Document) (h : parseDocument src = .ok d) :
    InLanguage Generated.maxNestingDepth src (eraseDocument d) := by
  have hscreen : src.any forbiddenChar = false := by
    cases hany : src.any forbiddenChar with
    | false => rfl
    | true =>
      obtain ⟨e, sp, he, _⟩ := screen_before_lexing src hany
      rw [he] at h; cases h
  rw [screen_transparent src hscreen] at h
  have hmem := parseTokens_sound hV hS _ _ (wf_init src) h
  have hj := hJ _ _ hmem
  rw [abs_init] at hj
  have hall := raw_ok_of_eff_ok _ _ (all_ok_of_no_junk hj)
  have hspec := effToks_spec (tokenize src) (fun t ht => List.all_eq_true.mp hall t ht) 0
  have hnest : nestOK Generated.maxNestingDepth 0 ((tokenize src).map absTok) = true := by
    cases hn : nestOK Generated.maxNestingDepth 0 ((tokenize src).map absTok) with
    | true => rfl
    | false => exact absurd (hspec.2 hn) hj
  have heff := hspec.1 hnest
  refine ⟨hscreen, (tokenize src).map absTok, ?_, hnest, ?_⟩
  · rw [lex_spec src (no_formfeed hscreen), hall]; simp
  · rw [abs_init, heff] at hmem; exact hmem

include hC

omit hJ in
theorem parseDocument_complete (src : Str) (d' : Document)
    (h : InLanguage Generated.maxNestingDepth src d') :
    ∃ d, parseDocument src = .ok d ∧ eraseDocument d = d' := by
  obtain ⟨hscreen, ts, hts, hnest, hd⟩ := h
  rw [lex_spec src (no_formfeed hscreen)] at hts
  split at hts
  · rename_i hall
    cases hts
    have hspec := effToks_spec (tokenize src) (fun t ht => List.all_eq_true.mp hall t ht) 0
    rw [screen_transparent src hscreen]
    exact parseTokens_complete hV hS hC _ (wf_init src) d' (by rw [abs_init, hspec.1 hnest]; exact hd)
  · cases hts

omit hJ in
/-- the tree of a text of the language is unique -/
theorem inLanguage_unique (src : Str) (d1 d2 : Document)
    (h1 : InLanguage Generated.maxNestingDepth src d1) (h2 : InLanguage Generated.maxNestingDepth src d2) :
    d1 = d2 := by
  obtain ⟨e1, he1, rfl⟩ := parseDocument_complete hV hS hC src d1 h1
  obtain ⟨e2, he2, rfl⟩ := parseDocument_complete hV hS hC src d2 h2
  rw [he1] at he2; cases he2; rfl

variable (hN : ∀ ts, (∀ d1 ∈ derivations ts, ∀ d2 ∈ derivations ts, d1 = d2) → (derivations ts).length ≤ 1)
include hN

omit hJ in
theorem verdict_of_inLanguage (src : Str) (d : Document)
    (h : InLanguage Generated.maxNestingDepth src d) :
    verdictWith Generated.maxNestingDepth src = .accept d := by
  obtain ⟨hscreen, ts, hts, hnest, hd⟩ := h
  have huniq : ∀ d1 ∈ derivations ts, ∀ d2 ∈ derivations ts, d1 = d2 := fun d1 h1 d2 h2 =>
    inLanguage_unique hV hS hC src d1 d2 ⟨hscreen, ts, hts, hnest, h1⟩ ⟨hscreen, ts, hts, hnest, h2⟩
  have hlen := hN ts huniq
  rw [verdictWith_eq]
  simp only [hscreen, Bool.false_eq_true, if_false, hts, hnest, Bool.not_true]
  match hds : derivations ts, hd, hlen with
  | [d0], hd, _ =>
    have : d = d0 := by simpa using hd
    subst this; rfl
  | [], hd, _ => simp at hd
  | _ :: _ :: _, _, hlen => simp at hlen

/-- the specification (with the implementation's nesting limit) accepts a text with tree `d'`
exactly when the parser model accepts it with a tree that is `d'` up to spans and doc comments -/
theorem verdict_accept_iff (src : Str) (d' : Document) :
    verdictWith Generated.maxNestingDepth src = .accept d' ↔
      ∃ d, parseDocument src = .ok d ∧ eraseDocument d = d' := by
  constructor
  · intro hv
    apply parseDocument_complete hV hS hC src d'
    rw [verdictWith_eq] at hv
    cases hscreen : src.any forbiddenChar with
    | true => simp [hscreen] at hv
    | false =>
      simp only [hscreen, Bool.false_eq_true, if_false] at hv
      cases hts : tokens (src.length + 1) src with
      | none => simp [hts] at hv
      | some ts =>
        simp only [hts] at hv
        cases hnest : nestOK Generated.maxNestingDepth 0 ts with
        | false => simp [hnest] at hv
        | true =>
          simp only [hnest, Bool.not_true, Bool.false_eq_true, if_false] at hv
          refine ⟨hscreen, ts, hts, hnest, ?_⟩
          match hds : derivations ts, hv with
          | [d], hv => cases hv; simp
          | [], hv => cases hv
          | _ :: _ :: _, hv => cases hv
  · rintro ⟨d, hd, rfl⟩
    exact verdict_of_inLanguage hV hS hC hN src _ (parseDocument_sound hV hS hJ src d hd)

omit hJ in
/-- the specification never reports an ambiguity -/
theorem verdict_not_ambiguous (src : Str) (n : Nat) :
    verdictWith Generated.maxNestingDepth src ≠ .ambiguous n := by
  intro hv
  rw [verdictWith_eq] at hv
  cases hscreen : src.any forbiddenChar with
  | true => simp [hscreen] at hv
  | false =>
    simp only [hscreen, Bool.false_eq_true, if_false] at hv
    cases hts : tokens (src.length + 1) src with
    | none => simp [hts] at hv
    | some ts =>
      simp only [hts] at hv
      cases hnest : nestOK Generated.maxNestingDepth 0 ts with
      | false => simp [hnest] at hv
      | true =>
        simp only [hnest, Bool.not_true, Bool.false_eq_true, if_false] at hv
        have huniq : ∀ d1 ∈ derivations ts, ∀ d2 ∈ derivations ts, d1 = d2 := fun d1 h1 d2 h2 =>
          inLanguage_unique hV hS hC src d1 d2 ⟨hscreen, ts, hts, hnest, h1⟩ ⟨hscreen, ts, hts, hnest, h2⟩
        have hlen := hN ts huniq
        match hds : derivations ts, hlen, hv with
        | [], _, hv => cases hv
        | [d], _, hv => cases hv
        | _ :: _ :: _, hlen, _ => simp at hlen
end Text
end Wac.C12
