import WacProofs.Lemmas.GraphAbsOps1
import WacProofs.Lemmas.GraphInvUnreg4
import WacProofs.Lemmas.GraphInvRemove2
/-
  C06 refinement: the abstraction of a state from which a set of nodes was removed
  (`Abs.removeSet`), instantiated by one `detachNode` (`Removed`), by the bulk removal of
  `unregister_package` (`RemovedSet`), and `unregister_package` as a whole.
-/
namespace Wac.Graph
open Wac Wac.HashSites

/-- what the abstraction needs to know about a state `g'` obtained from `g` by removing the
    nodes with `dead m = true` -/
structure RemovedAbs (g g' : Graph) (dead : Nat → Bool) : Prop where
  len : g'.nodes.length = g.nodes.length
  node : ∀ m, (g'.node? m).map Node.abs = if dead m = true then none else (g.node? m).map Node.abs
  edges : ∀ e, e ∈ g'.edges ↔ e ∈ g.edges ∧ dead e.src = false ∧ dead e.dst = false
  importsMem : ∀ e, e ∈ g'.imports ↔ e ∈ g.imports ∧ dead e.2 = false
  exportsMem : ∀ e, e ∈ g'.exports ↔ e ∈ g.exports ∧ dead e.2 = false
  definedMem : ∀ e, e ∈ g'.defined ↔ e ∈ g.defined ∧ dead e.2 = false
  pkgs : g'.pkgs = g.pkgs
  pkgMap : g'.pkgMap = g.pkgMap

theorem filter_eq_some_iff' {α : Type} {o : Option α} {p : α → Bool} {a : α} :
    o.filter p = some a ↔ o = some a ∧ p a = true := by
  cases o with
  | none => simp
  | some x =>
    simp only [Option.filter_some]
    split
    · rename_i hp
      constructor
      · intro e; cases e; exact ⟨rfl, hp⟩
      · rintro ⟨e, _⟩; exact e
    · rename_i hp
      constructor
      · intro e; cases e
      · rintro ⟨e, hp'⟩; cases e; exact absurd hp' hp

/-- the abstraction of the smaller state is the abstract removal -/
theorem abs_removedAbs {ctx : Ctx} {g g' : Graph} {dead : Nat → Bool} (h : Inv ctx g) (h' : Inv ctx g')
    (r : RemovedAbs g g' dead) : abs g' = (abs g).removeSet dead := by
  apply abs_eq_of h'
  · exact r.len
  · exact r.node
  · intro i k s
    rw [r.edges]
    show _ ↔ (if dead i = true then none else ((abs g).arg i k).filter (fun s => !dead s)) = some s
    cases hdi : dead i with
    | true => simp
    | false =>
      simp only [Bool.false_eq_true, ↓reduceIte, filter_eq_some_iff', h.abs_arg, Bool.not_eq_true', and_true]
  · intro t s j
    rw [r.edges]
    show _ ↔ (if dead t = true then none else ((abs g).aliasOf t).filter (fun p => !dead p.1)) = some (s, j)
    cases hdt : dead t with
    | true => simp
    | false =>
      simp only [Bool.false_eq_true, ↓reduceIte, filter_eq_some_iff', h.abs_alias, Bool.not_eq_true', and_true]
  · intro x y
    rw [r.edges]
    show _ ↔ ((abs g).dep x y && !dead x && !dead y) = true
    simp only [Bool.and_eq_true, abs_dep, Bool.not_eq_true', and_assoc]
  · intro nm n
    rw [r.exportsMem]
    show _ ↔ ((abs g).exports nm).filter (fun n => !dead n) = some n
    simp only [filter_eq_some_iff', h.abs_exports, Bool.not_eq_true']
  · intro nm n
    rw [r.importsMem]
    show _ ↔ ((abs g).imports nm).filter (fun n => !dead n) = some n
    simp only [filter_eq_some_iff', h.abs_imports, Bool.not_eq_true']
  · intro ty n
    rw [r.definedMem]
    show _ ↔ ((abs g).defined ty).filter (fun n => !dead n) = some n
    simp only [filter_eq_some_iff', h.abs_defined, Bool.not_eq_true']
  · intro id
    rw [pkgOf_congr r.pkgs]; rfl
  · intro k
    rw [r.pkgMap]; rfl

/-! ### the bulk removal -/

theorem RemovedSet.toAbs {g g' : Graph} {dead : Nat → Bool} (r : RemovedSet g g' dead)
    (hlen : g'.nodes.length = g.nodes.length) : RemovedAbs g g' dead := by
  refine ⟨hlen, ?_, ?_, r.importsMem, r.exportsMem, r.definedMem, r.pkgs, r.pkgMap⟩
  · intro m
    cases hd : dead m with
    | true => rw [r.gone m hd]; rfl
    | false =>
      simp only [Bool.false_eq_true, ↓reduceIte]
      cases hq : g.node? m with
      | none =>
        cases hq' : g'.node? m with
        | none => rfl
        | some x' =>
          obtain ⟨_, x, hx⟩ := r.noNew m x' hq'
          rw [hq] at hx; cases hx
      | some x =>
        obtain ⟨s, hs, _, _⟩ := r.kept m x hd hq
        rw [hs]
        simp [setSat_abs]
  · intro e
    rw [r.edges, List.mem_filter]
    cases dead e.src <;> cases dead e.dst <;> simp

/-! ### one `detachNode` -/

theorem Removed.toAbs {ctx : Ctx} {g g' : Graph} {n : Nat} {nd : Node} (h : Inv ctx g)
    (hn : g.node? n = some nd) (r : Removed g g' n nd) : RemovedAbs g g' (fun m => m == n) := by
  have hnok := h.node hn
  refine ⟨r.len, ?_, ?_, ?_, ?_, ?_, r.pkgs, r.pkgMap⟩
  · intro m
    by_cases hm : m = n
    · subst hm
      rw [r.gone]; simp
    · have : (m == n) = false := by simpa using hm
      simp only [this, Bool.false_eq_true, ↓reduceIte]
      cases hq : g.node? m with
      | none =>
        cases hq' : g'.node? m with
        | none => rfl
        | some x' =>
          obtain ⟨_, x, hx⟩ := r.noNew m x' hq'
          rw [hq] at hx; cases hx
      | some x =>
        obtain ⟨s, hs, _, _⟩ := r.kept m x hm hq
        rw [hs]
        simp [setSat_abs]
  · intro e
    rw [r.edges, List.mem_filter]
    simp [not_or]
  · -- imports
    intro e
    rw [r.imports]
    simp only [beq_eq_false_iff_ne, ne_eq]
    cases hk : nd.kind with
    | «import» name =>
      simp only
      rw [alErase_mem h.importsKeys]
      have hme : alGet g.imports name = some n := by
        have := hnok.2.1
        rw [hk] at this; exact this
      constructor
      · rintro ⟨hem, hne⟩
        refine ⟨hem, fun e2 => ?_⟩
        obtain ⟨x, hx, hxk⟩ := h.importsLive' e hem
        rw [e2, hn] at hx; cases hx
        rw [hk] at hxk; cases hxk; exact hne rfl
      · rintro ⟨hem, hne⟩
        refine ⟨hem, fun e1 => ?_⟩
        have := alGet_of_mem _ h.importsKeys e hem
        rw [e1, hme] at this
        exact hne (Option.some.inj this).symm
    | definition ty =>
      simp only
      refine ⟨fun hem => ⟨hem, fun e2 => ?_⟩, fun hem => hem.1⟩
      obtain ⟨x, hx, hxk⟩ := h.importsLive' e hem
      rw [e2, hn] at hx; cases hx; rw [hk] at hxk; cases hxk
    | instantiation s =>
      simp only
      refine ⟨fun hem => ⟨hem, fun e2 => ?_⟩, fun hem => hem.1⟩
      obtain ⟨x, hx, hxk⟩ := h.importsLive' e hem
      rw [e2, hn] at hx; cases hx; rw [hk] at hxk; cases hxk
    | alias =>
      simp only
      refine ⟨fun hem => ⟨hem, fun e2 => ?_⟩, fun hem => hem.1⟩
      obtain ⟨x, hx, hxk⟩ := h.importsLive' e hem
      rw [e2, hn] at hx; cases hx; rw [hk] at hxk; cases hxk
  · -- exports
    intro e
    rw [r.exports]
    simp only [beq_eq_false_iff_ne, ne_eq]
    cases hx : nd.exp with
    | some name =>
      simp only
      rw [dropped_mem h.exportsKeys]
      have hme : alGet g.exports name = some n := hnok.2.2 name (by rw [hx]; rfl)
      constructor
      · rintro ⟨a, _, c⟩; exact ⟨a, c⟩
      · rintro ⟨hem, hne⟩
        refine ⟨hem, fun e1 => ?_, hne⟩
        have := alGet_of_mem _ h.exportsKeys e hem
        rw [e1, hme] at this
        exact hne (Option.some.inj this).symm
    | none =>
      simp only
      refine ⟨fun hem => ⟨hem, fun e2 => ?_⟩, fun hem => hem.1⟩
      obtain ⟨x, hx', hxe⟩ := h.exportsLive' e hem
      rw [e2, hn] at hx'; cases hx'
      rw [hx] at hxe; cases hxe
  · -- defined
    intro e
    rw [r.defined]
    simp only [beq_eq_false_iff_ne, ne_eq]
    cases hk : nd.kind with
    | definition ty =>
      simp only
      rw [alErase_mem h.definedKeys]
      have hme : alGet g.defined ty = some n := by
        have := hnok.2.1
        rw [hk] at this; exact this.1
      constructor
      · rintro ⟨hem, hne⟩
        refine ⟨hem, fun e2 => ?_⟩
        obtain ⟨x, hx, hxk⟩ := h.definedLive' e hem
        rw [e2, hn] at hx; cases hx
        rw [hk] at hxk; cases hxk; exact hne rfl
      · rintro ⟨hem, hne⟩
        refine ⟨hem, fun e1 => ?_⟩
        have := alGet_of_mem _ h.definedKeys e hem
        rw [e1, hme] at this
        exact hne (Option.some.inj this).symm
    | «import» name =>
      simp only
      refine ⟨fun hem => ⟨hem, fun e2 => ?_⟩, fun hem => hem.1⟩
      obtain ⟨x, hx, hxk⟩ := h.definedLive' e hem
      rw [e2, hn] at hx; cases hx; rw [hk] at hxk; cases hxk
    | instantiation s =>
      simp only
      refine ⟨fun hem => ⟨hem, fun e2 => ?_⟩, fun hem => hem.1⟩
      obtain ⟨x, hx, hxk⟩ := h.definedLive' e hem
      rw [e2, hn] at hx; cases hx; rw [hk] at hxk; cases hxk
    | alias =>
      simp only
      refine ⟨fun hem => ⟨hem, fun e2 => ?_⟩, fun hem => hem.1⟩
      obtain ⟨x, hx, hxk⟩ := h.definedLive' e hem
      rw [e2, hn] at hx; cases hx; rw [hk] at hxk; cases hxk

/-- `detachNode` of a live node without outgoing alias edges, abstractly -/
theorem abs_detach {ctx : Ctx} {g g' : Graph} {n : Nat} {nd : Node} (h : Inv ctx g)
    (hn : g.node? n = some nd) (hnoalias : ∀ e ∈ g.edges, e.src = n → e.kind.isAlias = false)
    (hd : detachNode .fixed g n = (g', none)) : abs g' = (abs g).removeSet (fun m => m == n) := by
  have r := detach_removed h hn hd
  exact abs_removedAbs h (inv_removed h hn hnoalias r) (r.toAbs h hn)

end Wac.Graph
