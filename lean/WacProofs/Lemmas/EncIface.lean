import WacProofs.Lemmas.EncNames2
import WacProofs.Props.C15
/-
  A graph-level condition under which the aggregated imports satisfy `ifaceNamed`
  (the one hypothesis of `wiring_encode_partial` that does not follow from `WF`).

  `ForeignSingle g`:
  * `own`    — the interface of an implied request is the request's own name, or an id that is
               not semver-compatible with it (an explicit import `xi : I`);
  * `single` — a *foreign* interface id (a dependency id, or the interface of a request under
               another name) that is semver-compatible with an implied import name is that name.

  So every semver track with several implied versions carries no dependency interface — which is
  exactly what the counterexample `exIfaceDep` violates.

  Invariant `IInv` of `(imports, ifaces)`: the stored interface of an import is its own name or
  incompatible with it; if it is its own name, the merged interface of its track (`ifaces`) is
  that name and nothing else on the track; every merged interface is foreign or on the track of
  an import.
-/
namespace Wac
open Wac.Spec

/-! ### `compat` as a relation -/

theorem compat_rfl (a : Str) : compat a a = true := Wac.Props.C15.compat_refl a
theorem compat_sym {a b : Str} (h : compat a b = true) : compat b a = true := by
  rw [Wac.Props.C15.compat_symm]; exact h
theorem compat_tr {a b c : Str} (h1 : compat a b = true) (h2 : compat b c = true) : compat a c = true :=
  Wac.Props.C15.compat_trans a b c h1 h2

theorem compat_of_sameTrack {a b : Str} (h : SameTrack a b) : compat a b = true := by
  obtain ⟨k, va, vb, h1, h2⟩ := h
  unfold compat
  by_cases hab : a = b
  · simp [hab]
  · have : (a == b) = false := by simpa using hab
    simp [this, h1, h2]

theorem compat_false_of {a b c : Str} (h1 : compat a b = false) (h2 : compat b c = true) : compat a c = false := by
  cases h : compat a c with
  | false => rfl
  | true => rw [compat_tr h (compat_sym h2)] at h1; cases h1

/-! ### `remap_interface` on the list of merged interfaces -/

def higherV (i d : Str) : Bool :=
  match altKey i, altKey d with
  | some (_, vi), some (_, vd) => vi.lt vd
  | _, _ => false

/-- one interface id through `remap_interface` -/
def regStep (l : List Str) (d : Str) : List Str :=
  if l.any fun i => compat i d then l.map fun i => if compat i d && higherV i d then d else i
  else l ++ [d]

def ifaceIds (ty : ItemTy) : List Str := ty.deps ++ (match ty.iface with | some i => [i] | none => [])

theorem register_ifaces (a : Agg) (ty : ItemTy) : (a.register ty).ifaces = (ifaceIds ty).foldl regStep a.ifaces := rfl

theorem regStep_mem {l : List Str} {d x : Str} (h : x ∈ regStep l d) : x ∈ l ∨ x = d := by
  unfold regStep at h
  split at h
  · obtain ⟨i, hi, rfl⟩ := List.mem_map.mp h
    split
    · exact Or.inr rfl
    · exact Or.inl hi
  · rcases List.mem_append.mp h with h1 | h1
    · exact Or.inl h1
    · exact Or.inr (by simpa using h1)

theorem foldl_regStep_mem {ids l : List Str} {x : Str} (h : x ∈ ids.foldl regStep l) : x ∈ l ∨ x ∈ ids := by
  induction ids generalizing l with
  | nil => exact Or.inl h
  | cons d ids ih =>
    rcases ih h with h1 | h1
    · rcases regStep_mem h1 with h2 | h2
      · exact Or.inl h2
      · exact Or.inr (by simp [h2])
    · exact Or.inr (List.mem_cons_of_mem _ h1)

/-- `k` is the one merged interface of its track -/
def Qk (k : Str) (l : List Str) : Prop := k ∈ l ∧ ∀ x ∈ l, compat x k = true → x = k

/-- everything on the track of `k` is `k` -/
def Q0 (k : Str) (l : List Str) : Prop := ∀ x ∈ l, compat x k = true → x = k

theorem regStep_Q0 {k d : Str} {l : List Str} (h : Q0 k l) (hd : compat d k = true → d = k) : Q0 k (regStep l d) := by
  intro x hx hc
  rcases regStep_mem hx with h1 | h1
  · exact h x h1 hc
  · subst h1; exact hd hc

theorem regStep_self_mem {d : Str} {l : List Str} (h : Q0 d l) : d ∈ regStep l d := by
  unfold regStep
  split
  · rename_i hany
    obtain ⟨i, hi, hc⟩ := List.any_eq_true.mp hany
    have := h i hi hc
    subst this
    refine List.mem_map.mpr ⟨i, hi, ?_⟩
    split <;> rfl
  · simp

theorem regStep_Qk {k d : Str} {l : List Str} (h : Qk k l)
    (hd : compat d k = true → d = k ∨ higherV k d = false) : Qk k (regStep l d) := by
  obtain ⟨hk, hq⟩ := h
  by_cases hc : compat d k = true
  · have hany : (l.any fun i => compat i d) = true := List.any_eq_true.mpr ⟨k, hk, compat_sym hc⟩
    unfold regStep
    simp only [hany, ↓reduceIte]
    constructor
    · refine List.mem_map.mpr ⟨k, hk, ?_⟩
      rcases hd hc with e | e
      · subst e; split <;> rfl
      · simp [e]
    · intro x hx hcx
      obtain ⟨i, hi, rfl⟩ := List.mem_map.mp hx
      by_cases hci : compat i d = true
      · have hik : i = k := hq i hi (compat_tr hci hc)
        subst hik
        rcases hd hc with e | e
        · subst e; split <;> rfl
        · simp [e]
      · have hci' : compat i d = false := by simpa using hci
        simp only [hci', Bool.false_and, Bool.false_eq_true, ↓reduceIte] at hcx ⊢
        exact hq i hi hcx
  · have hc' : compat d k = false := by simpa using hc
    constructor
    · unfold regStep
      split
      · refine List.mem_map.mpr ⟨k, hk, ?_⟩
        have : compat k d = false := by
          cases h : compat k d with
          | false => rfl
          | true => rw [compat_sym h] at hc'; cases hc'
        simp [this]
      · exact List.mem_append.mpr (Or.inl hk)
    · intro x hx hcx
      rcases regStep_mem hx with h1 | h1
      · exact hq x h1 hcx
      · subst h1; rw [hcx] at hc'; cases hc'

theorem foldl_regStep_Qk {k : Str} {ids l : List Str} (h : Qk k l)
    (hd : ∀ d ∈ ids, compat d k = true → d = k ∨ higherV k d = false) : Qk k (ids.foldl regStep l) := by
  induction ids generalizing l with
  | nil => exact h
  | cons d ids ih =>
    exact ih (regStep_Qk h (hd d (List.mem_cons_self ..))) (fun d' hd' => hd d' (List.mem_cons_of_mem _ hd'))

theorem foldl_regStep_Q0 {k : Str} {ids l : List Str} (h : Q0 k l)
    (hd : ∀ d ∈ ids, compat d k = true → d = k) : Q0 k (ids.foldl regStep l) := by
  induction ids generalizing l with
  | nil => exact h
  | cons d ids ih =>
    exact ih (regStep_Q0 h (hd d (List.mem_cons_self ..))) (fun d' hd' => hd d' (List.mem_cons_of_mem _ hd'))

/-- while `ex` is being superseded by `name`: everything on the track is `ex` or `name`, and
    one of them is there -/
def Wk (ex name : Str) (l : List Str) : Prop :=
  (name ∈ l ∨ ex ∈ l) ∧ ∀ x ∈ l, compat x name = true → x = name ∨ x = ex

theorem Qk_to_Wk {ex name : Str} {l : List Str} (h : Qk ex l) (hc : compat ex name = true) : Wk ex name l :=
  ⟨Or.inr h.1, fun x hx hcx => Or.inr (h.2 x hx (compat_tr hcx (compat_sym hc)))⟩

theorem regStep_Wk {ex name d : Str} {l : List Str} (hc : compat ex name = true) (h : Wk ex name l)
    (hd : compat d name = true → d = name) : Wk ex name (regStep l d) := by
  obtain ⟨hm, hq⟩ := h
  refine ⟨?_, ?_⟩
  · unfold regStep
    split
    · rcases hm with h1 | h1
      · left
        refine List.mem_map.mpr ⟨name, h1, ?_⟩
        by_cases hx : (compat name d && higherV name d) = true
        · have hcd : compat name d = true := by
            simp only [Bool.and_eq_true] at hx; exact hx.1
          rw [if_pos hx]; exact hd (compat_sym hcd)
        · rw [if_neg hx]
      · by_cases hx : (compat ex d && higherV ex d) = true
        · left
          have hcd : compat ex d = true := by
            simp only [Bool.and_eq_true] at hx; exact hx.1
          have : d = name := hd (compat_tr (compat_sym hcd) hc)
          exact List.mem_map.mpr ⟨ex, h1, by rw [if_pos hx]; exact this⟩
        · right
          exact List.mem_map.mpr ⟨ex, h1, by rw [if_neg hx]⟩
    · rcases hm with h1 | h1
      · exact Or.inl (List.mem_append.mpr (Or.inl h1))
      · exact Or.inr (List.mem_append.mpr (Or.inl h1))
  · intro x hx hcx
    rcases regStep_mem hx with h1 | h1
    · exact hq x h1 hcx
    · subst h1; exact Or.inl (hd hcx)

theorem foldl_regStep_Wk {ex name : Str} {ids l : List Str} (hc : compat ex name = true) (h : Wk ex name l)
    (hd : ∀ d ∈ ids, compat d name = true → d = name) : Wk ex name (ids.foldl regStep l) := by
  induction ids generalizing l with
  | nil => exact h
  | cons d ids ih =>
    exact ih (regStep_Wk hc h (hd d (List.mem_cons_self ..))) (fun d' hd' => hd d' (List.mem_cons_of_mem _ hd'))

theorem map_rename_Qk {ex name : Str} {l : List Str} (h : Wk ex name l) :
    Qk name (l.map fun i => if i == ex then name else i) := by
  obtain ⟨hm, hq⟩ := h
  constructor
  · rcases hm with h1 | h1
    · refine List.mem_map.mpr ⟨name, h1, ?_⟩
      split <;> rfl
    · exact List.mem_map.mpr ⟨ex, h1, by simp⟩
  · intro x hx hcx
    obtain ⟨i, hi, rfl⟩ := List.mem_map.mp hx
    by_cases he : i = ex
    · simp [he]
    · have : (i == ex) = false := by simpa using he
      simp only [this, Bool.false_eq_true, ↓reduceIte] at hcx ⊢
      rcases hq i hi hcx with e | e
      · exact e
      · exact absurd e he

theorem map_rename_other {ex name k : Str} {l : List Str} (h : Qk k l) (hne : k ≠ ex) (hc : compat name k = false) :
    Qk k (l.map fun i => if i == ex then name else i) := by
  obtain ⟨hk, hq⟩ := h
  constructor
  · refine List.mem_map.mpr ⟨k, hk, ?_⟩
    have : (k == ex) = false := by simpa using hne
    simp [this]
  · intro x hx hcx
    obtain ⟨i, hi, rfl⟩ := List.mem_map.mp hx
    by_cases he : i = ex
    · simp only [he, beq_self_eq_true, ↓reduceIte] at hcx
      rw [hcx] at hc; cases hc
    · have : (i == ex) = false := by simpa using he
      simp only [this, Bool.false_eq_true, ↓reduceIte] at hcx ⊢
      exact hq i hi hcx

/-! ### the invariant of `(imports, interfaces)` -/

structure IInv (Fr Nm : Str → Prop) (imps : List (Str × ItemTy)) (ifs : List Str) : Prop where
  keysNm : ∀ e ∈ imps, Nm e.1
  c1 : ∀ e ∈ imps, ∀ i, e.2.iface = some i → i = e.1 ∨ compat i e.1 = false
  c2 : ∀ e ∈ imps, e.2.iface = some e.1 → Qk e.1 ifs
  c3 : ∀ x ∈ ifs, Fr x ∨ ∃ e ∈ imps, compat x e.1 = true

/-- what is asked of one aggregated request -/
def ReqOk (Fr Nm : Str → Prop) (name : Str) (ty : ItemTy) : Prop :=
  Nm name ∧ (∀ d ∈ ty.deps, Fr d) ∧ ∀ i, ty.iface = some i → i = name ∨ (Fr i ∧ compat i name = false)

theorem AInv.key_compat {imps reds P} (h : AInv imps reds P) {e1 e2 : Str × ItemTy} (h1 : e1 ∈ imps) (h2 : e2 ∈ imps)
    (hc : compat e1.1 e2.1 = true) : e1.1 = e2.1 := by
  rcases compat_cases hc with e | e
  · exact e
  · exact h.one e1 h1 e2 h2 e

theorem higherV_eq {a b κ : Str} {va vb : Version} (ha : altKey a = some (κ, va)) (hb : altKey b = some (κ, vb)) :
    higherV a b = va.lt vb := by
  simp [higherV, ha, hb]

theorem aggregate_iinv {Fr Nm : Str → Prop} (hsingle : ∀ f, Fr f → ∀ x, Nm x → compat f x = true → f = x)
    {a a' : Agg} {name : Str} {ty : ItemTy} {P : List (Str × Kind)}
    (hA : AInv a.imports a.redirects P) (hI : IInv Fr Nm a.imports a.ifaces) (hreq : ReqOk Fr Nm name ty)
    (ha : a.aggregate name ty = some a') : IInv Fr Nm a'.imports a'.ifaces := by
  obtain ⟨hNm, hdeps, hif⟩ := hreq
  -- every id `remap_interface` sees is foreign or the name itself
  have hids : ∀ d ∈ ifaceIds ty, Fr d ∨ d = name := by
    intro d hd
    unfold ifaceIds at hd
    rcases List.mem_append.mp hd with h1 | h1
    · exact Or.inl (hdeps d h1)
    · cases hi : ty.iface with
      | none => simp [hi] at h1
      | some i =>
        simp only [hi, List.mem_singleton] at h1
        subst h1
        rcases hif d hi with e | ⟨e, _⟩
        · exact Or.inr e
        · exact Or.inl e
  have hreg : (a.register ty).ifaces = (ifaceIds ty).foldl regStep a.ifaces := register_ifaces a ty
  have hc3reg : ∀ x ∈ (a.register ty).ifaces, x ∈ a.ifaces ∨ Fr x ∨ x = name := by
    intro x hx
    rw [hreg] at hx
    rcases foldl_regStep_mem hx with h1 | h1
    · exact Or.inl h1
    · exact Or.inr (hids x h1)
  unfold Agg.aggregate at ha
  simp only at ha
  have hi : (a.register ty).imports = a.imports := rfl
  cases hq : amGet (a.register ty).imports name with
  | some ex =>
    simp only [hq] at ha
    split at ha
    · injection ha with ha; subst ha
      rw [hi] at hq
      have hkey : (name, ex) ∈ a.imports := amGet_mem hq
      refine ⟨hI.keysNm, hI.c1, ?_, ?_⟩
      · intro e he hown
        rw [hreg]
        refine foldl_regStep_Qk (hI.c2 e he hown) ?_
        intro d hd hc
        rcases hids d hd with h1 | h1
        · exact Or.inl (hsingle d h1 e.1 (hI.keysNm e he) hc)
        · subst h1
          exact Or.inl (hA.key_compat hkey he hc)
      · intro x hx
        rcases hc3reg x hx with h1 | h1 | h1
        · exact hI.c3 x h1
        · exact Or.inl h1
        · exact Or.inr ⟨(name, ex), hkey, by rw [h1]; exact compat_rfl _⟩
    · cases ha
  | none =>
    simp only [hq] at ha
    rw [hi] at hq
    have hnm : name ∉ a.imports.map (·.1) := amGet_none_not_mem hq
    cases hc : (a.register ty).findCompat name with
    | none =>
      simp only [hc] at ha
      injection ha with ha; subst ha
      have hno := findCompat_none hc
      rw [hi] at hno
      have hnocompat : ∀ e ∈ a.imports, compat e.1 name = false := by
        intro e he
        cases h : compat e.1 name with
        | false => rfl
        | true =>
          exfalso
          rcases compat_cases h with e1 | e1
          · exact hnm (e1 ▸ List.mem_map_of_mem (f := (·.1)) he)
          · exact hno e he e1.symm
      simp only [hi]
      refine ⟨?_, ?_, ?_, ?_⟩
      · intro e he
        rcases List.mem_append.mp he with h1 | h1
        · exact hI.keysNm e h1
        · simp only [List.mem_singleton] at h1; subst h1; exact hNm
      · intro e he i hie
        rcases List.mem_append.mp he with h1 | h1
        · exact hI.c1 e h1 i hie
        · simp only [List.mem_singleton] at h1; subst h1
          rcases hif i hie with e1 | ⟨_, e1⟩
          · exact Or.inl e1
          · exact Or.inr e1
      · intro e he hown
        rw [hreg]
        rcases List.mem_append.mp he with h1 | h1
        · refine foldl_regStep_Qk (hI.c2 e h1 hown) ?_
          intro d hd hcd
          rcases hids d hd with h2 | h2
          · exact Or.inl (hsingle d h2 e.1 (hI.keysNm e h1) hcd)
          · subst h2
            have := hnocompat e h1
            rw [compat_sym hcd] at this; cases this
        · simp only [List.mem_singleton] at h1; subst h1
          simp only at hown ⊢
          -- the new import carries its own name as interface
          have hQ0 : Q0 name a.ifaces := by
            intro x hx hcx
            rcases hI.c3 x hx with h2 | ⟨e, he', h2⟩
            · exact hsingle x h2 name hNm hcx
            · have := hnocompat e he'
              rw [compat_tr (compat_sym h2) hcx] at this; cases this
          have hdq : ∀ d ∈ ifaceIds ty, compat d name = true → d = name := by
            intro d hd hcd
            rcases hids d hd with h2 | h2
            · exact hsingle d h2 name hNm hcd
            · exact h2
          refine ⟨?_, foldl_regStep_Q0 hQ0 hdq⟩
          have hsplit : ifaceIds ty = ty.deps ++ [name] := by simp [ifaceIds, hown]
          rw [hsplit, List.foldl_append]
          simp only [List.foldl_cons, List.foldl_nil]
          apply regStep_self_mem
          exact foldl_regStep_Q0 hQ0 (fun d hd hcd => hdq d (by rw [hsplit]; exact List.mem_append.mpr (Or.inl hd)) hcd)
      · intro x hx
        rcases hc3reg x hx with h1 | h1 | h1
        · rcases hI.c3 x h1 with h2 | ⟨e, he', h2⟩
          · exact Or.inl h2
          · exact Or.inr ⟨e, List.mem_append.mpr (Or.inl he'), h2⟩
        · exact Or.inl h1
        · exact Or.inr ⟨(name, ty), by simp, by rw [h1]; exact compat_rfl _⟩
    | some pr =>
      obtain ⟨exName, exTy⟩ := pr
      simp only [hc] at ha
      obtain ⟨hm, κ, nv, ev, hkn, hke⟩ := findCompat_some hc
      rw [hi] at hm
      have hcen : compat exName name = true := compat_of_sameTrack ⟨κ, ev, nv, hke, hkn⟩
      have hother : ∀ e ∈ a.imports, compat name e.1 = true → e.1 = exName := by
        intro e he hce
        exact hA.key_compat he hm (compat_tr (compat_sym hce) (compat_sym hcen))
      split at ha
      · cases ha
      · simp only [hkn, hke] at ha
        split at ha
        · -- `exName` is superseded by `name`
          rename_i hlt
          injection ha with ha; subst ha
          simp only [hi]
          have hne : exName ≠ name := fun e => hnm (e ▸ List.mem_map_of_mem (f := (·.1)) hm)
          have hsub : ∀ e, e ∈ (a.imports.filter fun e => e.1 != exName) ↔ e ∈ a.imports ∧ e.1 ≠ exName := by
            intro e; simp [List.mem_filter]
          have hc3' : ∀ y ∈ (a.register ty).ifaces,
              Fr y ∨ ∃ e ∈ (a.imports.filter fun e => e.1 != exName) ++ [(name,
                (if exTy.iface = some exName then { exTy with iface := some name } else exTy : ItemTy))],
                compat y e.1 = true := by
            intro y hy
            rcases hc3reg y hy with h1 | h1 | h1
            · rcases hI.c3 y h1 with h2 | ⟨e, he', h2⟩
              · exact Or.inl h2
              · by_cases hee : e.1 = exName
                · exact Or.inr ⟨_, List.mem_append.mpr (Or.inr (List.mem_singleton.mpr rfl)), by
                    rw [hee] at h2; exact compat_tr h2 hcen⟩
                · exact Or.inr ⟨e, List.mem_append.mpr (Or.inl ((hsub e).mpr ⟨he', hee⟩)), h2⟩
            · exact Or.inl h1
            · exact Or.inr ⟨_, List.mem_append.mpr (Or.inr (List.mem_singleton.mpr rfl)), by
                rw [h1]; exact compat_rfl _⟩
          have hQother : ∀ e ∈ a.imports, e.1 ≠ exName → e.2.iface = some e.1 → Qk e.1 (a.register ty).ifaces := by
            intro e he hee hown
            rw [hreg]
            refine foldl_regStep_Qk (hI.c2 e he hown) ?_
            intro d hd hcd
            rcases hids d hd with h2 | h2
            · exact Or.inl (hsingle d h2 e.1 (hI.keysNm e he) hcd)
            · subst h2
              exact absurd (hother e he hcd) hee
          refine ⟨?_, ?_, ?_, ?_⟩
          · intro e he
            rcases List.mem_append.mp he with h1 | h1
            · exact hI.keysNm e ((hsub e).mp h1).1
            · simp only [List.mem_singleton] at h1; subst h1; exact hNm
          · intro e he i hie
            rcases List.mem_append.mp he with h1 | h1
            · exact hI.c1 e ((hsub e).mp h1).1 i hie
            · simp only [List.mem_singleton] at h1; subst h1
              simp only at hie ⊢
              by_cases hown : exTy.iface = some exName
              · simp only [hown, ↓reduceIte, Option.some.injEq] at hie
                exact Or.inl hie.symm
              · simp only [hown, ↓reduceIte] at hie
                rcases hI.c1 _ hm i hie with e1 | e1
                · simp only at e1; subst e1; exact absurd hie hown
                · exact Or.inr (compat_false_of e1 hcen)
          · intro e he hown
            rcases List.mem_append.mp he with h1 | h1
            · obtain ⟨he', hee⟩ := (hsub e).mp h1
              have hQ := hQother e he' hee hown
              split
              · refine map_rename_other hQ hee ?_
                cases h : compat name e.1 with
                | false => rfl
                | true => exact absurd (hother e he' h) hee
              · exact hQ
            · simp only [List.mem_singleton] at h1; subst h1
              simp only at hown ⊢
              by_cases hexown : exTy.iface = some exName
              · simp only [hexown, ↓reduceIte]
                have hQex : Qk exName a.ifaces := hI.c2 _ hm hexown
                have hW := foldl_regStep_Wk (ids := ifaceIds ty) hcen (Qk_to_Wk hQex hcen) (by
                  intro d hd hcd
                  rcases hids d hd with h2 | h2
                  · exact hsingle d h2 name hNm hcd
                  · exact h2)
                rw [← hreg] at hW
                exact map_rename_Qk hW
              · exfalso
                simp only [hexown, ↓reduceIte] at hown
                rcases hI.c1 _ hm name hown with e1 | e1
                · exact hne e1.symm
                · simp only at e1
                  rw [compat_sym hcen] at e1; cases e1
          · intro x hx
            by_cases hexown : exTy.iface = some exName
            · simp only [hexown, ↓reduceIte] at hx ⊢
              obtain ⟨y, hy, rfl⟩ := List.mem_map.mp hx
              by_cases hye : y = exName
              · refine Or.inr ⟨_, List.mem_append.mpr (Or.inr (List.mem_singleton.mpr rfl)), ?_⟩
                simp [hye, compat_rfl]
              · have : (y == exName) = false := by simpa using hye
                simp only [this, Bool.false_eq_true, ↓reduceIte]
                have := hc3' y hy
                simpa [hexown] using this
            · simp only [hexown, ↓reduceIte] at hx ⊢
              have := hc3' x hx
              simpa [hexown] using this
        · -- `name` is redirected to `exName`
          rename_i hlt
          have hlt' : ev.lt nv = false := by simpa using hlt
          injection ha with ha; subst ha
          simp only [hi]
          refine ⟨hI.keysNm, hI.c1, ?_, ?_⟩
          · intro e he hown
            rw [hreg]
            refine foldl_regStep_Qk (hI.c2 e he hown) ?_
            intro d hd hcd
            rcases hids d hd with h2 | h2
            · exact Or.inl (hsingle d h2 e.1 (hI.keysNm e he) hcd)
            · subst h2
              right
              rw [hother e he hcd, higherV_eq hke hkn]
              exact hlt'
          · intro x hx
            rcases hc3reg x hx with h1 | h1 | h1
            · exact hI.c3 x h1
            · exact Or.inl h1
            · exact Or.inr ⟨(exName, exTy), hm, by rw [h1]; exact compat_sym hcen⟩

end Wac
