import WacProofs.Lemmas.ElabRes
/-
  C05 `elab_denotes`, part 9: `use i.{a, b as c}` inside a package: the used types are the *same*
  types (same arena items, hence the same trees and the same resources), bound and exported under
  the local names.
-/
namespace Wac.Elab
open Wac Wac.Spec.Wit Wac.Decode

variable {ρ : Nat → Res}

/-- the interfaces declared so far: the resolver's root scope against the specification's
environment -/
def RootSim (ρ : Nat → Res) (T : Types) (root : List (Str × Bound)) (ifaces : List (Str × List (Str × Tree))) : Prop :=
  ∀ (path : Str) (i : Nat), alGet root path = some (.iface i) →
    ∃ itf ex, T.interfaces[i]? = some itf ∧ alGet ifaces path = some ex ∧ ExpRel ρ T itf.exports ex

theorem RootSim.mono {T T' : Types} {root : List (Str × Bound)} {ifaces : List (Str × List (Str × Tree))}
    (h : RootSim ρ T root ifaces) (hg : Grow T T') : RootSim ρ T' root ifaces := by
  intro path i hp
  obtain ⟨itf, ex, h1, h2, h3⟩ := h path i hp
  obtain ⟨itf', h1', he⟩ := hg.ext.interfaces i itf (by simp) h1
  exact ⟨itf', ex, h1', h2, by rw [he]; exact h3.mono hg⟩

/-- lookups in related export lists correspond -/
theorem ExpRel.get {T : Types} : ∀ {ks : List (Str × ItemKind)} {ex : List (Str × Tree)}, ExpRel ρ T ks ex →
    ∀ n, (alGet ks n = none ∧ alGet ex n = none) ∨
      ∃ k t, alGet ks n = some k ∧ alGet ex n = some t ∧ HK [] [] T (kb T) k (renT ρ t) ∧ ResOk ρ T k t
  | [], [], _, n => Or.inl ⟨rfl, rfl⟩
  | (m, k) :: ks, (m', t) :: ex, ⟨⟨hn, hk, hr⟩, hrest⟩, n => by
    simp only at hn
    subst hn
    simp only [alGet]
    by_cases hmn : (m == n) = true
    · simp only [hmn, if_true]
      exact Or.inr ⟨k, t, rfl, rfl, hk, hr⟩
    · simp only [hmn]
      exact ExpRel.get hrest n
  | [], _ :: _, hf, _ => hf.elim
  | _ :: _, [], hf, _ => hf.elim

/-- a value type never unfolds to a bare resource -/
theorem unfoldVT_ne_resource (T : Types) : ∀ (F : Nat) (v : ValueType) (x : Res), T.unfoldVT F v ≠ some (.resource x)
  | 0, _, _ => by simp [Types.unfoldVT]
  | F + 1, .prim _, _ => by simp [Types.unfoldVT]
  | F + 1, .own _, _ => by
    simp only [Types.unfoldVT]
    intro h
    obtain ⟨_, _, h2⟩ := Option.map_eq_some_iff.mp h
    cases h2
  | F + 1, .borrow _, _ => by
    simp only [Types.unfoldVT]
    intro h
    obtain ⟨_, _, h2⟩ := Option.map_eq_some_iff.mp h
    cases h2
  | F + 1, .defined d, x => by
    simp only [Types.unfoldVT]
    split
    · simp
    · rename_i dt _
      cases dt with
      | alias a => simp only [unfoldDefined]; exact unfoldVT_ne_resource T F a x
      | flags _ => simp [unfoldDefined]
      | enum _ => simp [unfoldDefined]
      | result a b => simp only [unfoldDefined]; intro h; split at h <;> cases h
      | tuple _ => simp only [unfoldDefined]; intro h; obtain ⟨_, _, h2⟩ := Option.map_eq_some_iff.mp h; cases h2
      | list _ => simp only [unfoldDefined]; intro h; obtain ⟨_, _, h2⟩ := Option.map_eq_some_iff.mp h; cases h2
      | fixedSizeList _ _ => simp only [unfoldDefined]; intro h; obtain ⟨_, _, h2⟩ := Option.map_eq_some_iff.mp h; cases h2
      | option _ => simp only [unfoldDefined]; intro h; obtain ⟨_, _, h2⟩ := Option.map_eq_some_iff.mp h; cases h2
      | variant _ => simp only [unfoldDefined]; intro h; obtain ⟨_, _, h2⟩ := Option.map_eq_some_iff.mp h; cases h2
      | record _ => simp only [unfoldDefined]; intro h; obtain ⟨_, _, h2⟩ := Option.map_eq_some_iff.mp h; cases h2
      | stream _ => simp only [unfoldDefined]; intro h; obtain ⟨_, _, h2⟩ := Option.map_eq_some_iff.mp h; cases h2
      | future _ => simp only [unfoldDefined]; intro h; obtain ⟨_, _, h2⟩ := Option.map_eq_some_iff.mp h; cases h2

theorem renT_type_inv {t x : Tree} (h : renT ρ t = .type x) : ∃ t', t = .type t' ∧ renT ρ t' = x := by
  cases t <;> simp only [renT] at h <;> cases h
  exact ⟨_, rfl, rfl⟩

theorem renT_resource_inv {t : Tree} {l : Res} (h : renT ρ t = .resource l) : ∃ q, t = .resource q ∧ ρ q.idx = l := by
  cases t <;> simp only [renT] at h <;> cases h
  exact ⟨_, rfl, rfl⟩

/-- a value-type export is a value type -/
theorem HV_of_HK_type {T : Types} {v : ValueType} {t : Tree}
    (h : HK [] [] T (kb T) (.type (.value v)) (renT ρ t)) :
    ∃ t', t = .type t' ∧ (∀ q, t' ≠ .resource q) ∧ HV [] [] T (vb T) v (renT ρ t') := by
  have h0 := h T (kb T) (Ext.refl _ _ _) (Nat.le_refl _)
  have hk : kb T = vb T + 1 := rfl
  rw [hk] at h0
  simp only [Types.unfoldKind] at h0
  obtain ⟨x, hx, hxx⟩ := Option.map_eq_some_iff.mp h0
  obtain ⟨t', rfl, hren⟩ := renT_type_inv hxx.symm
  refine ⟨t', rfl, ?_, ?_⟩
  · intro q hq
    subst hq
    simp only [renT] at hren
    rw [← hren] at hx
    exact unfoldVT_ne_resource T _ _ _ hx
  · intro T' F he hF
    have h1 := h T' (F + 1) he (by unfold kb; omega)
    simp only [Types.unfoldKind, renT] at h1
    obtain ⟨y, hy, hyy⟩ := Option.map_eq_some_iff.mp h1
    cases hyy
    exact hy

end Wac.Elab
