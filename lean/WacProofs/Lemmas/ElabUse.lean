import WacProofs.Lemmas.ElabRes
/-
  C05 `elab_denotes`, part 9: `use i.{a, b as c}` inside a package: the used types are the *same*
  types (same arena items, hence the same trees and the same resources), bound and exported under
  the local names.
-/
namespace Wac.Elab
open Wac Wac.Spec.Wit Wac.Decode

variable {ρ : Nat → Res}

/-- the interfaces declared so far: the resolver's root scope against the specification's
environment -/
def RootSim (ρ : Nat → Res) (T : Types) (root : List (Str × Bound)) (ifaces : List (Str × List (Str × Tree))) : Prop :=
  ∀ (path : Str) (i : Nat), alGet root path = some (.iface i) →
    ∃ itf ex, T.interfaces[i]? = some itf ∧ alGet ifaces path = some ex ∧ ExpRel ρ T itf.exports ex

theorem RootSim.mono {T T' : Types} {root : List (Str × Bound)} {ifaces : List (Str × List (Str × Tree))}
    (h : RootSim ρ T root ifaces) (hg : Grow T T') : RootSim ρ T' root ifaces := by
  intro path i hp
  obtain ⟨itf, ex, h1, h2, h3⟩ := h path i hp
  obtain ⟨itf', h1', he⟩ := hg.ext.interfaces i itf (by simp) h1
  exact ⟨itf', ex, h1', h2, by rw [he]; exact h3.mono hg⟩

/-- lookups in related export lists correspond -/
theorem ExpRel.get {T : Types} : ∀ {ks : List (Str × ItemKind)} {ex : List (Str × Tree)}, ExpRel ρ T ks ex →
    ∀ n, (alGet ks n = none ∧ alGet ex n = none) ∨
      ∃ k t, alGet ks n = some k ∧ alGet ex n = some t ∧ HK [] [] T (kb T) k (renT ρ t) ∧ ResOk ρ T k t
  | [], [], _, n => Or.inl ⟨rfl, rfl⟩
  | (m, k) :: ks, (m', t) :: ex, ⟨⟨hn, hk, hr⟩, hrest⟩, n => by
    simp only at hn
    subst hn
    simp only [alGet]
    by_cases hmn : (m == n) = true
    · simp only [hmn, if_true]
      exact Or.inr ⟨k, t, rfl, rfl, hk, hr⟩
    · simp only [hmn]
      exact ExpRel.get hrest n
  | [], _ :: _, hf, _ => hf.elim
  | _ :: _, [], hf, _ => hf.elim

/-- a value type never unfolds to a bare resource -/
theorem unfoldVT_ne_resource (T : Types) : ∀ (F : Nat) (v : ValueType) (x : Res), T.unfoldVT F v ≠ some (.resource x)
  | 0, _, _ => by simp [Types.unfoldVT]
  | F + 1, .prim _, _ => by simp [Types.unfoldVT]
  | F + 1, .own _, _ => by
    simp only [Types.unfoldVT]
    intro h
    obtain ⟨_, _, h2⟩ := Option.map_eq_some_iff.mp h
    cases h2
  | F + 1, .borrow _, _ => by
    simp only [Types.unfoldVT]
    intro h
    obtain ⟨_, _, h2⟩ := Option.map_eq_some_iff.mp h
    cases h2
  | F + 1, .defined d, x => by
    simp only [Types.unfoldVT]
    split
    · simp
    · rename_i dt _
      cases dt with
      | alias a => simp only [unfoldDefined]; exact unfoldVT_ne_resource T F a x
      | flags _ => simp [unfoldDefined]
      | enum _ => simp [unfoldDefined]
      | result a b => simp only [unfoldDefined]; intro h; split at h <;> cases h
      | tuple _ => simp only [unfoldDefined]; intro h; obtain ⟨_, _, h2⟩ := Option.map_eq_some_iff.mp h; cases h2
      | list _ => simp only [unfoldDefined]; intro h; obtain ⟨_, _, h2⟩ := Option.map_eq_some_iff.mp h; cases h2
      | fixedSizeList _ _ => simp only [unfoldDefined]; intro h; obtain ⟨_, _, h2⟩ := Option.map_eq_some_iff.mp h; cases h2
      | option _ => simp only [unfoldDefined]; intro h; obtain ⟨_, _, h2⟩ := Option.map_eq_some_iff.mp h; cases h2
      | variant _ => simp only [unfoldDefined]; intro h; obtain ⟨_, _, h2⟩ := Option.map_eq_some_iff.mp h; cases h2
      | record _ => simp only [unfoldDefined]; intro h; obtain ⟨_, _, h2⟩ := Option.map_eq_some_iff.mp h; cases h2
      | stream _ => simp only [unfoldDefined]; intro h; obtain ⟨_, _, h2⟩ := Option.map_eq_some_iff.mp h; cases h2
      | future _ => simp only [unfoldDefined]; intro h; obtain ⟨_, _, h2⟩ := Option.map_eq_some_iff.mp h; cases h2

theorem renT_type_inv {t x : Tree} (h : renT ρ t = .type x) : ∃ t', t = .type t' ∧ renT ρ t' = x := by
  cases t <;> simp only [renT] at h <;> cases h
  exact ⟨_, rfl, rfl⟩

theorem renT_resource_inv {t : Tree} {l : Res} (h : renT ρ t = .resource l) : ∃ q, t = .resource q ∧ ρ q.idx = l := by
  cases t <;> simp only [renT] at h <;> cases h
  exact ⟨_, rfl, rfl⟩

/-- a value-type export is a value type -/
theorem HV_of_HK_type {T : Types} {v : ValueType} {t : Tree}
    (h : HK [] [] T (kb T) (.type (.value v)) (renT ρ t)) :
    ∃ t', t = .type t' ∧ (∀ q, t' ≠ .resource q) ∧ HV [] [] T (vb T) v (renT ρ t') := by
  have h0 := h T (kb T) (Ext.refl _ _ _) (Nat.le_refl _)
  have hk : kb T = vb T + 1 := rfl
  rw [hk] at h0
  simp only [Types.unfoldKind] at h0
  obtain ⟨x, hx, hxx⟩ := Option.map_eq_some_iff.mp h0
  obtain ⟨t', rfl, hren⟩ := renT_type_inv hxx.symm
  refine ⟨t', rfl, ?_, ?_⟩
  · intro q hq
    subst hq
    simp only [renT] at hren
    rw [← hren] at hx
    exact unfoldVT_ne_resource T _ _ _ hx
  · intro T' F he hF
    have h1 := h T' (F + 1) he (by unfold kb; omega)
    simp only [Types.unfoldKind, renT] at h1
    obtain ⟨y, hy, hyy⟩ := Option.map_eq_some_iff.mp h1
    cases hyy
    exact hy

end Wac.Elab

namespace Wac.Elab
open Wac Wac.Spec.Wit Wac.Decode

variable {ρ : Nat → Res}

/-- one used name, on the specification side (the body of the fold in `denoteItem (.use …)`) -/
def useStep (exports : List (Str × Tree)) (acc : Scope × List (Str × Tree)) (it : Str × Option Str) :
    Option (Scope × List (Str × Tree)) :=
  match alGet exports it.1 with
  | some (.type (.resource r)) =>
    let local_ := it.2.getD it.1
    some ({ acc.1 with binds := acc.1.binds ++ [(local_, .res r)] }, acc.2 ++ [(local_, .type (.resource r))])
  | some (.type t) =>
    let local_ := it.2.getD it.1
    some ({ acc.1 with binds := acc.1.binds ++ [(local_, .val t)] }, acc.2 ++ [(local_, .type t)])
  | _ => none

theorem useStep_res {ex : List (Str × Tree)} {acc : Scope × List (Str × Tree)} {n : Str} {as_ : Option Str} {q : Res}
    (h : alGet ex n = some (.type (.resource q))) :
    useStep ex acc (n, as_) =
      some ({ acc.1 with binds := acc.1.binds ++ [(as_.getD n, .res q)] }, acc.2 ++ [(as_.getD n, .type (.resource q))]) := by
  simp only [useStep, h]

theorem useStep_val {ex : List (Str × Tree)} {acc : Scope × List (Str × Tree)} {n : Str} {as_ : Option Str} {t : Tree}
    (hnr : ∀ q, t ≠ .resource q) (h : alGet ex n = some (.type t)) :
    useStep ex acc (n, as_) =
      some ({ acc.1 with binds := acc.1.binds ++ [(as_.getD n, .val t)] }, acc.2 ++ [(as_.getD n, .type t)]) := by
  cases t <;> simp only [useStep, h]
  exact absurd rfl (hnr _)

theorem useGo_ok (i : Nat) (itf : Interface) :
    ∀ (items : List (Str × Option Str)) (st st' : St) (uses uses' : List (Str × UsedType))
      (externs externs' : List (Str × ItemKind)),
      useType.go i itf st uses externs items = .ok (st', uses', externs') →
      st'.types = st.types ∧ st'.root = st.root ∧
      ∀ (ex : List (Str × Tree)) (sc : Scope) (o : List (Str × Tree)) (res : Scope × List (Str × Tree))
        (accI : List (Str × Tree)),
        ExpRel ρ st.types itf.exports ex → Sim ρ st.types st.scope sc.binds →
        ExpRel ρ st.types externs (accI ++ o) → items.foldlM (useStep ex) (sc, o) = some res →
        Sim ρ st'.types st'.scope res.1.binds ∧ ExpRel ρ st'.types externs' (accI ++ res.2) ∧
        res.1.next = sc.next := by
  intro items
  induction items with
  | nil =>
    intro st st' uses uses' externs externs' h
    simp only [useType.go] at h
    cases h
    refine ⟨rfl, rfl, ?_⟩
    intro ex sc o res accI _ hsim hexp hfold
    simp only [List.foldlM_nil, Option.pure_def, Option.some.injEq] at hfold
    subst hfold
    exact ⟨hsim, hexp, rfl⟩
  | cons it items ih =>
    intro st st' uses uses' externs externs' h
    obtain ⟨n, as_⟩ := it
    simp only [useType.go] at h
    -- the shape of a successful step
    have step : ∃ (t : Ty) (st1 : St),
        alGet itf.exports n = some (.type t) ∧ ((∃ r, t = .resource r) ∨ (∃ v, t = .value v)) ∧
        alGet externs (as_.getD n) = none ∧ register st (as_.getD n) (.ty t) = .ok st1 ∧
        useType.go i itf st1 (alInsert uses (as_.getD n) { interface := i, name := as_.map fun _ => n })
          (alInsert externs (as_.getD n) (.type t)) items = .ok (st', uses', externs') := by
      split at h
      · cases h
      · rename_i kind hk
        split at h
        · rename_i t
          split at h
          · rename_i r
            split at h
            · cases h
            · rename_i hfr
              split at h
              · rename_i st1 hreg
                exact ⟨_, st1, hk, Or.inl ⟨_, rfl⟩, by simpa using hfr, hreg, h⟩
              · cases h
          · rename_i v
            split at h
            · cases h
            · rename_i hfr
              split at h
              · rename_i st1 hreg
                exact ⟨_, st1, hk, Or.inr ⟨_, rfl⟩, by simpa using hfr, hreg, h⟩
              · cases h
          · cases h
        · cases h
    obtain ⟨t, st1, hk, hshape, hfrE, hreg, hrest⟩ := step
    obtain ⟨hfrS, rfl⟩ := register_ok hreg
    obtain ⟨ht2, hr2, k2⟩ := ih _ _ _ _ _ _ hrest
    refine ⟨ht2, hr2, ?_⟩
    intro ex sc o res accI hex hsim hexp hfold
    simp only [List.foldlM_cons, Option.bind_eq_bind] at hfold
    obtain ⟨acc1, h1, h2⟩ := Option.bind_eq_some_iff.mp hfold
    have hins : alInsert externs (as_.getD n) (.type t) = externs ++ [(as_.getD n, .type t)] :=
      alInsert_fresh _ _ _ (alGet_none_not_mem _ _ hfrE)
    rcases hex.get n with ⟨hnone, _⟩ | ⟨k, tt, hgk, hgt, hkk, hrk⟩
    · rw [hk] at hnone; cases hnone
    · rw [hk] at hgk
      cases hgk
      rcases hshape with ⟨rid, rfl⟩ | ⟨v, rfl⟩
      · -- a used resource: the same resource
        obtain ⟨q, rfl, hq⟩ := hrk rid rfl
        rw [useStep_res hgt] at h1
        cases h1
        have hsim1 := hsim.push (n := as_.getD n) (b := .ty (.resource rid)) (bd := .res q) hfrS hq
        have hexp1 : ExpRel ρ st.types (externs ++ [(as_.getD n, .type (.resource rid))])
            (accI ++ (o ++ [(as_.getD n, .type (.resource q))])) := by
          rw [← List.append_assoc]
          exact All2.append hexp ⟨rfl, hkk, hrk⟩
        have := k2 ex _ _ res accI hex hsim1 (by rw [hins]; exact hexp1) h2
        exact this
      · -- a used value type: the same type
        obtain ⟨t', rfl, hnr, hv⟩ := HV_of_HK_type hkk
        rw [useStep_val hnr hgt] at h1
        cases h1
        have hsim1 := hsim.push (n := as_.getD n) (b := .ty (.value v)) (bd := .val t') hfrS hv
        have hexp1 : ExpRel ρ st.types (externs ++ [(as_.getD n, .type (.value v))])
            (accI ++ (o ++ [(as_.getD n, .type t')])) := by
          rw [← List.append_assoc]
          exact All2.append hexp ⟨rfl, hkk, hrk⟩
        have := k2 ex _ _ res accI hex hsim1 (by rw [hins]; exact hexp1) h2
        exact this

/-- **`use` preserves identity**: the used names are bound and exported as the very items of the
source interface, so they denote the same types and the same resources. -/
theorem useType_ok {st st' : St} {path : Str} {items : List (Str × Option Str)}
    {uses uses' : List (Str × UsedType)} {externs externs' : List (Str × ItemKind)}
    (h : useType st path items uses externs = .ok (st', uses', externs')) :
    st'.types = st.types ∧ st'.root = st.root ∧
    ∀ (container : Str) (ifaces : List (Str × List (Str × Tree))) (s s' : Scope) (out acc : List (Str × Tree)),
      RootSim ρ st.types st.root ifaces → Sim ρ st.types st.scope s.binds → ExpRel ρ st.types externs acc →
      denoteItem container ifaces s (.use path items) = some (s', out) →
      Sim ρ st'.types st'.scope s'.binds ∧ ExpRel ρ st'.types externs' (acc ++ out) ∧ s'.next = s.next := by
  unfold useType at h
  split at h
  · rename_i i hroot
    split at h
    · cases h
    · rename_i itf hitf
      obtain ⟨ht, hr, k⟩ := useGo_ok (ρ := ρ) i itf _ _ _ _ _ _ _ h
      refine ⟨ht, hr, ?_⟩
      intro container ifaces s s' out acc hrs hsim hexp hden
      obtain ⟨itf', ex, hitf', hex, hrel⟩ := hrs path i hroot
      rw [hitf] at hitf'; cases hitf'
      simp only [denoteItem, hex] at hden
      have hden' : items.foldlM (useStep ex) (s, []) = some (s', out) := hden
      exact k ex s [] (s', out) acc hrel hsim (by simpa using hexp) hden'
  · cases h
  · cases h

end Wac.Elab
