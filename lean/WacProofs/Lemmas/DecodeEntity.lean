import WacProofs.Lemmas.DecodeWorld
/-
  C08 `decode_tree`, part 11: the mutual recursion `entity` / `ty` / `component_instance_type` /
  `component_type`: every call keeps the cache invariant and returns an item that unfolds to the
  tree the validator's item denotes (with resource leaves renamed by `ρ`).
-/
namespace Wac.Decode
open Wac Wac.Spec.Decode

section
variable {w : WTypes} {ρ : Nat → Res} {oi ow : List Nat} {c : Nat}

/-! ### item kinds from their parts -/

theorem entTree_pos {g : Nat} {e : WEnt} {t : Tree} (h : entTree w g e = some t) : ∃ g', g = g' + 1 := by
  cases g with
  | zero => simp [entTree] at h
  | succ g' => exact ⟨g', rfl⟩

theorem RK_module {st : St} {m id : Nat} (h : RM w st m id) : RK w ρ oi ow c st (.module m) (.module id) := by
  obtain ⟨mt, h1, h2⟩ := h
  intro g t ht T' F he hF
  obtain ⟨g', rfl⟩ := entTree_pos ht
  simp only [entTree, h1, Option.map_some] at ht
  cases ht
  obtain ⟨F', rfl⟩ : ∃ F', F = F' + 1 := ⟨F - 1, by omega⟩
  simp only [Types.unfoldKind, he.modules _ _ h2, Option.map_some, renT]

theorem RK_value {st : St} {v : WVal} {v' : ValueType} (h : RV w ρ oi ow c st v v') :
    RK w ρ oi ow c st (.value v) (.value v') := by
  intro g t ht T' F he hF
  obtain ⟨g', rfl⟩ := entTree_pos ht
  simp only [entTree] at ht
  obtain ⟨t1, h1, rfl⟩ := Option.map_eq_some_iff.mp ht
  obtain ⟨F', rfl⟩ : ∃ F', F = F' + 1 := ⟨F - 1, by omega⟩
  simp only [Types.unfoldKind, h g' t1 h1 T' F' he (by omega), Option.map_some, renT]

theorem RK_func {st : St} {f id : Nat} (h : RF w ρ oi ow c st f id) :
    RK w ρ oi ow c st (.func f) (.func id) := by
  intro g t ht T' F he hF
  obtain ⟨g', rfl⟩ := entTree_pos ht
  simp only [entTree] at ht
  obtain ⟨F', rfl⟩ : ∃ F', F = F' + 1 := ⟨F - 1, by omega⟩
  simp only [Types.unfoldKind, h g' t ht T' F' he (by omega)]

theorem RK_type_defined {st : St} {d : Nat} {v : ValueType} (h : RV w ρ oi ow c st (.ty d) v) (ref : WAny) :
    RK w ρ oi ow c st (.type ref (.defined d)) (.type (.value v)) := by
  intro g t ht T' F he hF
  obtain ⟨g', rfl⟩ := entTree_pos ht
  simp only [entTree] at ht
  obtain ⟨t1, h1, rfl⟩ := Option.map_eq_some_iff.mp ht
  obtain ⟨F', rfl⟩ : ∃ F', F = F' + 1 := ⟨F - 1, by omega⟩
  simp only [Types.unfoldKind, h g' t1 h1 T' F' he (by omega), Option.map_some, renT]

theorem RK_type_func {st : St} {f id : Nat} (h : RF w ρ oi ow c st f id) (ref : WAny) :
    RK w ρ oi ow c st (.type ref (.func f)) (.type (.func id)) := by
  intro g t ht T' F he hF
  obtain ⟨g', rfl⟩ := entTree_pos ht
  simp only [entTree] at ht
  obtain ⟨t1, h1, rfl⟩ := Option.map_eq_some_iff.mp ht
  obtain ⟨F', rfl⟩ : ∃ F', F = F' + 1 := ⟨F - 1, by omega⟩
  simp only [Types.unfoldKind, h g' t1 h1 T' F' he (by omega), Option.map_some, renT]

theorem RK_type_res {st : St} {r id : Nat} (h : RL w ρ oi ow st r id) (ref : WAny) :
    RK w ρ oi ow c st (.type ref (.res r)) (.type (.resource id)) := by
  obtain ⟨e, he1, hl⟩ := h
  intro g t ht T' F he hF
  obtain ⟨g', rfl⟩ := entTree_pos ht
  simp only [entTree] at ht
  obtain ⟨l, h1, rfl⟩ := Option.map_eq_some_iff.mp ht
  obtain ⟨e2, he2, hidx⟩ := leaf_eq h1
  rw [he1] at he2; cases he2
  obtain ⟨F', rfl⟩ : ∃ F', F = F' + 1 := ⟨F - 1, by omega⟩
  simp only [Types.unfoldKind, hl T' he, Option.map_some, renT, hidx]

theorem unfoldKind_type_interface {T : Types} {F id : Nat} {f : Forest}
    (h : T.unfoldKind F (.instance id) = some (.instance f)) :
    T.unfoldKind F (.type (.interface id)) = some (.type (.instance f)) := by
  cases F with
  | zero => simp [Types.unfoldKind] at h
  | succ F =>
    simp only [Types.unfoldKind] at h ⊢
    split at h
    · cases h
    · rename_i itf hitf
      obtain ⟨x, hx, hxx⟩ := Option.map_eq_some_iff.mp h
      cases hxx
      simp [hx]

theorem unfoldKind_type_world {T : Types} {F id : Nat} {i e : Forest}
    (h : T.unfoldKind F (.component id) = some (.component i e)) :
    T.unfoldKind F (.type (.world id)) = some (.type (.component i e)) := by
  cases F with
  | zero => simp [Types.unfoldKind] at h
  | succ F =>
    simp only [Types.unfoldKind] at h ⊢
    split at h
    · cases h
    · rename_i wd hwd
      split at h
      · rename_i a b ha hb
        cases h
        simp [ha, hb]
      · cases h

theorem RK_type_inst {st : St} {i id : Nat} (h : RK w ρ oi ow c st (.instance i) (.instance id)) (ref : WAny) :
    RK w ρ oi ow c st (.type ref (.instance i)) (.type (.interface id)) := by
  intro g t ht T' F he hF
  obtain ⟨g', rfl⟩ := entTree_pos ht
  simp only [entTree] at ht
  split at ht
  · cases ht
  · rename_i es hes
    obtain ⟨fr, hfr, rfl⟩ := Option.map_eq_some_iff.mp ht
    have h1 : entTree w (g' + 1) (.instance i) = some (.instance fr) := by
      simp only [entTree, hes, hfr, Option.map_some]
    have h2 := h (g' + 1) _ h1 T' F he hF
    simp only [renT] at h2 ⊢
    exact unfoldKind_type_interface h2

theorem RK_type_comp {st : St} {i id : Nat} (h : RK w ρ oi ow c st (.component i) (.component id)) (ref : WAny) :
    RK w ρ oi ow c st (.type ref (.component i)) (.type (.world id)) := by
  intro g t ht T' F he hF
  obtain ⟨g', rfl⟩ := entTree_pos ht
  simp only [entTree] at ht
  split at ht
  · cases ht
  · rename_i ct hct
    split at ht
    · rename_i a b ha hb
      cases ht
      have h1 : entTree w (g' + 1) (.component i) = some (.component a b) := by
        simp only [entTree, hct, ha, hb]
      have h2 := h (g' + 1) _ h1 T' F he hF
      simp only [renT] at h2 ⊢
      exact unfoldKind_type_world h2
    · cases ht

end

/-! ### the statements of the mutual induction -/

def SE (w : WTypes) (ρ : Nat → Res) (n : Nat) : Prop :=
  ∀ oi ow c, GoodC ρ (InvR w ρ oi ow c) (fun st (x : Str × WEnt) => entity w n st x.1 x.2)
    (fun st x k => RK w ρ oi ow c st x.2 k)

def ST (w : WTypes) (ρ : Nat → Res) (n : Nat) : Prop :=
  ∀ oi ow c, GoodC ρ (InvR w ρ oi ow c) (fun st (x : Str × WAny) => ty w n st x.1 x.2)
    (fun st x t => ∀ ref, RK w ρ oi ow c st (.type ref x.2) (.type t))

def SI (w : WTypes) (ρ : Nat → Res) (n : Nat) : Prop :=
  ∀ oi ow c, GoodC ρ (InvR w ρ oi ow c) (fun st (x : Option Str × Nat) => instanceType w n st x.1 x.2)
    (fun st x id => RK w ρ oi ow c st (.instance x.2) (.instance id))

def SC (w : WTypes) (ρ : Nat → Res) (n : Nat) : Prop :=
  ∀ oi ow c, GoodC ρ (InvR w ρ oi ow c) (fun st (x : Option Str × Nat) => componentType w n st x.1 x.2)
    (fun st x id => RK w ρ oi ow c st (.component x.2) (.component id))

section
variable {w : WTypes} {ρ : Nat → Res}

theorem entity_succ (hn : NamesOk w) {n : Nat} (hT : ST w ρ n) (hI : SI w ρ n) (hC : SC w ρ n) :
    SE w ρ (n + 1) := by
  intro oi ow c st x st' k h
  obtain ⟨name, e⟩ := x
  cases e with
  | module m =>
    simp only [entity] at h
    split at h
    · rename_i st1 id hm
      cases h
      obtain ⟨fr, kk⟩ := (moduleType_good (ρ := ρ) (oi := oi) (ow := ow) (c := c)).toC _ _ _ _ hm
      exact ⟨fr, fun hP hC' => ⟨(kk hP hC').1, RK_module (kk hP hC').2⟩⟩
    · cases h
    · cases h
  | value v =>
    simp only [entity] at h
    split at h
    · rename_i st1 v' hv
      cases h
      obtain ⟨fr, kk⟩ := (valType_good (ρ := ρ) (oi := oi) (ow := ow) (c := c) hn n).toC _ _ _ _ hv
      exact ⟨fr, fun hP hC' => ⟨(kk hP hC').1, RK_value (kk hP hC').2⟩⟩
    · cases h
    · cases h
  | type referenced created =>
    simp only [entity] at h
    split at h
    · rename_i _ _ ht
      cases h
      obtain ⟨fr, kk⟩ := hT oi ow c st (name, created) _ _ ht
      exact ⟨fr, fun hP hC' => ⟨(kk hP hC').1, (kk hP hC').2 referenced⟩⟩
    · cases h
    · cases h
  | func f =>
    simp only [entity] at h
    split at h
    · rename_i st1 id hf
      cases h
      obtain ⟨fr, kk⟩ := (funcType_good (ρ := ρ) (oi := oi) (ow := ow) (c := c) hn n).toC _ _ _ _ hf
      exact ⟨fr, fun hP hC' => ⟨(kk hP hC').1, RK_func (kk hP hC').2⟩⟩
    · cases h
    · cases h
  | «instance» i =>
    simp only [entity] at h
    split at h
    · rename_i _ _ hi
      cases h
      obtain ⟨fr, kk⟩ := hI oi ow c st (some name, i) _ _ hi
      exact ⟨fr, fun hP hC' => ⟨(kk hP hC').1, (kk hP hC').2⟩⟩
    · cases h
    · cases h
  | component cc =>
    simp only [entity] at h
    split at h
    · rename_i _ _ hi
      cases h
      obtain ⟨fr, kk⟩ := hC oi ow c st (some name, cc) _ _ hi
      exact ⟨fr, fun hP hC' => ⟨(kk hP hC').1, (kk hP hC').2⟩⟩
    · cases h
    · cases h

theorem ty_succ (hn : NamesOk w) {n : Nat} (hI : SI w ρ n) (hC : SC w ρ n) : ST w ρ (n + 1) := by
  intro oi ow c st x st' t h
  obtain ⟨name, a⟩ := x
  cases a with
  | defined d =>
    simp only [ty] at h
    split at h
    · rename_i st1 v hv
      cases h
      obtain ⟨fr, kk⟩ := (definedType_good (ρ := ρ) (oi := oi) (ow := ow) (c := c) hn n).toC _ _ _ _ hv
      exact ⟨fr, fun hP hC' => ⟨(kk hP hC').1, fun ref => RK_type_defined (kk hP hC').2 ref⟩⟩
    · cases h
    · cases h
  | func f =>
    simp only [ty] at h
    split at h
    · rename_i st1 id hf
      cases h
      obtain ⟨fr, kk⟩ := (funcType_good (ρ := ρ) (oi := oi) (ow := ow) (c := c) hn n).toC _ _ _ _ hf
      exact ⟨fr, fun hP hC' => ⟨(kk hP hC').1, fun ref => RK_type_func (kk hP hC').2 ref⟩⟩
    · cases h
    · cases h
  | component cc =>
    simp only [ty] at h
    split at h
    · rename_i _ _ hi
      cases h
      obtain ⟨fr, kk⟩ := hC oi ow c st (none, cc) _ _ hi
      exact ⟨fr, fun hP hC' => ⟨(kk hP hC').1, fun ref => RK_type_comp (kk hP hC').2 ref⟩⟩
    · cases h
    · cases h
  | «instance» i =>
    simp only [ty] at h
    split at h
    · rename_i _ _ hi
      cases h
      obtain ⟨fr, kk⟩ := hI oi ow c st (none, i) _ _ hi
      exact ⟨fr, fun hP hC' => ⟨(kk hP hC').1, fun ref => RK_type_inst (kk hP hC').2 ref⟩⟩
    · cases h
    · cases h
  | res r =>
    simp only [ty] at h
    split at h
    · rename_i st1 id hr
      cases h
      obtain ⟨fr, kk⟩ := resource_ok (ρ := ρ) (oi := oi) (ow := ow) (c := c) hr
      refine ⟨fr, fun hP hC' => ?_⟩
      obtain ⟨p1, r1⟩ := kk hP.1 hC'
      exact ⟨hP.frame fr p1, fun ref => RK_type_res r1 ref⟩
    · cases h
    · cases h

end

end Wac.Decode
