import WacProofs.Lemmas.ParserComplete
/-
  C12 proofs: `nonempty_bodies` — a record / variant / flags / enum declaration with an empty body
  `kw id { }` is rejected by the parser model (with `EmptyType`) and has no derivation in the grammar.
  (The empty tuple `tuple<>` is covered by `parseType_sound`/`parseType_complete`: `list1` is nonempty.)
-/
namespace Wac.C12
open Wac Wac.Ast Wac.Lex Wac.Parse Wac.Spec.Grammar

theorem SepBy.first {α} {p : SP α} {c : STok} {xs : List α} {ts r : List STok} (h : SepBy p c xs ts r) :
    ∃ a r', (a, r') ∈ p ts := by
  cases h with
  | one h => exact ⟨_, _, h⟩
  | oneTrail h => exact ⟨_, _, h⟩
  | cons h _ => exact ⟨_, _, h⟩

/-- the four braced declarations with an empty body `kw id { }` -/
structure EmptyBody (kw : Token) (st : PState) : Prop where
  k1 : nextTok st = some kw
  k2 : nextTok (adv st) = some .Ident
  k3 : nextTok (adv (adv st)) = some .OpenBrace
  k4 : nextTok (adv (adv (adv st))) = some .CloseBrace

theorem record_empty_rejected {st : PState} (h : EmptyBody .RecordKeyword st) (pf gf : Nat) :
    (∃ sp, parseRecordDecl (pf + 1) st = .error (.EmptyType "record" "field" sp)) ∧
    gRecordDecl gf (abs st) = [] := by
  obtain ⟨k1, k2, k3, k4⟩ := h
  constructor
  · refine ⟨(tokAt (adv (adv (adv st)))).span, ?_⟩
    simp [parseRecordDecl, parseToken_ok k1, parseIdent_ok k2, parseToken_ok k3,
      parseDelimited_nil .CloseBrace [.Ident] (parseField (pf + 1)) true _ pf k4, parseToken_ok k4]
  · apply List.eq_nil_iff_forall_not_mem.mpr
    rintro ⟨x, r⟩ hm
    simp [gRecordDecl, mem_gId, and_assoc, mem_list1, k1, k2, k3] at hm
    obtain ⟨xs, r1, hsep, _⟩ := hm
    obtain ⟨a, r', ha⟩ := hsep.first
    simp [gNamedType, mem_gId, k4] at ha

theorem variant_empty_rejected {st : PState} (h : EmptyBody .VariantKeyword st) (pf gf : Nat) :
    (∃ sp, parseVariantDecl (pf + 1) st = .error (.EmptyType "variant" "case" sp)) ∧
    gVariantDecl gf (abs st) = [] := by
  obtain ⟨k1, k2, k3, k4⟩ := h
  constructor
  · refine ⟨(tokAt (adv (adv (adv st)))).span, ?_⟩
    simp [parseVariantDecl, parseToken_ok k1, parseIdent_ok k2, parseToken_ok k3,
      parseDelimited_nil .CloseBrace [.Ident] (parseVariantCase (pf + 1)) true _ pf k4, parseToken_ok k4]
  · apply List.eq_nil_iff_forall_not_mem.mpr
    rintro ⟨x, r⟩ hm
    simp [gVariantDecl, mem_gId, and_assoc, mem_list1, k1, k2, k3] at hm
    obtain ⟨xs, r1, hsep, _⟩ := hm
    obtain ⟨a, r', ha⟩ := hsep.first
    simp [mem_gId, k4] at ha

theorem flags_empty_rejected {st : PState} (h : EmptyBody .FlagsKeyword st) (pf gf : Nat) :
    (∃ sp, parseFlagsDecl (pf + 1) st = .error (.EmptyType "flags" "flag" sp)) ∧
    gFlagsDecl gf (abs st) = [] := by
  obtain ⟨k1, k2, k3, k4⟩ := h
  constructor
  · refine ⟨(tokAt (adv (adv (adv st)))).span, ?_⟩
    simp [parseFlagsDecl, parseToken_ok k1, parseIdent_ok k2, parseToken_ok k3,
      parseDelimited_nil .CloseBrace [.Ident] parseFlag true _ pf k4, parseToken_ok k4]
  · apply List.eq_nil_iff_forall_not_mem.mpr
    rintro ⟨x, r⟩ hm
    simp [gFlagsDecl, mem_gId, and_assoc, mem_list1, k1, k2, k3] at hm
    obtain ⟨xs, r1, hsep, _⟩ := hm
    obtain ⟨a, r', ha⟩ := hsep.first
    simp [mem_gId, k4] at ha

theorem enum_empty_rejected {st : PState} (h : EmptyBody .EnumKeyword st) (pf gf : Nat) :
    (∃ sp, parseEnumDecl (pf + 1) st = .error (.EmptyType "enum" "case" sp)) ∧
    gEnumDecl gf (abs st) = [] := by
  obtain ⟨k1, k2, k3, k4⟩ := h
  constructor
  · refine ⟨(tokAt (adv (adv (adv st)))).span, ?_⟩
    simp [parseEnumDecl, parseToken_ok k1, parseIdent_ok k2, parseToken_ok k3,
      parseDelimited_nil .CloseBrace [.Ident] parseEnumCase true _ pf k4, parseToken_ok k4]
  · apply List.eq_nil_iff_forall_not_mem.mpr
    rintro ⟨x, r⟩ hm
    simp [gEnumDecl, mem_gId, and_assoc, mem_list1, k1, k2, k3] at hm
    obtain ⟨xs, r1, hsep, _⟩ := hm
    obtain ⟨a, r', ha⟩ := hsep.first
    simp [mem_gId, k4] at ha
end Wac.C12
