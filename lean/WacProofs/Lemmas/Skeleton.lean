import WacModel.Skeleton
/-
  Lemmas about the Lean section reader (`wstep`, `wiringSt`): it is a left fold, every item
  appends at most one provenance term to exactly one index space, and earlier indices keep
  their provenance.
-/
namespace Wac

theorem wiringSt_snoc (sk : Skeleton) (it : Item) : wiringSt (sk ++ [it]) = wstep (wiringSt sk) it := by
  simp [wiringSt, List.foldl_append]

theorem wiringSt_nil : wiringSt [] = {} := rfl

/-- the provenance term an item gives to the index it allocates -/
def newTerm (s : WState) : Item → Term
  | .import n _ => .imp n
  | .typeDef => .opaque
  | .component _ => .comp s.w.comps.length
  | .instantiate _ _ => .inst s.w.insts.length
  | .aliasExport i _ n => .aliasOf (s.look .instance i) n
  | .export n k i => .exported n (s.look k i)
  | .names _ => .bad

theorem push_prov (s : WState) (k k' : Kind) (t : Term) :
    (s.push k t).prov k' = if k' = k then s.prov k' ++ [t] else s.prov k' := rfl

theorem push_w (s : WState) (k : Kind) (t : Term) : (s.push k t).w = s.w := rfl

theorem wstep_prov (s : WState) (it : Item) (k' : Kind) :
    (wstep s it).prov k' = if it.alloc = some k' then s.prov k' ++ [newTerm s it] else s.prov k' := by
  cases it with
  | «import» n k => simp [wstep, Item.alloc, newTerm, push_prov, eq_comm]
  | typeDef => simp [wstep, Item.alloc, newTerm, push_prov, eq_comm]
  | component b => simp [wstep, Item.alloc, newTerm, push_prov, eq_comm]
  | instantiate c a => simp [wstep, Item.alloc, newTerm, push_prov, eq_comm]
  | aliasExport i k n =>
    simp only [wstep, Item.alloc, newTerm]
    split <;> simp [push_prov, eq_comm]
  | «export» n k i => simp [wstep, Item.alloc, newTerm, push_prov, eq_comm]
  | names es => simp [wstep, Item.alloc]

theorem wstep_len (s : WState) (it : Item) (k : Kind) :
    ((wstep s it).prov k).length = (s.prov k).length + (if it.alloc = some k then 1 else 0) := by
  rw [wstep_prov]; split <;> simp

theorem wstep_len_le (s : WState) (it : Item) (k : Kind) :
    (s.prov k).length ≤ ((wstep s it).prov k).length := by
  rw [wstep_len]; omega

theorem look_eq_getD (s : WState) (k : Kind) (i : Nat) : s.look k i = (s.prov k).getD i .bad := rfl

/-- earlier indices keep their provenance -/
theorem wstep_look_lt (s : WState) (it : Item) (k : Kind) (i : Nat) (h : i < (s.prov k).length) :
    (wstep s it).look k i = s.look k i := by
  simp only [look_eq_getD, wstep_prov]
  split
  · simp [List.getD_eq_getElem?_getD, List.getElem?_append_left h]
  · rfl

/-- the index an item allocates carries the item's term -/
theorem wstep_look_new (s : WState) (it : Item) (k : Kind) (h : it.alloc = some k) :
    (wstep s it).look k (s.prov k).length = newTerm s it := by
  simp [look_eq_getD, wstep_prov, h, List.getD_eq_getElem?_getD]

end Wac

namespace Wac

/-! ### what each item adds to the wiring -/

theorem wstep_typeDef_w (s : WState) : (wstep s .typeDef).w = s.w := rfl

theorem wstep_import_w (s : WState) (n : Str) (k : Kind) :
    (wstep s (.import n k)).w = { s.w with imports := s.w.imports ++ [(n, k)] } := rfl

theorem wstep_component_w (s : WState) (b : Nat) :
    (wstep s (.component b)).w = { s.w with comps := s.w.comps ++ [b] } := rfl

theorem wstep_instantiate_w (s : WState) (c : Nat) (args : List (Str × Kind × Nat)) :
    (wstep s (.instantiate c args)).w =
      { s.w with insts := s.w.insts ++
          [{ comp := s.look .component c, args := args.map fun (n, k, i) => (n, k, s.look k i) }] } := rfl

theorem wstep_export_w (s : WState) (n : Str) (k : Kind) (i : Nat) :
    (wstep s (.export n k i)).w = { s.w with exports := s.w.exports ++ [(n, k, s.look k i)] } := rfl

theorem wstep_alias_w (s : WState) (i : Nat) (k : Kind) (n : Str) :
    (wstep s (.aliasExport i k n)).w =
      if k = .type ∧ (s.look .instance i).isImp then s.w
      else { s.w with aliases := s.w.aliases ++ [(s.look .instance i, k, n)] } := by
  simp only [wstep]
  split <;> rfl

theorem wstep_names_w (s : WState) (es : List (Kind × Nat × Str)) :
    (wstep s (.names es)).w = { s.w with names := s.w.names ++ es.map fun (k, i, nm) => (k, s.look k i, nm) } := rfl

end Wac
