import WacProofs.Lemmas.GraphAbsOps1
import WacProofs.Lemmas.GraphInvDefine2
/-
  C06 refinement: `define_type` (a new node, two loops that add dependency edges, two map
  entries).
-/
namespace Wac.Graph
open Wac Wac.HashSites

/-- only dependency edges were added -/
structure DepsAdded (g g' : Graph) : Prop where
  nodes : g'.nodes = g.nodes
  imports : g'.imports = g.imports
  exports : g'.exports = g.exports
  defined : g'.defined = g.defined
  pkgMap : g'.pkgMap = g.pkgMap
  pkgs : g'.pkgs = g.pkgs
  edges : ∃ ds, g'.edges = ds ++ g.edges ∧ ∀ e ∈ ds, e.kind = .dep

theorem DepsAdded.refl (g : Graph) : DepsAdded g g :=
  ⟨rfl, rfl, rfl, rfl, rfl, rfl, [], rfl, fun _ h => nomatch h⟩

theorem DepsAdded.trans {a b c : Graph} (h1 : DepsAdded a b) (h2 : DepsAdded b c) : DepsAdded a c := by
  obtain ⟨d1, e1, k1⟩ := h1.edges
  obtain ⟨d2, e2, k2⟩ := h2.edges
  refine ⟨h2.nodes.trans h1.nodes, h2.imports.trans h1.imports, h2.exports.trans h1.exports,
    h2.defined.trans h1.defined, h2.pkgMap.trans h1.pkgMap, h2.pkgs.trans h1.pkgs, d2 ++ d1, ?_, ?_⟩
  · rw [e2, e1, List.append_assoc]
  · intro e he
    rcases List.mem_append.mp he with he | he
    · exact k2 e he
    · exact k1 e he

theorem DepsAdded.addEdge (g : Graph) (a b : Nat) : DepsAdded g (g.addEdge a b .dep) :=
  ⟨rfl, rfl, rfl, rfl, rfl, rfl, [⟨a, b, .dep⟩], rfl, by simp⟩

theorem mem_addEdge {g : Graph} {a b : Nat} {k : EdgeKind} {e : Edge} :
    e ∈ (g.addEdge a b k).edges ↔ e = ⟨a, b, k⟩ ∨ e ∈ g.edges := by
  unfold Graph.addEdge; simp

/-! ### the first loop: dependency → new node -/

theorem depInStep_spec (ty : Ty) (idx : Nat) (g : Graph) (dep : Ty) :
    DepsAdded g (depInStep ty idx g dep) ∧
    ∀ x y, (⟨x, y, .dep⟩ : Edge) ∈ (depInStep ty idx g dep).edges ↔
      (⟨x, y, .dep⟩ : Edge) ∈ g.edges ∨ (y = idx ∧ dep ≠ ty ∧ alGet g.defined dep = some x) := by
  unfold depInStep
  split
  · rename_i he
    exact ⟨DepsAdded.refl _, fun x y => ⟨Or.inl, fun h => h.elim id (fun h => absurd he h.2.1)⟩⟩
  · rename_i hne
    split
    · rename_i hd
      refine ⟨DepsAdded.refl _, fun x y => ⟨Or.inl, fun h => h.elim id (fun h => ?_)⟩⟩
      rw [hd] at h; cases h.2.2
    · rename_i d hd
      split
      · rename_i hh
        refine ⟨DepsAdded.refl _, fun x y => ⟨Or.inl, fun h => h.elim id (fun h => ?_)⟩⟩
        obtain ⟨rfl, _, h3⟩ := h
        rw [hd] at h3
        cases h3
        exact hasDep_iff.mp hh
      · refine ⟨DepsAdded.addEdge _ _ _, fun x y => ?_⟩
        rw [mem_addEdge]
        constructor
        · rintro (h | h)
          · cases h
            exact Or.inr ⟨rfl, hne, hd⟩
          · exact Or.inl h
        · rintro (h | ⟨rfl, _, h3⟩)
          · exact Or.inr h
          · rw [hd] at h3; cases h3; exact Or.inl rfl

theorem depsIn_spec (ty : Ty) (idx : Nat) : ∀ (vs : List Ty) (g : Graph),
    DepsAdded g (vs.foldl (depInStep ty idx) g) ∧
    ∀ x y, (⟨x, y, .dep⟩ : Edge) ∈ (vs.foldl (depInStep ty idx) g).edges ↔
      (⟨x, y, .dep⟩ : Edge) ∈ g.edges ∨ (y = idx ∧ ∃ u ∈ vs, u ≠ ty ∧ alGet g.defined u = some x)
  | [], g => ⟨DepsAdded.refl _, fun x y => ⟨Or.inl, fun h => h.elim id (fun h => by
      obtain ⟨_, u, hu, _⟩ := h; cases hu)⟩⟩
  | v :: r, g => by
    simp only [List.foldl_cons]
    obtain ⟨a1, b1⟩ := depInStep_spec ty idx g v
    obtain ⟨a2, b2⟩ := depsIn_spec ty idx r (depInStep ty idx g v)
    refine ⟨a1.trans a2, fun x y => ?_⟩
    rw [b2, b1, a1.defined]
    constructor
    · rintro ((h | ⟨h1, h2, h3⟩) | ⟨h1, u, hu, h2, h3⟩)
      · exact Or.inl h
      · exact Or.inr ⟨h1, v, List.mem_cons_self .., h2, h3⟩
      · exact Or.inr ⟨h1, u, List.mem_cons_of_mem _ hu, h2, h3⟩
    · rintro (h | ⟨h1, u, hu, h2, h3⟩)
      · exact Or.inl (Or.inl h)
      · rcases List.mem_cons.mp hu with rfl | hu
        · exact Or.inl (Or.inr ⟨h1, h2, h3⟩)
        · exact Or.inr ⟨h1, u, hu, h2, h3⟩

/-! ### the second loop: new node → every defined type that references it -/

theorem depOutStep_spec (ty : Ty) (idx o : Nat) (g : Graph) (v : Ty) :
    DepsAdded g (depOutStep ty idx o g v) ∧
    ∀ x y, (⟨x, y, .dep⟩ : Edge) ∈ (depOutStep ty idx o g v).edges ↔
      (⟨x, y, .dep⟩ : Edge) ∈ g.edges ∨ (x = idx ∧ y = o ∧ v = ty) := by
  unfold depOutStep
  split
  · rename_i hc
    simp only [Bool.and_eq_true, decide_eq_true_eq, Bool.not_eq_eq_eq_not, Bool.not_true] at hc
    refine ⟨DepsAdded.addEdge _ _ _, fun x y => ?_⟩
    rw [mem_addEdge]
    constructor
    · rintro (h | h)
      · cases h; exact Or.inr ⟨rfl, rfl, hc.1⟩
      · exact Or.inl h
    · rintro (h | ⟨rfl, rfl, _⟩)
      · exact Or.inr h
      · exact Or.inl rfl
  · rename_i hc
    refine ⟨DepsAdded.refl _, fun x y => ⟨Or.inl, fun h => h.elim id (fun h => ?_)⟩⟩
    obtain ⟨rfl, rfl, rfl⟩ := h
    simp only [Bool.and_eq_true, decide_eq_true_eq, Bool.not_eq_eq_eq_not, Bool.not_true, true_and,
      Bool.not_eq_false] at hc
    exact hasDep_iff.mp hc

theorem depsOutInner_spec (ty : Ty) (idx o : Nat) : ∀ (vs : List Ty) (g : Graph),
    DepsAdded g (vs.foldl (depOutStep ty idx o) g) ∧
    ∀ x y, (⟨x, y, .dep⟩ : Edge) ∈ (vs.foldl (depOutStep ty idx o) g).edges ↔
      (⟨x, y, .dep⟩ : Edge) ∈ g.edges ∨ (x = idx ∧ y = o ∧ ty ∈ vs)
  | [], g => ⟨DepsAdded.refl _, fun x y => ⟨Or.inl, fun h => h.elim id (fun h => nomatch h.2.2)⟩⟩
  | v :: r, g => by
    simp only [List.foldl_cons]
    obtain ⟨a1, b1⟩ := depOutStep_spec ty idx o g v
    obtain ⟨a2, b2⟩ := depsOutInner_spec ty idx o r (depOutStep ty idx o g v)
    refine ⟨a1.trans a2, fun x y => ?_⟩
    rw [b2, b1]
    constructor
    · rintro ((h | ⟨h1, h2, h3⟩) | ⟨h1, h2, h3⟩)
      · exact Or.inl h
      · exact Or.inr ⟨h1, h2, by rw [h3]; exact List.mem_cons_self ..⟩
      · exact Or.inr ⟨h1, h2, List.mem_cons_of_mem _ h3⟩
    · rintro (h | ⟨h1, h2, h3⟩)
      · exact Or.inl (Or.inl h)
      · rcases List.mem_cons.mp h3 with rfl | h3
        · exact Or.inl (Or.inr ⟨h1, h2, rfl⟩)
        · exact Or.inr ⟨h1, h2, h3⟩

theorem depsOut_spec (ctx : Ctx) (ty : Ty) (idx : Nat) : ∀ (order : List (Ty × Nat)) (g : Graph),
    DepsAdded g (order.foldl (fun g e => (ctx.tyVisits e.1).foldl (depOutStep ty idx e.2) g) g) ∧
    ∀ x y, (⟨x, y, .dep⟩ : Edge) ∈ (order.foldl (fun g e => (ctx.tyVisits e.1).foldl (depOutStep ty idx e.2) g) g).edges ↔
      (⟨x, y, .dep⟩ : Edge) ∈ g.edges ∨ (x = idx ∧ ∃ e ∈ order, e.2 = y ∧ ty ∈ ctx.tyVisits e.1)
  | [], g => ⟨DepsAdded.refl _, fun x y => ⟨Or.inl, fun h => h.elim id (fun h => by
      obtain ⟨_, e, he, _⟩ := h; cases he)⟩⟩
  | e :: r, g => by
    simp only [List.foldl_cons]
    obtain ⟨a1, b1⟩ := depsOutInner_spec ty idx e.2 (ctx.tyVisits e.1) g
    obtain ⟨a2, b2⟩ := depsOut_spec ctx ty idx r ((ctx.tyVisits e.1).foldl (depOutStep ty idx e.2) g)
    refine ⟨a1.trans a2, fun x y => ?_⟩
    rw [b2, b1]
    constructor
    · rintro ((h | ⟨h1, h2, h3⟩) | ⟨h1, e', he', h2, h3⟩)
      · exact Or.inl h
      · exact Or.inr ⟨h1, e, List.mem_cons_self .., h2.symm, h3⟩
      · exact Or.inr ⟨h1, e', List.mem_cons_of_mem _ he', h2, h3⟩
    · rintro (h | ⟨h1, e', he', h2, h3⟩)
      · exact Or.inl (Or.inl h)
      · rcases List.mem_cons.mp he' with rfl | he'
        · exact Or.inl (Or.inr ⟨h1, h2.symm, h3⟩)
        · exact Or.inr ⟨h1, e', he', h2, h3⟩

/-! ### `define_type` -/

theorem abs_defineType {ctx : Ctx} {g g' : Graph} {name : Str} {ty : Ty} {out : Outcome}
    (h : Inv ctx g) (hs : defineType ctx g name ty = (g', out)) :
    specStep ctx g.fresh (abs g) (.defineType name ty) = (abs g', out) := by
  unfold defineType defineTypeWith at hs
  simp only [specStep]
  have e1 : (abs g).defined ty = alGet g.defined ty := rfl
  have e2 : (abs g).exports name = alGet g.exports name := rfl
  rw [e1, e2]
  split at hs
  · rename_i h1
    rw [if_pos h1]; cases hs; rfl
  · rename_i h1
    rw [if_neg h1]
    split at hs
    · rename_i h2
      rw [if_pos h2]; cases hs; rfl
    · rename_i h2
      rw [if_neg h2]
      split at hs
      · rename_i h3
        rw [if_pos h3]; cases hs; rfl
      · rename_i h3
        rw [if_neg h3]
        split at hs
        · rename_i h4
          rw [if_pos h4]; cases hs; rfl
        · rename_i h4
          rw [if_neg h4]
          simp only [Prod.mk.injEq, id_eq] at hs ⊢
          obtain ⟨hg, ho⟩ := hs
          have a := added_of_addNode h ⟨.definition ty, none, ctx.tyKind ty, none, some name⟩
          have hl := addNode_len h.free ⟨.definition ty, none, ctx.tyKind ty, none, some name⟩
          have hf := addNode_fresh g ⟨.definition ty, none, ctx.tyKind ty, none, some name⟩
          rw [hf] at ho hg a
          refine ⟨?_, ho⟩
          generalize (g.addNode ⟨.definition ty, none, ctx.tyKind ty, none, some name⟩).1 = g1 at a hl hg
          rw [defineDepsOut_eq, defineDepsIn_eq] at hg
          obtain ⟨a1, b1⟩ := depsIn_spec ty g.fresh.node (ctx.tyVisits ty) g1
          obtain ⟨a2, b2⟩ := depsOut_spec ctx ty g.fresh.node g.defined
            ((ctx.tyVisits ty).foldl (depInStep ty g.fresh.node) g1)
          have a3 := a1.trans a2
          generalize (g.defined.foldl (fun gg e => (ctx.tyVisits e.1).foldl (depOutStep ty g.fresh.node e.2) gg)
            ((ctx.tyVisits ty).foldl (depInStep ty g.fresh.node) g1)) = g3 at a2 b2 a3 hg
          obtain ⟨ds, hds, hdk⟩ := a3.edges
          have hb := abs_added a hl
          rw [← hg]
          refine Abs.ext' ?_ ?_ ?_ ?_ ?_ ?_ ?_ ?_ ?_ ?_
          · show _ = g3.nodes.length
            rw [a3.nodes, hl]; rfl
          · funext m
            show _ = (g3.node? m).map Node.abs
            rw [node?_congr a3.nodes]
            show _ = (abs g1).node m
            rw [hb]; rfl
          · funext x y
            show _ = argOfE g3.edges x y
            rw [hds, argOfE_append_nonarg (fun e he => by rw [hdk e he]; rfl), a.edges]
            rfl
          · funext t
            show _ = aliasOfE g3.edges t
            rw [hds, aliasOfE_append_nonalias (fun e he => by rw [hdk e he]; rfl), a.edges]
            rfl
          · funext x y
            show _ = g3.hasDep x y
            apply bool_ext_iff
            rw [hasDep_iff, b2, b1, a.edges, a.defined]
            simp only [Bool.or_eq_true, Bool.and_eq_true, beq_iff_eq, List.any_eq_true, bne_iff_ne, ne_eq]
            have hdep0 : (abs g).dep x y = true ↔ (⟨x, y, .dep⟩ : Edge) ∈ g.edges := abs_dep
            rw [hdep0]
            have hdefd : ∀ u, (abs g).defined u = alGet g.defined u := fun _ => rfl
            -- the defined types that reference `ty`, seen from their nodes
            have hrev : (∃ e ∈ g.defined, e.2 = y ∧ ty ∈ ctx.tyVisits e.1) ↔
                (match (abs g).node y with
                  | some nd => (match nd.kind with
                    | .definition t => (ctx.tyVisits t).contains ty
                    | _ => false)
                  | none => false) = true := by
              constructor
              · rintro ⟨e, he, hy, hv⟩
                obtain ⟨nd, hnd, hk⟩ := h.definedLive' e he
                rw [hy] at hnd
                rw [abs_node_some hnd]
                simp only [Node.abs, hk, NodeKind.abs]
                simpa using hv
              · intro hm
                cases hq : g.node? y with
                | none => rw [abs_node_none hq] at hm; cases hm
                | some nd =>
                  rw [abs_node_some hq] at hm
                  cases hk : nd.kind with
                  | definition t =>
                    simp only [Node.abs, hk, NodeKind.abs] at hm
                    have hd := (h.node hq).2.1
                    rw [hk] at hd
                    exact ⟨(t, y), alGet_eq_some_mem hd.1, rfl, by simpa using hm⟩
                  | «import» nm => simp [Node.abs, hk, NodeKind.abs] at hm
                  | instantiation s => simp [Node.abs, hk, NodeKind.abs] at hm
                  | alias => simp [Node.abs, hk, NodeKind.abs] at hm
            rw [hrev]
            constructor
            · rintro ((h1 | ⟨h1, u, hu, h2, h3⟩) | ⟨h1, h2⟩)
              · exact Or.inl (Or.inl h1)
              · exact Or.inl (Or.inr ⟨h1, u, hu, h2, by rw [hdefd] at h3; simpa using h3⟩)
              · exact Or.inr ⟨h1, h2⟩
            · rintro ((h1 | ⟨h1, u, hu, h2, h3⟩) | ⟨h1, h2⟩)
              · exact Or.inl (Or.inl h1)
              · exact Or.inl (Or.inr ⟨h1, u, hu, h2, by rw [hdefd]; simpa using h3⟩)
              · exact Or.inr ⟨h1, h2⟩
          · show _ = alGet (alInsert g3.exports name g.fresh.node)
            rw [alGet_alInsert_upd, a3.exports, a.exports]; rfl
          · show _ = alGet g3.imports
            rw [a3.imports, a.imports]; rfl
          · show _ = alGet (alInsert g3.defined ty g.fresh.node)
            rw [alGet_alInsert_upd, a3.defined, a.defined]; rfl
          · funext id
            show _ = (g3.pkgOf id).toOption
            rw [pkgOf_congr a3.pkgs, pkgOf_congr a.pkgs]; rfl
          · show _ = alGet g3.pkgMap
            rw [a3.pkgMap, a.pkgMap]; rfl

end Wac.Graph
