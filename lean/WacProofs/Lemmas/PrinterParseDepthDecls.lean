import WacProofs.Lemmas.PrinterParseDepthTypes
/-
  C13, nesting limit of the printed tokens: resources, variants, records, flags, enums, type
  aliases, `TypeDecl`, `ItemTypeDecl`.

  `resource r;` is printed as `resource r { }`: the printer writes a bracket pair the parser did
  not consume, so `parseResourceDecl` (and `parseItemTypeDecl`) carry the precondition
  `d + 1 ≤ 128` on the counter `d` at the start of the declaration.
-/
namespace Wac.Lemmas.PrinterDepth
open Wac Wac.Ast Wac.Lex Wac.Parse Wac.PrintTok

theorem parseConstructor_dp (fuel : Nat) {st : PState} {d : Nat} (hd : st.depth = d) :
    Post (parseConstructor fuel st) (Bal d constructor) := by
  unfold parseConstructor
  dsimp only
  pbind parseToken_nb hd => kw st1 hd1
  pbind parseToken_op hd1 => _ st2 ⟨hd2, htd⟩
  pbind parseDelimited_post _ _ _ (fun _ h => parseNamedType_dp fuel h) fuel hd2 => ps st3 ⟨hd3, hps⟩
  pbind parseToken_cl hd3 => _ st4 hd4
  pbind parseToken_nb hd4 => _ st5 hd5
  refine Post_ok ⟨hd5, ?_⟩
  have hp := Steps_namedTypes ps true hps
  unfold constructor
  dsimp only
  steps

theorem parseMethod_dp (fuel : Nat) {st : PState} {d : Nat} (hd : st.depth = d) :
    Post (parseMethod fuel st) (Bal d method) := by
  unfold parseMethod
  dsimp only
  pbind parseIdent_post hd => id st1 hd1
  pbind parseToken_nb hd1 => _ st2 hd2
  have hd3 : (if peekIs st2 .StaticKeyword = true then st2.next.2 else st2).depth = d := by
    split
    · rename_i hp; rw [next_depth_nb (peekIs_peekTok hp), hd2]
    · exact hd2
  pbind parseFuncType_dp fuel hd3 => f st4 ⟨hd4, hf⟩
  pbind parseToken_nb hd4 => _ st5 hd5
  refine Post_ok ⟨hd5, ?_⟩
  unfold method
  dsimp only
  cases peekIs st2 .StaticKeyword
  · show Steps d (dident (parseDocs st) id :: colon :: [] ++ funcType f ++ [semi]) d
    steps
  · show Steps d (dident (parseDocs st) id :: colon :: [kw .StaticKeyword "static"] ++ funcType f ++ [semi]) d
    steps

theorem parseResourceMethod_dp (fuel : Nat) {st : PState} {d : Nat} (hd : st.depth = d) :
    Post (parseResourceMethod fuel st) (Bal d resourceMethod) := by
  unfold parseResourceMethod
  split
  · pbind parseConstructor_dp fuel hd => c st1 ⟨hd1, hc⟩
    exact Post_ok ⟨hd1, hc⟩
  · pbind parseMethod_dp fuel hd => m st1 ⟨hd1, hm⟩
    exact Post_ok ⟨hd1, hm⟩
  · exact Post_error

/-- `resource r;` is printed as `resource r { }`: needs room for one more bracket -/
theorem parseResourceDecl_dp (fuel : Nat) {st : PState} {d : Nat} (hd : st.depth = d)
    (hb : d + 1 ≤ 128) : Post (parseResourceDecl fuel st) (Bal d resourceDecl) := by
  unfold parseResourceDecl
  dsimp only
  pbind parseToken_nb hd => _ st1 hd1
  pbind parseIdent_post hd1 => id st2 hd2
  split
  · rename_i hp
    refine Post_ok ⟨by rw [next_depth_nb hp, hd2], ?_⟩
    unfold resourceDecl
    dsimp only
    show Steps d (dkw (parseDocs st) .ResourceKeyword "resource" :: ident id :: obrace :: [] ++ [cbrace]) d
    steps
  · pbind parseToken_op hd2 => _ st3 ⟨hd3, htd⟩
    pbind parseDelimited_post _ _ _ (fun _ h => (parseResourceMethod_dp fuel h)) fuel hd3 =>
      ms st4 ⟨hd4, hms⟩
    pbind parseToken_cl hd4 => _ st5 hd5
    refine Post_ok ⟨hd5, ?_⟩
    have hm := Steps.flatMap hms
    unfold resourceDecl
    dsimp only
    steps
  · exact Post_error

theorem parseVariantCase_dp (fuel : Nat) {st : PState} {d : Nat} (hd : st.depth = d) :
    Post (parseVariantCase fuel st) (Bal d variantCase) := by
  unfold parseVariantCase
  dsimp only
  pbind parseIdent_post hd => id st1 hd1
  refine Post_bind (parseOptional_post (P := fun (r : Option Ty) st' =>
      st'.depth = d ∧ ∀ t, r = some t → tooDeep (d + 1) = false ∧ Steps (d + 1) (ty t) (d + 1)) ?_ ?_) ?_
  · exact ⟨hd1, fun _ h => by cases h⟩
  · intro _ sa hsa
    obtain ⟨hda, htd⟩ := parseToken_op hd1 (by decide) _ sa hsa
    pbind parseType_dp fuel hda => t sb ⟨hdb, ht⟩
    pbind parseToken_cl hdb => _ sc hdc
    exact Post_ok ⟨hdc, fun t' h => by cases h; exact ⟨htd, ht⟩⟩
  · rintro r st2 ⟨hd2, hr⟩
    dsimp only
    refine Post_ok ⟨hd2, ?_⟩
    unfold variantCase
    dsimp only
    cases r with
    | none => dsimp only; steps
    | some t => obtain ⟨htd, ht⟩ := hr t rfl; dsimp only; steps

theorem parseVariantDecl_dp (fuel : Nat) {st : PState} {d : Nat} (hd : st.depth = d) :
    Post (parseVariantDecl fuel st) (Bal d variantDecl) := by
  unfold parseVariantDecl
  dsimp only
  pbind parseToken_nb hd => _ st1 hd1
  pbind parseIdent_post hd1 => id st2 hd2
  pbind parseToken_op hd2 => _ st3 ⟨hd3, htd⟩
  pbind parseDelimited_post _ _ _ (fun _ h => (parseVariantCase_dp fuel h)) fuel hd3 => cs st4 ⟨hd4, hcs⟩
  pbind parseToken_cl hd4 => _ st5 hd5
  split
  · exact Post_error
  · refine Post_ok ⟨hd5, ?_⟩
    have hc : Steps (d + 1) (cs.flatMap (fun c => variantCase c ++ [comma])) (d + 1) :=
      Steps.flatMap (fun c hc => by have := hcs c hc; steps)
    unfold variantDecl
    dsimp only
    steps

theorem parseField_dp (fuel : Nat) {st : PState} {d : Nat} (hd : st.depth = d) :
    Post (parseField fuel st) (fun f st' => st'.depth = d ∧ Steps d (ty f.ty) d) := by
  unfold parseField
  dsimp only
  pbind parseNamedType_dp fuel hd => n st1 ⟨hd1, hn⟩
  exact Post_ok ⟨hd1, hn⟩

theorem parseRecordDecl_dp (fuel : Nat) {st : PState} {d : Nat} (hd : st.depth = d) :
    Post (parseRecordDecl fuel st) (Bal d recordDecl) := by
  unfold parseRecordDecl
  dsimp only
  pbind parseToken_nb hd => _ st1 hd1
  pbind parseIdent_post hd1 => id st2 hd2
  pbind parseToken_op hd2 => _ st3 ⟨hd3, htd⟩
  pbind parseDelimited_post _ _ _ (fun _ h => (parseField_dp fuel h)) fuel hd3 => fs st4 ⟨hd4, hfs⟩
  pbind parseToken_cl hd4 => _ st5 hd5
  split
  · exact Post_error
  · refine Post_ok ⟨hd5, ?_⟩
    have hc : Steps (d + 1)
        (fs.flatMap (fun f => dident f.docs f.id :: colon :: ty f.ty ++ [comma])) (d + 1) :=
      Steps.flatMap (fun f hf => by have := hfs f hf; steps)
    unfold recordDecl
    dsimp only
    steps

theorem parseFlag_dp {st : PState} {d : Nat} (hd : st.depth = d) :
    Post (parseFlag st) (fun _ st' => st'.depth = d ∧ True) := by
  unfold parseFlag
  dsimp only
  pbind parseIdent_post hd => id st1 hd1
  exact Post_ok ⟨hd1, trivial⟩

theorem parseFlagsDecl_dp (fuel : Nat) {st : PState} {d : Nat} (hd : st.depth = d) :
    Post (parseFlagsDecl fuel st) (Bal d flagsDecl) := by
  unfold parseFlagsDecl
  dsimp only
  pbind parseToken_nb hd => _ st1 hd1
  pbind parseIdent_post hd1 => id st2 hd2
  pbind parseToken_op hd2 => _ st3 ⟨hd3, htd⟩
  pbind parseDelimited_post _ _ _ (fun _ h => (parseFlag_dp h)) fuel hd3 => fs st4 ⟨hd4, _⟩
  pbind parseToken_cl hd4 => _ st5 hd5
  split
  · exact Post_error
  · refine Post_ok ⟨hd5, ?_⟩
    have hc : Steps (d + 1) (fs.flatMap (fun f => [dident f.docs f.id, comma])) (d + 1) :=
      Steps.flatMap (fun f _ => by steps)
    unfold flagsDecl
    dsimp only
    steps

theorem parseEnumCase_dp {st : PState} {d : Nat} (hd : st.depth = d) :
    Post (parseEnumCase st) (fun _ st' => st'.depth = d ∧ True) := by
  unfold parseEnumCase
  dsimp only
  pbind parseIdent_post hd => id st1 hd1
  exact Post_ok ⟨hd1, trivial⟩

theorem parseEnumDecl_dp (fuel : Nat) {st : PState} {d : Nat} (hd : st.depth = d) :
    Post (parseEnumDecl fuel st) (Bal d enumDecl) := by
  unfold parseEnumDecl
  dsimp only
  pbind parseToken_nb hd => _ st1 hd1
  pbind parseIdent_post hd1 => id st2 hd2
  pbind parseToken_op hd2 => _ st3 ⟨hd3, htd⟩
  pbind parseDelimited_post _ _ _ (fun _ h => (parseEnumCase_dp h)) fuel hd3 => cs st4 ⟨hd4, _⟩
  pbind parseToken_cl hd4 => _ st5 hd5
  split
  · exact Post_error
  · refine Post_ok ⟨hd5, ?_⟩
    have hc : Steps (d + 1) (cs.flatMap (fun c => [dident c.docs c.id, comma])) (d + 1) :=
      Steps.flatMap (fun c _ => by steps)
    unfold enumDecl
    dsimp only
    steps

theorem parseTypeAliasKind_dp (fuel : Nat) {st : PState} {d : Nat} (hd : st.depth = d) :
    Post (parseTypeAliasKind fuel st) (Bal d (fun k => match k with
      | .Func f => funcType f
      | .Type' t => ty t)) := by
  unfold parseTypeAliasKind
  split
  · pbind parseFuncType_dp fuel hd => f st1 ⟨hd1, hf⟩
    exact Post_ok ⟨hd1, hf⟩
  · split
    · pbind parseType_dp fuel hd => t st1 ⟨hd1, ht⟩
      exact Post_ok ⟨hd1, ht⟩
    · exact Post_error

theorem parseTypeAlias_dp (fuel : Nat) {st : PState} {d : Nat} (hd : st.depth = d) :
    Post (parseTypeAlias fuel st) (Bal d typeAlias) := by
  unfold parseTypeAlias
  dsimp only
  pbind parseToken_nb hd => _ st1 hd1
  pbind parseIdent_post hd1 => id st2 hd2
  pbind parseToken_nb hd2 => _ st3 hd3
  pbind parseTypeAliasKind_dp fuel hd3 => k st4 ⟨hd4, hk⟩
  pbind parseToken_nb hd4 => _ st5 hd5
  refine Post_ok ⟨hd5, ?_⟩
  unfold typeAlias
  dsimp only at hk ⊢
  steps

theorem parseTypeDecl_dp (fuel : Nat) {st : PState} {d : Nat} (hd : st.depth = d) :
    Post (parseTypeDecl fuel st) (Bal d typeDecl) := by
  unfold parseTypeDecl
  split
  · pbind parseVariantDecl_dp fuel hd => x st1 ⟨hd1, hx⟩
    exact Post_ok ⟨hd1, hx⟩
  · pbind parseRecordDecl_dp fuel hd => x st1 ⟨hd1, hx⟩
    exact Post_ok ⟨hd1, hx⟩
  · pbind parseFlagsDecl_dp fuel hd => x st1 ⟨hd1, hx⟩
    exact Post_ok ⟨hd1, hx⟩
  · pbind parseEnumDecl_dp fuel hd => x st1 ⟨hd1, hx⟩
    exact Post_ok ⟨hd1, hx⟩
  · pbind parseTypeAlias_dp fuel hd => x st1 ⟨hd1, hx⟩
    exact Post_ok ⟨hd1, hx⟩
  · exact Post_error

theorem parseItemTypeDecl_dp (fuel : Nat) {st : PState} {d : Nat} (hd : st.depth = d)
    (hb : d + 1 ≤ 128) : Post (parseItemTypeDecl fuel st) (Bal d itemTypeDecl) := by
  unfold parseItemTypeDecl
  split
  · pbind parseResourceDecl_dp fuel hd hb => x st1 ⟨hd1, hx⟩
    exact Post_ok ⟨hd1, hx⟩
  · pbind parseVariantDecl_dp fuel hd => x st1 ⟨hd1, hx⟩
    exact Post_ok ⟨hd1, hx⟩
  · pbind parseRecordDecl_dp fuel hd => x st1 ⟨hd1, hx⟩
    exact Post_ok ⟨hd1, hx⟩
  · pbind parseFlagsDecl_dp fuel hd => x st1 ⟨hd1, hx⟩
    exact Post_ok ⟨hd1, hx⟩
  · pbind parseEnumDecl_dp fuel hd => x st1 ⟨hd1, hx⟩
    exact Post_ok ⟨hd1, hx⟩
  · pbind parseTypeAlias_dp fuel hd => x st1 ⟨hd1, hx⟩
    exact Post_ok ⟨hd1, hx⟩
  · exact Post_error

end Wac.Lemmas.PrinterDepth
