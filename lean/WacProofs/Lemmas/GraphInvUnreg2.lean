import WacProofs.Lemmas.GraphInvUnreg
import WacProofs.Lemmas.Graph
/-
  `unregister_package` preserves `Inv`: (A) the nodes of the package go (`inv_removed_set`),
  (B) the slot is vacated (`inv_vacate`).
-/
namespace Wac.Graph
open Wac Wac.HashSites

theorem retainNotPkg_eq {κ : Type} {g : Graph} {m r : List (κ × Nat)} {id : PkgId}
    (h : retainNotPkg g m id = some r) : r = m.filter (fun e => !g.nodePkgIs e.2 id) := by
  unfold retainNotPkg at h
  split at h
  · simp only [Option.some.injEq] at h; exact h.symm
  · cases h

/-- the selection of `unregister_package`'s clearing pass -/
def unregSel (g : Graph) (id : PkgId) (e : Edge) : Bool := g.nodePkgIs e.src id && !g.nodePkgIs e.dst id

/-- the state after the maps were filtered and the nodes of the package removed -/
def unregMid (g g1 : Graph) (id : PkgId) : Graph :=
  retainNodes
    { g1 with
      exports := g.exports.filter (fun e => !g.nodePkgIs e.2 id)
      defined := g.defined.filter (fun e => !g.nodePkgIs e.2 id)
      imports := g.imports.filter (fun e => !g.nodePkgIs e.2 id) } id

/-- the final package-table update -/
def vacate (g2 : Graph) (g : Graph) (id : PkgId) (d : PkgDef) (gen : Nat) : Graph :=
  { g2 with
    pkgMap := alErase g.pkgMap d.key
    pkgs := g.pkgs.set id.index ⟨none, gen + 1⟩
    freePkgs := id.index :: g.freePkgs }

/-- the shape of a successful `unregister_package` -/
theorem unregister_full {g g' : Graph} {id : PkgId} (h : unregisterPackage .fixed g id = (g', .ok .unit)) :
    ∃ slot d g1, g.pkgs[id.index]? = some slot ∧ slot.gen = id.gen ∧ slot.pkg = some d ∧
      clearSatEdges g (unregSel g id) g.edges = .ok g1 ∧
      (alGet g.pkgMap d.key).isSome = true ∧
      g' = vacate (unregMid g g1 id) g id d slot.gen := by
  unfold unregisterPackage at h
  split at h
  · simp at h
  · rename_i slot hslot
    split at h
    · simp at h
    · rename_i hgen
      split at h
      · rename_i ex de im hex hde him
        dsimp only at h
        split at h
        · simp at h
        · rename_i g1 hc
          simp only [Legacy.fixed, Bool.false_eq_true, ↓reduceIte] at hc
          split at h
          · simp at h
          · rename_i d hd
            split at h
            · simp at h
            · rename_i hkey
              simp only [Prod.mk.injEq, and_true] at h
              have e1 := retainNotPkg_eq hex
              have e2 := retainNotPkg_eq hde
              have e3 := retainNotPkg_eq him
              have c := clearSatEdges_spec _ _ _ _ hc
              have rs := retainNodes_pkgFrame { g1 with exports := ex, defined := de, imports := im } id
              refine ⟨slot, d, g1, hslot, by simpa using hgen, hd, hc, ?_, ?_⟩
              · have : (retainNodes { g1 with exports := ex, defined := de, imports := im } id).pkgMap = g.pkgMap := by
                  rw [rs.2.1]; exact c.pkgMap
                rw [this] at hkey
                cases hq : alGet g.pkgMap d.key with
                | none => simp [hq] at hkey
                | some v => rfl
              · rw [← h, e1, e2, e3]
                have fr := retainNodes_pkgFrame
                  { g1 with
                    exports := g.exports.filter (fun e => !g.nodePkgIs e.2 id)
                    defined := g.defined.filter (fun e => !g.nodePkgIs e.2 id)
                    imports := g.imports.filter (fun e => !g.nodePkgIs e.2 id) } id
                unfold vacate unregMid
                rw [fr.2.1, fr.1, fr.2.2]
                simp only [c.pkgMap, c.pkgs, c.freePkgs]
      · simp at h

end Wac.Graph
