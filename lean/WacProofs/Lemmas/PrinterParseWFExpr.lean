import WacProofs.Lemmas.PrinterParseWFTypes
/-
  C13, "every tree the parser model returns is well-formed": expressions (`parseExpr`,
  `parsePrimaryExpr`, `parseInstantiationArgument`, by simultaneous induction on the fuel), the
  postfix loop, `let`/`export` statements, extern names.
-/
namespace Wac.Lemmas.PrinterWF
open Wac Wac.Ast Wac.Lex Wac.Parse

/-- well-formedness of one instantiation argument (the head condition of `wfArgs`) -/
def argWf : InstantiationArgument → Bool
  | .Inferred id => id.wf
  | .Spread id => id.wf
  | .Named (.mk name e) => name.wf && e.wf
  | .Fill _ => true

theorem wfArgs_cons (a : InstantiationArgument) (r : List InstantiationArgument) :
    wfArgs (a :: r) = (argWf a && wfArgs r) := by
  cases a with
  | Inferred id => rfl
  | Spread id => rfl
  | Named n => cases n; rfl
  | Fill sp => rfl

theorem wfArgs_of_forall (as : List InstantiationArgument) (h : ∀ a ∈ as, argWf a = true) :
    wfArgs as = true := by
  induction as with
  | nil => rfl
  | cons a r ih =>
    rw [wfArgs_cons, h a (List.mem_cons_self ..), ih (fun x hx => h x (List.mem_cons_of_mem _ hx))]
    rfl

theorem Expr.wf_mk (sp : Span) (p : PrimaryExpr) (post : List PostfixExpr) :
    (Expr.mk sp p post).wf = (p.wf && post.all PostfixExpr.wf) := by rfl
theorem PrimaryExpr.wf_New (sp : Span) (pk : PackageName) (as : List InstantiationArgument) :
    (PrimaryExpr.New (.mk sp pk as)).wf = (pk.wf && wfArgs as) := by rfl
theorem PrimaryExpr.wf_Nested (sp : Span) (e : Expr) : (PrimaryExpr.Nested (.mk sp e)).wf = e.wf := by rfl
theorem PrimaryExpr.wf_Ident (id : Ident) : (PrimaryExpr.Ident id).wf = id.wf := by rfl

theorem parseInstantiationArgumentName_post {st : PState} (hst : ToksOK st) :
    Post (parseInstantiationArgumentName st) (fun n => n.wf = true) := by
  unfold parseInstantiationArgumentName
  split
  · pbind parseIdent_post hst => id st1 hid hst1
    exact Post_ok (by simpa [InstantiationArgumentName.wf] using hid) hst1
  · pbind parseString_post hst => s st1 hs hst1
    exact Post_ok (by simpa [InstantiationArgumentName.wf] using hs) hst1
  · exact Post_error

theorem parseAccessExpr_post {st : PState} (hst : ToksOK st) :
    Post (parseAccessExpr st) (fun a => a.id.wf = true) := by
  unfold parseAccessExpr
  pbind parseToken_post _ hst => _ st1 _ hst1
  pbind parseIdent_post hst1 => id st2 hid hst2
  exact Post_ok hid hst2

theorem parseNamedAccessExpr_post {st : PState} (hst : ToksOK st) :
    Post (parseNamedAccessExpr st) (fun a => a.string.wf = true) := by
  unfold parseNamedAccessExpr
  pbind parseToken_post _ hst => _ st1 _ hst1
  pbind parseString_post hst1 => s st2 hs hst2
  pbind parseToken_post _ hst2 => _ st3 _ hst3
  exact Post_ok hs hst3

theorem parsePostfix_post : ∀ (fuel : Nat) {st : PState}, ToksOK st →
    Post (parsePostfix fuel st) (fun ps => ps.all PostfixExpr.wf = true) := by
  intro fuel
  induction fuel with
  | zero => intro st _; unfold parsePostfix; exact Post_error
  | succ fuel ih =>
    intro st hst
    unfold parsePostfix
    split
    · pbind parseAccessExpr_post hst => a st1 ha hst1
      pbind ih hst1 => r st2 hr hst2
      exact Post_ok (by simp only [List.all_cons, PostfixExpr.wf, ha, hr]; rfl) hst2
    · pbind parseNamedAccessExpr_post hst => a st1 ha hst1
      pbind ih hst1 => r st2 hr hst2
      exact Post_ok (by simp only [List.all_cons, PostfixExpr.wf, ha, hr]; rfl) hst2
    · exact Post_ok rfl hst

theorem parseExpr_mutual_post : ∀ (fuel : Nat),
    (∀ {st : PState}, ToksOK st → Post (parseExpr fuel st) (fun e => e.wf = true)) ∧
    (∀ {st : PState}, ToksOK st → Post (parsePrimaryExpr fuel st) (fun e => e.wf = true)) ∧
    (∀ {st : PState}, ToksOK st → Post (parseInstantiationArgument fuel st) (fun a => argWf a = true)) := by
  intro fuel
  induction fuel with
  | zero =>
    refine ⟨?_, ?_, ?_⟩
    · intro st _; unfold parseExpr; exact Post_error
    · intro st _; unfold parsePrimaryExpr; exact Post_error
    · intro st _; unfold parseInstantiationArgument; exact Post_error
  | succ fuel ih =>
    obtain ⟨ihE, ihP, ihA⟩ := ih
    refine ⟨?_, ?_, ?_⟩
    · intro st hst
      unfold parseExpr
      pbind ihP hst => p st1 hp hst1
      pbind parsePostfix_post _ hst1 => post st2 hpost hst2
      exact Post_ok (by rw [Expr.wf_mk, hp, hpost]; rfl) hst2
    · intro st hst
      unfold parsePrimaryExpr
      split
      · pbind parseToken_post _ hst => _ st1 _ hst1
        pbind parsePackageName_post hst1 => pk st2 hpk hst2
        pbind parseToken_post _ hst2 => _ st3 _ hst3
        pbind parseDelimited_post _ _ _ (fun _ h => ihA h) _ hst3 => as st4 has hst4
        pbind parseToken_post _ hst4 => _ st5 _ hst5
        exact Post_ok (by rw [PrimaryExpr.wf_New, hpk, wfArgs_of_forall _ has]; rfl) hst5
      · pbind parseToken_post _ hst => _ st1 _ hst1
        pbind ihE hst1 => e st2 he hst2
        pbind parseToken_post _ hst2 => _ st3 _ hst3
        exact Post_ok (by rw [PrimaryExpr.wf_Nested]; exact he) hst3
      · pbind parseIdent_post hst => id st1 hid hst1
        exact Post_ok (by rw [PrimaryExpr.wf_Ident]; exact hid) hst1
      · exact Post_error
    · intro st hst
      unfold parseInstantiationArgument
      split
      · pbind parseToken_post _ hst => e st1 _ hst1
        split
        · exact Post_ok rfl hst1
        · pbind parseIdent_post hst1 => id st2 hid hst2
          exact Post_ok hid hst2
      · split
        · split
          · pbind parseInstantiationArgumentName_post hst => n st1 hn hst1
            pbind parseToken_post _ hst1 => _ st2 _ hst2
            pbind ihE hst2 => e st3 he hst3
            exact Post_ok (by show (n.wf && e.wf) = true; rw [hn, he]; rfl) hst3
          · pbind parseIdent_post hst => id st1 hid hst1
            exact Post_ok hid hst1
        · exact Post_error
      · exact Post_error

theorem parseExpr_post (fuel : Nat) {st : PState} (hst : ToksOK st) :
    Post (parseExpr fuel st) (fun e => e.wf = true) := (parseExpr_mutual_post fuel).1 hst

/-! ### `let`, `export` -/

theorem parseLetStatement_post (fuel : Nat) {st : PState} (hst : ToksOK st) :
    Post (parseLetStatement fuel st) (fun s => s.wf = true) := by
  unfold parseLetStatement
  pbind parseToken_post _ hst => _ st1 _ hst1
  pbind parseIdent_post hst1 => id st2 hid hst2
  pbind parseToken_post _ hst2 => _ st3 _ hst3
  pbind parseExpr_post fuel hst3 => e st4 he hst4
  pbind parseToken_post _ hst4 => _ st5 _ hst5
  exact Post_ok (by simp [LetStatement.wf, hid, he]) hst5

theorem parseExternName_post {st : PState} (hst : ToksOK st) :
    Post (parseExternName st) (fun n => n.wf = true) := by
  unfold parseExternName
  split
  · pbind parseIdent_post hst => id st1 hid hst1
    exact Post_ok (by simpa [ExternName.wf] using hid) hst1
  · pbind parseString_post hst => s st1 hs hst1
    exact Post_ok (by simpa [ExternName.wf] using hs) hst1
  · exact Post_error

theorem parseExportOptions_post {st : PState} (hst : ToksOK st) :
    Post (parseExportOptions st) (fun o => o.wf = true) := by
  unfold parseExportOptions
  split
  · pbind parseToken_post _ hst => e st1 _ hst1
    exact Post_ok rfl hst1
  · split
    · pbind parseToken_post _ hst => _ st1 _ hst1
      pbind parseExternName_post hst1 => n st2 hn hst2
      exact Post_ok (by simpa [ExportOptions.wf] using hn) hst2
    · exact Post_ok rfl hst

theorem parseExportStatement_post (fuel : Nat) {st : PState} (hst : ToksOK st) :
    Post (parseExportStatement fuel st) (fun s => s.wf = true) := by
  unfold parseExportStatement
  pbind parseToken_post _ hst => _ st1 _ hst1
  pbind parseExpr_post fuel hst1 => e st2 he hst2
  pbind parseExportOptions_post hst2 => o st3 ho hst3
  pbind parseToken_post _ hst3 => _ st4 _ hst4
  exact Post_ok (by simp [ExportStatement.wf, he, ho]) hst4

end Wac.Lemmas.PrinterWF
