import WacModel.Spec.Merge
import WacProofs.Lemmas.Sub
/-
  Specification-side facts for C09: on the covariant fragment (instances, `type` items and the
  kinds compared by equality — no component or core-module types) the merge `meet a b`, when it
  exists, is a lower bound of `a` and `b` in the subtype relation.
-/
namespace Wac.Spec
open Wac

/-! ### forests: distinct keys only -/

def keysNd : Forest → Bool
  | .nil => true
  | .cons n _ r => !r.hasName n && keysNd r

theorem keysNd_of_nd : ∀ f : Forest, f.namesDistinct = true → keysNd f = true
  | .nil, _ => rfl
  | .cons n t r, h => by
    simp only [Forest.namesDistinct, Bool.and_eq_true] at h
    simp [keysNd, h.1.1, keysNd_of_nd r h.2]

theorem subShared_iff_k : ∀ (f g : Forest), keysNd f = true →
    (subShared f g = true ↔ ∀ k ta tb, f.get k = some ta → g.get k = some tb → sub ta tb = true)
  | .nil, g, _ => by simp [subShared, Forest.get]
  | .cons n t r, g, hd => by
    simp only [keysNd, Bool.and_eq_true, Bool.not_eq_true'] at hd
    have ih := subShared_iff_k r g hd.2
    simp only [subShared, Bool.and_eq_true, ih]
    constructor
    · rintro ⟨h1, h2⟩ k ta tb hf hg
      by_cases hk : n = k
      · subst hk
        simp [Forest.get] at hf; subst hf
        simpa [hg] using h1
      · simp [Forest.get, hk] at hf
        exact h2 k ta tb hf hg
    · intro h
      refine ⟨?_, ?_⟩
      · cases hg : g.get n with
        | none => rfl
        | some tb => exact h n t tb (Forest.get_cons_self n t r) hg
      · intro k ta tb hf hg
        have hne : n ≠ k := by
          rintro rfl
          have := Forest.get_hasName hf
          simp [hd.1] at this
        exact h k ta tb (by simpa [Forest.get, hne] using hf) hg

theorem sub_instance_iff_k (x y : Forest) (hx : keysNd x = true) :
    sub (.instance x) (.instance y) = true ↔
      ∀ k ty, y.get k = some ty → ∃ tx, x.get k = some tx ∧ sub tx ty = true := by
  simp only [sub, Bool.and_eq_true, namesIn_iff_get, subShared_iff_k x y hx]
  constructor
  · rintro ⟨h1, h2⟩ k ty hy
    obtain ⟨tx, htx⟩ := h1 k ty hy
    exact ⟨tx, htx, h2 k tx ty htx hy⟩
  · intro h
    refine ⟨fun k t hy => ?_, fun k tx ty hxk hyk => ?_⟩
    · obtain ⟨tx, htx, _⟩ := h k t hy; exact ⟨tx, htx⟩
    · obtain ⟨tx', htx', hs⟩ := h k ty hyk
      rw [hxk] at htx'; cases htx'; exact hs

/-! ### `Forest.ofList`, `appendMissing` -/

def lget : List (Str × Tree) → Str → Option Tree
  | [], _ => none
  | (n, t) :: r, k => if n == k then some t else lget r k

theorem get_ofList : ∀ (l : List (Str × Tree)) (k : Str), (Forest.ofList l).get k = lget l k
  | [], k => rfl
  | (n, t) :: r, k => by simp [Forest.ofList, Forest.get, lget, get_ofList r k]

theorem lget_toList : ∀ (f : Forest) (k : Str), lget f.toList k = f.get k
  | .nil, k => rfl
  | .cons n t r, k => by simp [Forest.toList, Forest.get, lget, lget_toList r k]

theorem lget_append (a b : List (Str × Tree)) (k : Str) :
    lget (a ++ b) k = (lget a k).orElse (fun _ => lget b k) := by
  induction a with
  | nil => simp [lget]
  | cons e r ih =>
    obtain ⟨n, t⟩ := e
    by_cases h : n = k <;> simp [lget, h, ih]

theorem lget_filter_absent (f : Forest) : ∀ (l : List (Str × Tree)) (k : Str), f.hasName k = false →
    lget (l.filter fun e => !f.hasName e.1) k = lget l k
  | [], _, _ => rfl
  | (n, t) :: r, k, hk => by
    by_cases hn : n = k
    · subst hn; simp [List.filter, hk, lget]
    · by_cases hf : f.hasName n = true
      · simp [List.filter, hf, lget, hn, lget_filter_absent f r k hk]
      · simp only [Bool.not_eq_true] at hf
        simp [List.filter, hf, lget, hn, lget_filter_absent f r k hk]

theorem get_appendMissing (f g : Forest) (k : Str) :
    (appendMissing f g).get k = (f.get k).orElse (fun _ => g.get k) := by
  simp only [appendMissing, get_ofList, lget_append, lget_toList]
  cases hf : f.get k with
  | some t => simp
  | none =>
    simp only [Option.orElse_none]
    rw [lget_filter_absent f g.toList k ((Forest.hasName_false_iff f k).2 hf), lget_toList]

theorem hasName_ofList : ∀ (l : List (Str × Tree)) (k : Str), (Forest.ofList l).hasName k = l.any (fun e => e.1 == k)
  | [], k => rfl
  | (n, t) :: r, k => by simp [Forest.ofList, Forest.hasName, hasName_ofList r k]

theorem keysNd_ofList : ∀ (l : List (Str × Tree)), keysNd (Forest.ofList l) = (l.map (·.1)).Nodup
  | [] => by simp [Forest.ofList, keysNd]
  | (n, t) :: r => by
    simp only [Forest.ofList, keysNd, hasName_ofList, keysNd_ofList r, List.map_cons, List.nodup_cons,
      Bool.and_eq_true, Bool.not_eq_true', List.any_eq_false, beq_iff_eq, decide_eq_true_eq, eq_iff_iff]
    constructor
    · rintro ⟨h1, h2⟩
      refine ⟨fun hm => ?_, by simpa using h2⟩
      obtain ⟨e, he, rfl⟩ := List.mem_map.1 hm
      exact h1 e he rfl
    · rintro ⟨h1, h2⟩
      exact ⟨fun e he hne => h1 (List.mem_map.2 ⟨e, he, hne⟩), by simpa using h2⟩

/-! ### `meetShared` -/

theorem meetShared_get : ∀ (f g h : Forest), meetShared f g = some h → ∀ k,
    (f.get k = none → h.get k = none) ∧
    (∀ t, f.get k = some t → ∃ m, h.get k = some m ∧
      (match g.get k with
       | some u => meet t u = some m
       | none => m = t))
  | .nil, g, h, hm, k => by
    simp [meetShared] at hm; subst hm; simp [Forest.get]
  | .cons n t r, g, h, hm, k => by
    simp only [meetShared] at hm
    split at hm
    · rename_i t' r' h1 h2
      cases hm
      have ih := meetShared_get r g r' h2 k
      by_cases hk : n = k
      · subst hk
        simp only [Forest.get, beq_self_eq_true, ↓reduceIte, reduceCtorEq, false_implies, Option.some.injEq, true_and]
        intro t0 ht0
        subst ht0
        refine ⟨t', rfl, ?_⟩
        cases hg : g.get n with
        | some u => simpa [hg] using h1
        | none => simpa [hg] using h1.symm
      · simp only [Forest.get, hk, beq_iff_eq, ↓reduceIte]
        exact ih
    · cases hm

theorem meetShared_hasName : ∀ (f g h : Forest), meetShared f g = some h → ∀ k, h.hasName k = f.hasName k
  | .nil, g, h, hm, k => by simp [meetShared] at hm; subst hm; rfl
  | .cons n t r, g, h, hm, k => by
    simp only [meetShared] at hm
    split at hm
    · rename_i t' r' h1 h2
      cases hm
      simp [Forest.hasName, meetShared_hasName r g r' h2 k]
    · cases hm

theorem meetShared_keysNd : ∀ (f g h : Forest), meetShared f g = some h → keysNd f = true → keysNd h = true
  | .nil, g, h, hm, _ => by simp [meetShared] at hm; subst hm; rfl
  | .cons n t r, g, h, hm, hd => by
    simp only [meetShared] at hm
    split at hm
    · rename_i t' r' h1 h2
      cases hm
      simp only [keysNd, Bool.and_eq_true, Bool.not_eq_true'] at hd ⊢
      exact ⟨by rw [meetShared_hasName r g r' h2 n]; exact hd.1, meetShared_keysNd r g r' h2 hd.2⟩
    · cases hm

theorem mem_names_toList : ∀ (f : Forest) (n : Str), n ∈ f.toList.map (·.1) ↔ f.hasName n = true
  | .nil, n => by simp [Forest.toList, Forest.hasName]
  | .cons n' t r, n => by
    simp only [Forest.toList, List.map_cons, List.mem_cons, Forest.hasName, Bool.or_eq_true, beq_iff_eq,
      mem_names_toList r n]
    constructor
    · rintro (h | h)
      · exact Or.inl h.symm
      · exact Or.inr h
    · rintro (h | h)
      · exact Or.inl h.symm
      · exact Or.inr h

theorem nodup_toList : ∀ f : Forest, keysNd f = true → (f.toList.map (·.1)).Nodup
  | .nil, _ => by simp [Forest.toList]
  | .cons n t r, h => by
    simp only [keysNd, Bool.and_eq_true, Bool.not_eq_true'] at h
    simp only [Forest.toList, List.map_cons, List.nodup_cons]
    refine ⟨fun hm => ?_, nodup_toList r h.2⟩
    have := (mem_names_toList r n).1 hm
    rw [h.1] at this; cases this

theorem keysNd_appendMissing (f g : Forest) (hf : keysNd f = true) (hg : keysNd g = true) :
    keysNd (appendMissing f g) = true := by
  simp only [appendMissing, keysNd_ofList, List.map_append, decide_eq_true_eq]
  rw [List.nodup_append]
  refine ⟨nodup_toList f hf, ?_, ?_⟩
  · exact (nodup_toList g hg).sublist (List.Sublist.map _ List.filter_sublist)
  · intro a ha b hb hab
    subst hab
    obtain ⟨e, he, rfl⟩ := List.mem_map.1 hb
    have hfe := (List.mem_filter.1 he).2
    have := (mem_names_toList f e.1).1 ha
    simp [this] at hfe

/-! ### the covariant fragment and the lower-bound theorem -/

mutual
/-- no component or core-module type in a merged position (inside kinds compared by equality
anything may occur) -/
def cov : Tree → Bool
  | .instance f => covF f
  | .type t => cov t
  | .component _ _ => false
  | .module _ => false
  | _ => true
termination_by structural t => t
def covF : Forest → Bool
  | .nil => true
  | .cons _ t r => cov t && covF r
termination_by structural f => f
end

theorem covF_get : ∀ (f : Forest) (k : Str) (t : Tree), covF f = true → f.get k = some t → cov t = true
  | .nil, k, t, _, h => by simp [Forest.get] at h
  | .cons n u r, k, t, hc, h => by
    simp only [covF, Bool.and_eq_true] at hc
    by_cases hk : n = k
    · subst hk; simp [Forest.get] at h; subst h; exact hc.1
    · simp [Forest.get, hk] at h; exact covF_get r k t hc.2 h

def LowerP (a : Tree) : Prop :=
  ∀ b m, cov a = true → a.namesDistinct = true → b.namesDistinct = true → meet a b = some m →
    sub m a = true ∧ sub m b = true

theorem lower_eqKind (a : Tree) (h : isEqKind a = true) : LowerP a := by
  intro b m _ ha _ hm
  have : meet a b = if a == b then some a else none := by
    cases a <;> simp [isEqKind] at h <;> simp [meet]
  rw [this] at hm
  by_cases hab : a = b
  · subst hab
    simp at hm; subst hm
    exact ⟨sub_refl a ha, sub_refl a ha⟩
  · simp [hab] at hm

mutual
theorem tree_lower : ∀ a : Tree, LowerP a
  | .instance ea => by
    intro b m hc ha hb hm
    cases b with
    | «instance» eb =>
      simp only [meet] at hm
      cases hs : meetShared ea eb with
      | none => simp [hs] at hm
      | some f =>
        simp only [hs, Option.some.injEq] at hm
        subst hm
        simp only [Tree.namesDistinct] at ha hb
        simp only [cov] at hc
        have hka := keysNd_of_nd ea ha
        have hkb := keysNd_of_nd eb hb
        have hkM := keysNd_appendMissing f eb (meetShared_keysNd ea eb f hs hka) hkb
        constructor
        · rw [sub_instance_iff_k _ _ hkM]
          intro k ta hta
          obtain ⟨mm, hmm, hrel⟩ := (meetShared_get ea eb f hs k).2 ta hta
          refine ⟨mm, by rw [get_appendMissing, hmm]; rfl, ?_⟩
          cases hg : eb.get k with
          | some tb =>
            rw [hg] at hrel
            exact (forest_lower ea k ta hta tb mm (covF_get ea k ta hc hta) (Forest.nd_get ea k ta ha hta)
              (Forest.nd_get eb k tb hb hg) hrel).1
          | none =>
            rw [hg] at hrel
            subst hrel
            exact sub_refl _ (Forest.nd_get ea k _ ha hta)
        · rw [sub_instance_iff_k _ _ hkM]
          intro k tb htb
          cases hfa : ea.get k with
          | some ta =>
            obtain ⟨mm, hmm, hrel⟩ := (meetShared_get ea eb f hs k).2 ta hfa
            rw [htb] at hrel
            refine ⟨mm, by rw [get_appendMissing, hmm]; rfl, ?_⟩
            exact (forest_lower ea k ta hfa tb mm (covF_get ea k ta hc hfa) (Forest.nd_get ea k ta ha hfa)
              (Forest.nd_get eb k tb hb htb) hrel).2
          | none =>
            have hnone := (meetShared_get ea eb f hs k).1 hfa
            refine ⟨tb, by rw [get_appendMissing, hnone]; simpa using htb, ?_⟩
            exact sub_refl _ (Forest.nd_get eb k tb hb htb)
    | _ => simp [meet] at hm
  | .type ta => by
    intro b m hc ha hb hm
    cases b with
    | type tb =>
      simp only [meet] at hm
      obtain ⟨m', hm', rfl⟩ := Option.map_eq_some_iff.1 hm
      simp only [Tree.namesDistinct] at ha hb
      simp only [cov] at hc
      simpa [sub] using tree_lower ta tb m' hc ha hb hm'
    | _ => simp [meet] at hm
  | .component _ _ => by intro b m hc; simp [cov] at hc
  | .module _ => by intro b m hc; simp [cov] at hc
  | .none => lower_eqKind _ rfl
  | .prim _ => lower_eqKind _ rfl
  | .own _ => lower_eqKind _ rfl
  | .borrow _ => lower_eqKind _ rfl
  | .tuple _ => lower_eqKind _ rfl
  | .list _ => lower_eqKind _ rfl
  | .fixedList _ _ => lower_eqKind _ rfl
  | .option _ => lower_eqKind _ rfl
  | .result _ _ => lower_eqKind _ rfl
  | .variant _ => lower_eqKind _ rfl
  | .record _ => lower_eqKind _ rfl
  | .flags _ => lower_eqKind _ rfl
  | .enum _ => lower_eqKind _ rfl
  | .stream _ => lower_eqKind _ rfl
  | .future _ => lower_eqKind _ rfl
  | .func _ _ _ => lower_eqKind _ rfl
  | .value _ => lower_eqKind _ rfl
  | .resource _ => lower_eqKind _ rfl
termination_by structural a => a
theorem forest_lower : ∀ (f : Forest) (k : Str) (t : Tree), f.get k = some t → LowerP t
  | .nil, k, t, h => by simp [Forest.get] at h
  | .cons n u r, k, t, h => by
    by_cases hk : n = k
    · subst hk; simp [Forest.get] at h; subst h; exact tree_lower u
    · simp [Forest.get, hk] at h; exact forest_lower r k t h
termination_by structural f => f
end

/-- the merge of two requirements is a subtype of both (covariant fragment) -/
theorem meet_lower_bound (a b m : Tree) (hc : cov a = true) (ha : a.namesDistinct = true)
    (hb : b.namesDistinct = true) (hm : meet a b = some m) : sub m a = true ∧ sub m b = true :=
  tree_lower a b m hc ha hb hm

/-- the merge of two instance requirements exports exactly the union of their export names -/
theorem meet_instance_names (ea eb : Forest) (m : Tree) (hm : meet (.instance ea) (.instance eb) = some m) :
    ∃ M, m = .instance M ∧ ∀ k, M.hasName k = (ea.hasName k || eb.hasName k) := by
  simp only [meet] at hm
  cases hs : meetShared ea eb with
  | none => simp [hs] at hm
  | some f =>
    simp only [hs, Option.some.injEq] at hm
    refine ⟨_, hm.symm, fun k => ?_⟩
    have hg := get_appendMissing f eb k
    have hf := meetShared_hasName ea eb f hs k
    rw [Bool.eq_iff_iff, Forest.hasName_iff_get, Bool.or_eq_true, ← hf, Forest.hasName_iff_get, Forest.hasName_iff_get, hg]
    cases hfk : f.get k with
    | some t => simp
    | none => simp

end Wac.Spec
