import WacProofs.Lemmas.AggInv
/-
  C09 general theorems, part 11: from one `aggregate` call to `aggregateAll`; the decidable
  description of the flat fragment (`flatForest`, `fragB`); the family of contributor collections;
  classes of names (`canon_eq_iff`: two requirement names share an import iff they are
  semver-compatible).
-/
namespace Wac.AggP
open Wac Wac.Spec

/-! ### the fragment, decidably -/

/-- the forest of a flat instance requirement, `none` when the requirement is not in the fragment -/
def flatForest (r : Req) : Option Forest :=
  match r.2.2 with
  | .instance i =>
    match r.2.1.interfaces[i]? with
    | some si =>
      if si.id.isNone && si.uses.isEmpty && si.exports.all (fun x => decide (LeafK x.2)) && saneB r.2.1 then
        match r.2.1.unfold r.2.2 with
        | some (.instance G) => if G.namesDistinct then some G else none
        | _ => none
      else none
    | none => none
  | _ => none

theorem unfold_instance {C : Types} {i : Nat} {si : Interface} {G : Forest} (hsi : C.interfaces[i]? = some si)
    (h : C.unfold (.instance i) = some (.instance G)) : unfoldItems (C.unfoldKind C.fuel) si.exports = some G := by
  have hf : C.fuel = (C.fuel - 1) + 1 := by simp only [Types.fuel]; omega
  simp only [Types.unfold] at h
  rw [hf] at h
  simp only [Types.unfoldKind, hsi] at h
  obtain ⟨F, hF, hF'⟩ := Option.map_eq_some_iff.1 h
  cases hF'
  exact unfoldItems_fuel_mono (Nat.sub_le _ _) hF

theorem flatForest_spec {r : Req} {G : Forest} (h : flatForest r = some G) :
    FlatReq r G ∧ r.2.1.unfold r.2.2 = some (.instance G) := by
  obtain ⟨n, C, k⟩ := r
  simp only [flatForest] at h
  cases k with
  | «instance» i =>
    simp only at h
    cases hsi : C.interfaces[i]? with
    | none => simp [hsi] at h
    | some si =>
      simp only [hsi] at h
      split at h
      · rename_i hc
        simp only [Bool.and_eq_true, Option.isNone_iff_eq_none, List.isEmpty_iff, List.all_eq_true,
          decide_eq_true_eq] at hc
        obtain ⟨⟨⟨hid, huses⟩, hleaf⟩, hsane⟩ := hc
        split at h
        · rename_i G' hu
          split at h
          · rename_i hnd
            cases h
            exact ⟨⟨sane_of_saneB hsane, ⟨i, si, rfl, hsi, hid, huses, hleaf, unfold_instance hsi hu⟩, hnd⟩, hu⟩
          · cases h
        · cases h
      · cases h
  | _ => simp at h

/-- a list of contributors of the flat fragment over separate collections -/
def fragB (cs : List Req) : Bool :=
  cs.all (fun r => (flatForest r).isSome && decide (r.2.1.uid ≠ 0)) &&
    decide (cs.Pairwise fun a b => a.2.1.uid ≠ b.2.1.uid)

/-- the contributors with their forests -/
def withForests (cs : List Req) : List (Req × Forest) :=
  cs.filterMap fun r => (flatForest r).map fun G => (r, G)

theorem withForests_map {cs : List Req} (h : ∀ r, r ∈ cs → (flatForest r).isSome = true) :
    (withForests cs).map (·.1) = cs := by
  induction cs with
  | nil => rfl
  | cons r cs ih =>
    have hr := h r List.mem_cons_self
    obtain ⟨G, hG⟩ := Option.isSome_iff_exists.1 hr
    simp only [withForests, List.filterMap_cons, hG, Option.map_some, List.map_cons]
    congr 1
    exact ih (fun r' hr' => h r' (List.mem_cons_of_mem _ hr'))

theorem withForests_mem {cs : List Req} {p : Req × Forest} (h : p ∈ withForests cs) :
    p.1 ∈ cs ∧ flatForest p.1 = some p.2 := by
  simp only [withForests, List.mem_filterMap, Option.map_eq_some_iff] at h
  obtain ⟨r, hr, G, hG, rfl⟩ := h
  exact ⟨hr, hG⟩

theorem pairwise_inj {α : Type} {f : α → Nat} : ∀ {l : List α}, l.Pairwise (fun a b => f a ≠ f b) →
    ∀ a b, a ∈ l → b ∈ l → f a = f b → a = b
  | [], _, _, _, h, _, _ => by cases h
  | x :: l, hp, a, b, ha, hb, hab => by
    rw [List.pairwise_cons] at hp
    rcases List.mem_cons.1 ha with ha' | ha' <;> rcases List.mem_cons.1 hb with hb' | hb'
    · rw [ha', hb']
    · subst ha'; exact absurd hab (hp.1 b hb')
    · subst hb'; exact absurd hab.symm (hp.1 a ha')
    · exact pairwise_inj hp.2 a b ha' hb' hab

/-- the family of the contributors' collections -/
def collsOf (cs : List Req) (hp : cs.Pairwise fun a b => a.2.1.uid ≠ b.2.1.uid) : Colls where
  mem C := ∃ r, r ∈ cs ∧ r.2.1 = C
  inj s t hs ht h := by
    obtain ⟨r1, h1, rfl⟩ := hs
    obtain ⟨r2, h2, rfl⟩ := ht
    rw [pairwise_inj (f := fun r : Req => r.2.1.uid) hp r1 r2 h1 h2 h]

/-! ### the whole list -/

theorem aggregateAll_cons (r : Req) (cs : List Req) (s : AggState) :
    aggregateAll (r :: cs) s = match aggregate r.1 r.2.1 r.2.2 s with
      | .ok (_, s') => aggregateAll cs s'
      | .error e => .error e := by
  obtain ⟨n, t, k⟩ := r; rfl

theorem ginv_all {W : Colls} : ∀ (cs : List (Req × Forest)) (seen : List (Req × Forest)) (s s' : AggState),
    GInv W seen s → (∀ p, p ∈ cs → FlatReq p.1 p.2 ∧ W.mem p.1.2.1) →
    (∀ p, p ∈ cs → ∀ q, q ∈ seen → q.1.2.1.uid ≠ p.1.2.1.uid) →
    cs.Pairwise (fun a b => a.1.2.1.uid ≠ b.1.2.1.uid) →
    aggregateAll (cs.map (·.1)) s = .ok s' → GInv W (cs.reverse ++ seen) s' ∧ s'.cfg = s.cfg
  | [], seen, s, s', hG, _, _, _, h => by
    simp only [List.map_nil, aggregateAll, Except.ok.injEq] at h
    subst h; exact ⟨by simpa using hG, rfl⟩
  | p :: cs, seen, s, s', hG, hfl, hfr, hpw, h => by
    rw [List.map_cons, aggregateAll_cons] at h
    rw [List.pairwise_cons] at hpw
    cases ha : aggregate p.1.1 p.1.2.1 p.1.2.2 s with
    | error e => rw [ha] at h; cases h
    | ok us =>
      obtain ⟨u, s1⟩ := us
      rw [ha] at h
      simp only at h
      obtain ⟨hp1, hp2⟩ := hfl p List.mem_cons_self
      obtain ⟨hG1, hcf1⟩ := ginv_step hG hp1 hp2 (fun _ q hq => hfr p List.mem_cons_self q hq) (by cases u; exact ha)
      have := ginv_all cs ((p.1, p.2) :: seen) s1 s' hG1 (fun q hq => hfl q (List.mem_cons_of_mem _ hq))
        (by
          intro q hq q' hq'
          rcases List.mem_cons.1 hq' with rfl | hq'
          · exact hpw.1 q hq
          · exact hfr q (List.mem_cons_of_mem _ hq) q' hq')
        hpw.2 h
      exact ⟨by simpa [List.reverse_cons, List.append_assoc] using this.1, this.2.trans hcf1⟩

/-! ### classes of names -/

theorem compat_of_key {a b k : Str} {va vb : Version} (ha : altKey a = some (k, va)) (hb : altKey b = some (k, vb)) :
    compat a b = true := by
  unfold compat
  split
  · rfl
  · simp [ha, hb]

theorem key_of_compat {a b : Str} (h : compat a b = true) (hne : a ≠ b) :
    ∃ k va vb, altKey a = some (k, va) ∧ altKey b = some (k, vb) := by
  unfold compat at h
  have : (a == b) = false := by simpa using hne
  simp only [this, Bool.false_eq_true, ↓reduceIte] at h
  cases ha : altKey a with
  | none => simp [ha] at h
  | some p =>
    obtain ⟨ka, va⟩ := p
    cases hb : altKey b with
    | none => simp [ha, hb] at h
    | some q =>
      obtain ⟨kb, vb⟩ := q
      simp only [ha, hb, beq_iff_eq] at h
      subst h
      exact ⟨ka, va, vb, rfl, rfl⟩

section classes
variable {β : Type} {imports : List (Str × β)} {R : List (Str × Str)} {S : List Str}

/-- the canonical name has the key of the name -/
theorem NInv.canon_key (h : NInv imports R S) {n k : Str} {v : Version} (hk : altKey n = some (k, v)) :
    ∃ vh, altKey (canon R n) = some (k, vh) ∧ ¬ vh.lt v = true := by
  unfold canon
  cases hr : amGet R n with
  | none => exact ⟨v, hk, vlt_irrefl v⟩
  | some b =>
    obtain ⟨_, _, k0, va, vb, hka, hkb, hl⟩ := h.red n b hr
    rw [hk] at hka; cases hka
    exact ⟨vb, hkb, vlt_asymm hl⟩

/-- **two requirement names share an import exactly when they are semver-compatible** -/
theorem NInv.canon_eq_iff (h : NInv imports R S) {n1 n2 : Str} (h1 : n1 ∈ S) (h2 : n2 ∈ S) :
    canon R n1 = canon R n2 ↔ compat n1 n2 = true := by
  constructor
  · intro he
    by_cases hne : n1 = n2
    · subst hne; unfold compat; simp
    · -- at least one of the two is redirected; redirects stay on the track
      have key : ∀ n, (amGet R n).isSome = true → ∃ k v vh, altKey n = some (k, v) ∧ altKey (canon R n) = some (k, vh) := by
        intro n hn
        obtain ⟨b, hb⟩ := Option.isSome_iff_exists.1 hn
        obtain ⟨_, _, k0, va, vb, hka, hkb, _⟩ := h.red n b hb
        exact ⟨k0, va, vb, hka, by unfold canon; rw [hb]; exact hkb⟩
      cases hr1 : amGet R n1 with
      | none =>
        have c1 : canon R n1 = n1 := by unfold canon; rw [hr1]; rfl
        cases hr2 : amGet R n2 with
        | none =>
          have c2 : canon R n2 = n2 := by unfold canon; rw [hr2]; rfl
          rw [c1, c2] at he; exact absurd he hne
        | some b =>
          obtain ⟨k0, v, vh, hk2, hkc⟩ := key n2 (by rw [hr2]; rfl)
          rw [← he, c1] at hkc
          exact compat_of_key hkc hk2
      | some b =>
        obtain ⟨k0, v, vh, hk1, hkc⟩ := key n1 (by rw [hr1]; rfl)
        cases hr2 : amGet R n2 with
        | none =>
          have c2 : canon R n2 = n2 := by unfold canon; rw [hr2]; rfl
          rw [he, c2] at hkc
          exact compat_of_key hk1 hkc
        | some b' =>
          obtain ⟨k0', v', vh', hk2, hkc'⟩ := key n2 (by rw [hr2]; rfl)
          rw [he, hkc'] at hkc
          cases hkc
          exact compat_of_key hk1 hk2
  · intro hc
    by_cases hne : n1 = n2
    · rw [hne]
    · obtain ⟨k, v1, v2, hk1, hk2⟩ := key_of_compat hc hne
      obtain ⟨vh1, hc1, _⟩ := h.canon_key hk1
      obtain ⟨vh2, hc2, _⟩ := h.canon_key hk2
      exact h.track _ _ k vh1 vh2 (h.canon_imported h1) (h.canon_imported h2) hc1 hc2

end classes

/-! ### two runs over the same set of requirements end with equivalent imports -/

theorem ginv_equiv {W W' : Colls} {seen seen' : List (Req × Forest)} {A A' : AggState}
    (hG : GInv W seen A) (hG' : GInv W' seen' A') (hsame : ∀ p, p ∈ seen ↔ p ∈ seen')
    {q : Req × Forest} (hq : q ∈ seen) {F F' : Forest}
    (hF : ImpForest A (canon A.agg.redirects q.1.1) F) (hF' : ImpForest A' (canon A'.agg.redirects q.1.1) F') :
    sub (.instance F) (.instance F') = true ∧ sub (.instance F') (.instance F) = true := by
  have hS : ∀ p : Req × Forest, p ∈ seen → p.1.1 ∈ seen.map (·.1.1) := fun p hp => List.mem_map.2 ⟨p, hp, rfl⟩
  have hS' : ∀ p : Req × Forest, p ∈ seen' → p.1.1 ∈ seen'.map (·.1.1) := fun p hp => List.mem_map.2 ⟨p, hp, rfl⟩
  have hq' := (hsame q).1 hq
  have hFnd : F.namesDistinct = true := by obtain ⟨_, _, _, _, _, h⟩ := hF; exact h
  have hF'nd : F'.namesDistinct = true := by obtain ⟨_, _, _, _, _, h⟩ := hF'; exact h
  -- classes agree: both are "semver-compatible with q"
  have cls : ∀ p, p ∈ seen → (canon A.agg.redirects p.1.1 = canon A.agg.redirects q.1.1 ↔
      canon A'.agg.redirects p.1.1 = canon A'.agg.redirects q.1.1) := by
    intro p hp
    rw [hG.ninv.canon_eq_iff (hS p hp) (hS q hq), hG'.ninv.canon_eq_iff (hS' p ((hsame p).1 hp)) (hS' q hq')]
  constructor
  · refine hG'.tinv.glb _ F' hF' _ (nd_instance hFnd) ?_
    intro p hp hcl
    have hp0 := (hsame p).2 hp
    obtain ⟨Fp, hFp, hsp⟩ := hG.tinv.sat p hp0
    rw [(cls p hp0).2 hcl] at hFp
    rw [hFp.det hF] at hsp
    exact hsp
  · refine hG.tinv.glb _ F hF _ (nd_instance hF'nd) ?_
    intro p hp hcl
    obtain ⟨Fp, hFp, hsp⟩ := hG'.tinv.sat p ((hsame p).1 hp)
    rw [(cls p hp).1 hcl] at hFp
    rw [hFp.det hF'] at hsp
    exact hsp

end Wac.AggP
