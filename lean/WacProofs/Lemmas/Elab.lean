import WacModel.Elab
/-
  Helper lemmas for C05 (model `Wac.Elab`).
-/
namespace Wac.Elab
open Wac Wac.Spec.Wit

/-- `namedTys` only appends to its accumulator -/
theorem namedTys_prefix (dup : String) :
    ∀ (ps : List (Str × WTy)) (st st' : St) (acc out : List (Str × ValueType)),
      namedTys dup st ps acc = .ok (st', out) → ∃ rest, out = acc ++ rest := by
  intro ps
  induction ps with
  | nil =>
    intro st st' acc out h
    simp [namedTys] at h
    exact ⟨[], by simp [h.2]⟩
  | cons p ps ih =>
    intro st st' acc out h
    obtain ⟨n, t⟩ := p
    simp only [namedTys] at h
    split at h
    · rename_i st1 v hv
      split at h
      · cases h
      · obtain ⟨rest, hr⟩ := ih _ _ _ _ h
        exact ⟨(n, v) :: rest, by simp [hr]⟩
    · cases h

theorem alGet_alInsert_self' {β : Type} (m : List (Str × β)) (k : Str) (v : β) :
    alGet (alInsert m k v) k = some v := by
  induction m with
  | nil => simp [alInsert, alGet]
  | cons x xs ih =>
    obtain ⟨k', v'⟩ := x
    by_cases h : (k' == k) = true
    · simp [alInsert, alGet, h]
    · simp only [Bool.not_eq_true] at h
      simp [alInsert, alGet, h, ih]

theorem alGet_append_fresh {β : Type} (m : List (Str × β)) (k : Str) (v : β) (h : alGet m k = none) :
    alGet (m ++ [(k, v)]) k = some v := by
  induction m with
  | nil => simp [alGet]
  | cons x xs ih =>
    obtain ⟨k', v'⟩ := x
    simp only [alGet] at h
    split at h
    · cases h
    · rename_i hne
      simp only [List.cons_append, alGet, hne]
      exact ih h

theorem alGet_append_new {β : Type} (m : List (Str × β)) (k : Str) (v : β) (h : alGet m k = none) :
    alGet (m ++ [(k, v)]) k = some v := alGet_append_fresh m k v h

theorem alGet_append_left {β : Type} (m : List (Str × β)) (x : Str × β) (k : Str) (v : β)
    (h : alGet m k = some v) : alGet (m ++ [x]) k = some v := by
  induction m with
  | nil => simp [alGet] at h
  | cons y ys ih =>
    obtain ⟨k', v'⟩ := y
    simp only [alGet] at h
    simp only [List.cons_append, alGet]
    split
    · rename_i heq; simp only [heq, if_true] at h; exact h
    · rename_i hne; simp only [hne] at h; exact ih h

theorem addIfAbsent_keeps (l : List (Str × Tree)) (m : Str) (u : Tree) (n : Str) (t : Tree)
    (h : alGet l n = some t) : alGet (addIfAbsent l m u) n = some t := by
  unfold addIfAbsent
  by_cases hc : (alGet l m).isSome = true
  · simp only [hc, if_true]; exact h
  · simp only [hc]; exact alGet_append_left _ _ _ _ h

end Wac.Elab
