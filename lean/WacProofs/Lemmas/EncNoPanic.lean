import WacProofs.Lemmas.EncScoped2
import WacProofs.Lemmas.TopoFuel
import WacProofs.Lemmas.NoError
/-
  Progress of the encoder model: under `WF g` and `Closed g` none of its panic outcomes
  (`unwrap`, indexing, `assert!`, the model's own fuel) is reachable.

  The loop over the non-import nodes keeps "`node_indexes` is defined exactly on the import
  nodes and the nodes emitted so far" (`Dom`); `toposort_preds_before` puts every edge source
  before its target, so every lookup of a source succeeds.
-/
namespace Wac
open Wac.Spec

def NoPanic {α} (r : Res α) : Prop := ∀ s, r ≠ .panic s

/-! ### import resolution -/

theorem resolveArgs_no_panic {g : GraphVal} {inst : Nat} (reqs : List ImportReq) (r : Resolved) :
    NoPanic (resolveArgs g inst reqs r) := by
  induction reqs generalizing r with
  | nil => intro s h; simp [resolveArgs] at h
  | cons q reqs ih =>
    intro s h
    simp only [resolveArgs] at h
    cases hi : g.importNode? q.name with
    | some i => simp [hi] at h
    | none =>
      simp only [hi] at h
      split at h
      · cases h
      · exact ih _ s h

theorem resolveInsts_no_panic {g : GraphVal} (nodes : List Node)
    (hp : ∀ n ∈ nodes, ∀ slot sat, n.kind = .instantiation slot sat → (g.pkg? slot).isSome = true) (r : Resolved) :
    NoPanic (resolveInsts g nodes r) := by
  induction nodes generalizing r with
  | nil => intro s h; simp [resolveInsts] at h
  | cons n nodes ih =>
    have hp' : ∀ m ∈ nodes, ∀ slot sat, m.kind = .instantiation slot sat → (g.pkg? slot).isSome = true :=
      fun m hm => hp m (List.mem_cons_of_mem _ hm)
    intro s h
    simp only [resolveInsts] at h
    cases hk : n.kind with
    | instantiation slot sat =>
      simp only [hk] at h
      have := hp n (List.mem_cons_self ..) slot sat hk
      cases hpk : g.pkg? slot with
      | none => simp [hpk] at this
      | some p =>
        simp only [hpk] at h
        cases ha : resolveArgs g n.id (unsatisfied p sat) r with
        | ok r1 => simp only [ha] at h; exact ih hp' r1 s h
        | error e => simp [ha] at h
        | panic s' => exact resolveArgs_no_panic _ _ s' ha
    | «import» nm => simp only [hk] at h; exact ih hp' r s h
    | «alias» => simp only [hk] at h; exact ih hp' r s h
    | definition => simp only [hk] at h; exact ih hp' r s h

theorem resolveExplicit_no_panic {g : GraphVal} {first : List (Str × Nat)} (ns : List Nat)
    (hl : ∀ n ∈ ns, (g.node? n).isSome = true) (a : Agg) (ex : List (Str × Nat)) :
    NoPanic (resolveExplicit g first ns a ex) := by
  induction ns generalizing a ex with
  | nil => intro s h; simp [resolveExplicit] at h
  | cons n ns ih =>
    have hl' : ∀ m ∈ ns, (g.node? m).isSome = true := fun m hm => hl m (List.mem_cons_of_mem _ hm)
    intro s h
    simp only [resolveExplicit] at h
    have := hl n (List.mem_cons_self ..)
    cases hn : g.node? n with
    | none => simp [hn] at this
    | some nd =>
      simp only [hn] at h
      cases hk : nd.kind with
      | «import» name =>
        simp only [hk] at h
        split at h
        · cases h
        · exact ih hl' _ _ s h
      | instantiation slot sat => simp only [hk] at h; exact ih hl' _ _ s h
      | «alias» => simp only [hk] at h; exact ih hl' _ _ s h
      | definition => simp only [hk] at h; exact ih hl' _ _ s h

/-- the explicit imports `resolveExplicit` records, exactly -/
theorem resolveExplicit_spec2 {g : GraphVal} {first : List (Str × Nat)} (ns : List Nat) {a a' : Agg}
    {ex ex' : List (Str × Nat)} (h : resolveExplicit g first ns a ex = .ok (a', ex')) :
    ∃ X, ex' = ex ++ X ∧ ∀ name n, (name, n) ∈ X ↔ n ∈ ns ∧ ∃ nd, g.node? n = some nd ∧ nd.kind = .import name := by
  induction ns generalizing a ex with
  | nil =>
    simp only [resolveExplicit] at h
    injection h with h
    injection h with h1 h2
    subst h2
    exact ⟨[], by simp, by simp⟩
  | cons n ns ih =>
    simp only [resolveExplicit] at h
    cases hn : g.node? n with
    | none => simp [hn] at h
    | some nd =>
      simp only [hn] at h
      have hskip : (∀ nm, nd.kind ≠ .import nm) → ∀ name m,
          (m ∈ n :: ns ∧ ∃ nd', g.node? m = some nd' ∧ nd'.kind = .import name) ↔
          (m ∈ ns ∧ ∃ nd', g.node? m = some nd' ∧ nd'.kind = .import name) := by
        intro hne name m
        constructor
        · rintro ⟨hm, nd', h1, h2⟩
          rcases List.mem_cons.mp hm with e | e
          · subst e; rw [hn] at h1; injection h1 with h1; subst h1; exact absurd h2 (hne _)
          · exact ⟨e, nd', h1, h2⟩
        · rintro ⟨hm, rest⟩
          exact ⟨List.mem_cons_of_mem _ hm, rest⟩
      cases hk : nd.kind with
      | «import» name =>
        simp only [hk] at h
        cases hagg : a.aggregate name nd.ty with
        | none => simp [hagg] at h
        | some a1 =>
          simp only [hagg] at h
          obtain ⟨X, hX, hiff⟩ := ih h
          refine ⟨(name, n) :: X, by simp [hX], ?_⟩
          intro nm m
          simp only [List.mem_cons, hiff]
          constructor
          · rintro (e | ⟨hm, rest⟩)
            · injection e with e1 e2; subst e1 e2; exact ⟨Or.inl rfl, nd, hn, hk⟩
            · exact ⟨Or.inr hm, rest⟩
          · rintro ⟨hm, nd', h1, h2⟩
            rcases hm with e | e
            · subst e
              rw [hn] at h1; injection h1 with h1; subst h1
              rw [hk] at h2; injection h2 with h2
              left; rw [h2]
            · exact Or.inr ⟨e, nd', h1, h2⟩
      | instantiation slot sat =>
        simp only [hk] at h
        obtain ⟨X, hX, hiff⟩ := ih h
        exact ⟨X, hX, fun nm m => (hiff nm m).trans (hskip (by simp [hk]) nm m).symm⟩
      | «alias» =>
        simp only [hk] at h
        obtain ⟨X, hX, hiff⟩ := ih h
        exact ⟨X, hX, fun nm m => (hiff nm m).trans (hskip (by simp [hk]) nm m).symm⟩
      | definition =>
        simp only [hk] at h
        obtain ⟨X, hX, hiff⟩ := ih h
        exact ⟨X, hX, fun nm m => (hiff nm m).trans (hskip (by simp [hk]) nm m).symm⟩

theorem fillImplicit_no_panic {agg : Agg} {enc : List (Str × (Kind × Nat))} (L : List (Str × Nat)) (st : EncSt)
    (h : ∀ e ∈ L, amGet enc (agg.canonical e.1) ≠ none) : NoPanic (fillImplicit agg enc L st) := by
  induction L generalizing st with
  | nil => intro s hs; simp [fillImplicit] at hs
  | cons e L ih =>
    obtain ⟨name, node⟩ := e
    intro s hs
    simp only [fillImplicit] at hs
    cases hq : amGet enc (agg.canonical name) with
    | none => exact h (name, node) (List.mem_cons_self ..) hq
    | some ki =>
      simp only [hq] at hs
      exact ih _ (fun e he => h e (List.mem_cons_of_mem _ he)) s hs

theorem fillExplicit_no_panic {agg : Agg} {enc : List (Str × (Kind × Nat))} (L : List (Str × Nat)) (st : EncSt)
    (h : ∀ e ∈ L, amGet enc (agg.canonical e.1) ≠ none) : NoPanic (fillExplicit agg enc L st) := by
  induction L generalizing st with
  | nil => intro s hs; simp [fillExplicit] at hs
  | cons e L ih =>
    obtain ⟨name, node⟩ := e
    intro s hs
    simp only [fillExplicit] at hs
    cases hq : amGet enc (agg.canonical name) with
    | none => exact h (name, node) (List.mem_cons_self ..) hq
    | some ki =>
      simp only [hq] at hs
      exact ih _ (fun e he => h e (List.mem_cons_of_mem _ he)) s hs

/-- `node_indexes` is defined exactly on `done` -/
def Dom (st : EncSt) (done : List Nat) : Prop := ∀ id, natGet st.nodeIdx id ≠ none ↔ id ∈ done

theorem mem_implicitOfNode {g : GraphVal} {n : Node} {e : Str × Nat} (h : e ∈ implicitOfNode g n) :
    ∃ k, (e.1, k) ∈ reqPairs g n := by
  unfold implicitOfNode at h
  unfold reqPairs
  cases hk : n.kind with
  | instantiation slot sat =>
    simp only [hk] at h ⊢
    cases hp : g.pkg? slot with
    | none => simp [hp] at h
    | some p =>
      simp only [hp, List.mem_map] at h ⊢
      obtain ⟨r, hr, rfl⟩ := h
      exact ⟨r.ty.kind, r, hr, rfl⟩
  | «import» nm => simp [hk] at h
  | «alias» => simp [hk] at h
  | definition => simp [hk] at h

/-- `encode_imports` does not panic, and leaves `node_indexes` defined on the import nodes -/
theorem encodeImports_no_panic {g : GraphVal} (wf : WF g) (cl : Closed g) {importNodes : List Nat}
    (hlive : ∀ n ∈ importNodes, (g.node? n).isSome = true) :
    NoPanic (encodeImports g importNodes {}) ∧
      ∀ st1, encodeImports g importNodes {} = .ok st1 →
        Dom st1 (importNodes.filter (isImportNode g)) := by
  unfold encodeImports
  cases hr : resolveInsts g g.nodes {} with
  | error e => exact ⟨(by intro s h; simp at h), (by intro st1 h; simp at h)⟩
  | panic s => exact absurd hr (resolveInsts_no_panic g.nodes cl.pkgLive {} s)
  | ok r =>
    simp only
    cases hx : resolveExplicit g r.first importNodes r.agg [] with
    | error e => exact ⟨(by intro s h; simp at h), (by intro st1 h; simp at h)⟩
    | panic s => exact absurd hx (resolveExplicit_no_panic importNodes hlive _ _ s)
    | ok ae =>
      obtain ⟨agg', explicit⟩ := ae
      simp only
      have hagg : aggOf g importNodes = some agg' := by simp [aggOf, hr, hx]
      obtain ⟨P, inv, hP⟩ := aggOf_inv hagg
      generalize hl : (((agg'.imports.map fun e => (e.1, agg'.fix e.2)).filter fun e => e.2.kind = .instance) ++
        ((agg'.imports.map fun e => (e.1, agg'.fix e.2)).filter fun e => ¬ (e.2.kind = .instance))) = l
      have hkeys_l : ∀ k, k ∈ agg'.imports.map (·.1) → ∃ e ∈ l, e.1 = k := by
        intro k hk
        obtain ⟨e0, he0, rfl⟩ := List.mem_map.mp hk
        have hm : (e0.1, agg'.fix e0.2) ∈ agg'.imports.map fun e => (e.1, agg'.fix e.2) :=
          List.mem_map.mpr ⟨e0, he0, rfl⟩
        refine ⟨(e0.1, agg'.fix e0.2), ?_, rfl⟩
        rw [← hl]
        by_cases hki : (agg'.fix e0.2).kind = .instance
        · exact List.mem_append.mpr (Or.inl (List.mem_filter.mpr ⟨hm, by simpa using hki⟩))
        · exact List.mem_append.mpr (Or.inr (List.mem_filter.mpr ⟨hm, by simpa using hki⟩))
      have hAll := importAll_sinv (g := g) (A := fun _ _ => True) (B := fun _ => True) (C := fun _ _ => True) l (st := {}) (enc := []) []
        SInv.init (by intro nm k idx hq; simp [amGet] at hq) (fun _ _ => ⟨trivial, fun _ _ _ => trivial⟩)
      generalize hgen : importAll id l {} [] = res at hAll
      obtain ⟨stA, enc⟩ := res
      obtain ⟨_, _, _, hcover, _⟩ := hAll
      simp only at hcover
      -- every aggregated name resolves to an encoded import
      have hres : ∀ p ∈ P, amGet enc (agg'.canonical p.1) ≠ none := by
        intro p hp
        obtain ⟨ty, hget, _⟩ := inv.proc p hp
        obtain ⟨e, he, he1⟩ := hkeys_l _ (amGet_mem_keys hget)
        rw [canonical_eq, ← he1]
        exact hcover e he
      have himplicit : ∀ e ∈ r.implicit, amGet enc (agg'.canonical e.1) ≠ none := by
        intro e he
        have hrimp : r.implicit = g.nodes.flatMap (implicitOfNode g) := by
          have := resolveInsts_implicit g.nodes hr
          simpa using this
        rw [hrimp, List.mem_flatMap] at he
        obtain ⟨n, hn, hen⟩ := he
        obtain ⟨k, hk⟩ := mem_implicitOfNode hen
        exact hres (e.1, k) ((hP _).mpr (Or.inl (List.mem_flatMap.mpr ⟨n, hn, hk⟩)))
      obtain ⟨X, hX, hXiff⟩ := resolveExplicit_spec2 importNodes hx
      simp only [List.nil_append] at hX
      subst hX
      have hexplicit : ∀ e ∈ explicit, amGet enc (agg'.canonical e.1) ≠ none := by
        intro e he
        obtain ⟨hm, nd, hnd, hk⟩ := (hXiff e.1 e.2).mp he
        exact hres (e.1, nd.ty.kind) ((hP _).mpr (Or.inr ⟨e.2, hm, nd, hnd, hk, rfl⟩))
      cases hfi : fillImplicit agg' enc r.implicit stA with
      | error e => exact absurd hfi (fillImplicit_no_error _)
      | panic s => exact absurd hfi (fillImplicit_no_panic _ _ himplicit s)
      | ok stB =>
        simp only
        refine ⟨fillExplicit_no_panic _ _ hexplicit, ?_⟩
        intro st1 he
        obtain ⟨_, hnB', _⟩ := fillImplicit_spec r.implicit hfi (G stA)
        obtain ⟨_, _, _, _, _, Y, hY, hYm, _⟩ := fillExplicit_spec explicit he
        have hnA : stA.nodeIdx = [] := by
          have : ∀ (l : List (Str × ItemTy)) (st : EncSt) (enc : List (Str × (Kind × Nat))),
              (importAll id l st enc).1.nodeIdx = st.nodeIdx := by
            intro l
            induction l with
            | nil => intro st enc; rfl
            | cons e l ih =>
              intro st enc
              obtain ⟨name, ty⟩ := e
              simp only [importAll]
              rw [ih]
              have hfr : ∀ st : EncSt, (importItem id st name ty).1.nodeIdx = st.nodeIdx := by
                intro st
                unfold importItem
                by_cases hk : ty.kind = .instance
                · simp only [hk, ↓reduceIte]
                  cases hif : ty.iface with
                  | none => simp [emit_nodeIdx, importDeps_nodeIdx]
                  | some i =>
                    simp only
                    by_cases hp : providesIface name i = true
                    · simp only [hp, ↓reduceIte]
                      cases hq : amGet st.instances i with
                      | some idx => rfl
                      | none => simp [emit_nodeIdx, importDeps_nodeIdx]
                    · simp [hp, emit_nodeIdx, importDeps_nodeIdx]
                · simp [hk, emit_nodeIdx]
              exact hfr st
          have := this l {} []
          rw [hgen] at this
          exact this
        intro id
        rw [hY, hnB', hnA, List.nil_append]
        constructor
        · intro hne
          cases hq : natGet Y id with
          | none => exact absurd hq hne
          | some idx =>
            have hm := natGet_some_mem hq
            rw [hYm] at hm
            obtain ⟨e, he', he2⟩ := List.mem_map.mp hm
            obtain ⟨hmem, nd, hnd, hk⟩ := (hXiff e.1 e.2).mp he'
            rw [he2] at hmem hnd
            exact List.mem_filter.mpr ⟨hmem, by simp [isImportNode, hnd, Node.isImport, hk]⟩
        · intro hm
          obtain ⟨hmem, hi⟩ := List.mem_filter.mp hm
          have : ∃ name nd, g.node? id = some nd ∧ nd.kind = .import name := by
            unfold isImportNode at hi
            cases hn : g.node? id with
            | none => simp [hn] at hi
            | some nd =>
              simp only [hn, Node.isImport] at hi
              cases hk : nd.kind with
              | «import» nm => exact ⟨nm, nd, rfl, hk⟩
              | instantiation slot sat => simp [hk] at hi
              | «alias» => simp [hk] at hi
              | definition => simp [hk] at hi
          obtain ⟨name, nd, hnd, hk⟩ := this
          have hin : (name, id) ∈ explicit := (hXiff name id).mpr ⟨hmem, nd, hnd, hk⟩
          have : id ∈ Y.map (·.1) := by
            rw [hYm]; exact List.mem_map.mpr ⟨(name, id), hin, rfl⟩
          intro hq
          exact natGet_none_not_mem hq this

/-! ### the loop over the non-import nodes -/

theorem explicitArgs_no_panic {g : GraphVal} {st : EncSt} (inc : List (EdgeW × Nat))
    (h : ∀ e ∈ inc, (g.node? e.2).isSome = true ∧ natGet st.nodeIdx e.2 ≠ none ∧ ∃ i nm, e.1 = EdgeW.arg i nm) :
    NoPanic (explicitArgs g st inc) := by
  induction inc with
  | nil => intro s hs; simp [explicitArgs] at hs
  | cons e inc ih =>
    obtain ⟨w, src⟩ := e
    obtain ⟨h1, h2, i, nm, h3⟩ := h (w, src) (List.mem_cons_self ..)
    simp only at h1 h2 h3
    subst h3
    intro s hs
    simp only [explicitArgs] at hs
    cases hn : g.node? src with
    | none => simp [hn] at h1
    | some sn =>
      simp only [hn] at hs
      cases hq : natGet st.nodeIdx src with
      | none => exact h2 hq
      | some idx =>
        simp only [hq] at hs
        cases hr : explicitArgs g st inc with
        | ok l => simp [hr] at hs
        | error e => simp [hr] at hs
        | panic s' => exact ih (fun e he => h e (List.mem_cons_of_mem _ he)) s' hr

theorem encDefinition_nodeIdx {st st' : EncSt} {n : Node} {idx : Nat} (he : encDefinition st n = .ok (st', idx)) :
    st'.nodeIdx = st.nodeIdx := by
  unfold encDefinition at he
  cases hx : n.exportName with
  | none => simp [hx] at he
  | some name =>
    simp only [hx] at he
    injection he with he
    have := congrArg Prod.fst he
    simp only at this
    rw [← this, emit_nodeIdx]
    unfold defTypeIndex
    split
    · rfl
    · exact emit_nodeIdx _ _

theorem encAlias_nodeIdx {g : GraphVal} {st st' : EncSt} {n : Node} {idx : Nat} (he : encAlias g st n = .ok (st', idx)) :
    st'.nodeIdx = st.nodeIdx := by
  unfold encAlias at he
  cases ha : n.aliasSource with
  | none => simp [ha] at he
  | some se =>
    obtain ⟨src, en⟩ := se
    simp only [ha] at he
    cases hs : g.node? src with
    | none => simp [hs] at he
    | some sn =>
      simp only [hs] at he
      split at he
      · cases he
      · cases hq : natGet st.nodeIdx src with
        | none => simp [hq] at he
        | some inst =>
          simp only [hq] at he
          injection he with he
          have := congrArg Prod.fst he
          simp only at this
          rw [← this, emit_nodeIdx]

theorem aliasSource_mem_inc {n : Node} {src : Nat} {e : Str} (h : n.aliasSource = some (src, e)) :
    src ∈ n.inc.map (·.2) := by
  unfold Node.aliasSource at h
  obtain ⟨a, ha, hf⟩ := List.exists_of_findSome?_eq_some h
  obtain ⟨w, s⟩ := a
  cases w with
  | «alias» x =>
    simp only [Option.some.injEq, Prod.mk.injEq] at hf
    exact List.mem_map.mpr ⟨_, ha, hf.1⟩
  | arg i nm => simp at hf
  | dep => simp at hf

theorem dom_snoc {st : EncSt} {done : List Nat} (h : Dom st done) (id idx : Nat) :
    Dom { st with nodeIdx := st.nodeIdx ++ [(id, idx)] } (done ++ [id]) := by
  intro x
  simp only [natGet_snoc, List.mem_append, List.mem_singleton]
  cases hq : natGet st.nodeIdx x with
  | some v =>
    have : x ∈ done := (h x).mp (by simp [hq])
    simp [this]
  | none =>
    have : x ∉ done := fun hx => (h x).mpr hx hq
    by_cases hx : id = x
    · simp [hx]
    · have hx' : ¬ x = id := fun e => hx e.symm
      simp [hx, hx', this]

/-- one node: no panic, and `node_indexes` gains exactly that node -/
theorem encNode_no_panic {g : GraphVal} {o : Opts} {st : EncSt} {id : Nat} {done : List Nat} {n : Node}
    (cl : Closed g) (hd : Dom st done) (hn : g.node? id = some n) (hni : n.isImport = false)
    (hfresh : id ∉ done) (hpre : ∀ p ∈ n.inc.map (·.2), p ∈ done) :
    NoPanic (encNode g o st id) ∧ ∀ st', encNode g o st id = .ok st' → Dom st' (done ++ [id]) := by
  obtain ⟨hmem, hid⟩ := node?_mem hn
  have hfree : natGet st.nodeIdx id = none := by
    cases hq : natGet st.nodeIdx id with
    | none => rfl
    | some v => exact absurd ((hd id).mp (by simp [hq])) hfresh
  have hsrc : ∀ e ∈ n.inc, natGet st.nodeIdx e.2 ≠ none :=
    fun e he => (hd e.2).mpr (hpre e.2 (List.mem_map.mpr ⟨e, he, rfl⟩))
  unfold encNode
  simp only [hn]
  cases hk : n.kind with
  | definition =>
    simp only
    have hnm := cl.defNamed n hmem hk
    cases hr : encDefinition st n with
    | error e =>
      unfold encDefinition at hr
      cases hx : n.exportName with
      | none => simp [hx] at hnm
      | some name => simp [hx] at hr
    | panic s =>
      unfold encDefinition at hr
      cases hx : n.exportName with
      | none => simp [hx] at hnm
      | some name => simp [hx] at hr
    | ok r =>
      obtain ⟨st1, idx⟩ := r
      simp only
      have hni' := encDefinition_nodeIdx hr
      have hfree1 : natGet st1.nodeIdx id = none := by rw [hni']; exact hfree
      rw [hfree1]
      simp only
      refine ⟨(by intro s h; simp at h), ?_⟩
      intro st' he
      injection he with he
      subst he
      have hd1 : Dom st1 done := by intro x; rw [hni']; exact hd x
      exact dom_snoc hd1 id idx
  | instantiation slot sat =>
    simp only
    have hpk := cl.pkgLive n hmem slot sat hk
    have hedges := cl.instEdges n hmem slot sat hk
    cases hr : encInstantiation g o st n slot with
    | error e =>
      exfalso
      unfold encInstantiation at hr
      cases hp : g.pkg? slot with
      | none => simp [hp] at hpk
      | some p =>
        simp only [hp] at hr
        cases hx : explicitArgs g (pkgComponent o st slot p).1 n.inc with
        | error e' => exact explicitArgs_no_error _ e' hx
        | panic s => simp [hx] at hr
        | ok args => simp [hx] at hr
    | panic s =>
      exfalso
      unfold encInstantiation at hr
      cases hp : g.pkg? slot with
      | none => simp [hp] at hpk
      | some p =>
        simp only [hp] at hr
        cases hx : explicitArgs g (pkgComponent o st slot p).1 n.inc with
        | error e' => simp [hx] at hr
        | panic s' =>
          refine explicitArgs_no_panic n.inc ?_ s' hx
          intro e he
          have hlive := (cl.srcLive n hmem e he).1
          obtain ⟨sn, hsn, _, _⟩ := node?_of_mem_ids hlive
          refine ⟨by simp [hsn], ?_, hedges e he⟩
          rw [pkgComponent_nodeIdx]
          exact hsrc e he
        | ok args => simp [hx] at hr
    | ok r =>
      obtain ⟨st1, idx⟩ := r
      simp only
      have hni' := encInstantiation_nodeIdx hr
      have hfree1 : natGet st1.nodeIdx id = none := by rw [hni']; exact hfree
      rw [hfree1]
      simp only
      refine ⟨(by intro s h; simp at h), ?_⟩
      intro st' he
      injection he with he
      subst he
      have hd1 : Dom st1 done := by intro x; rw [hni']; exact hd x
      exact dom_snoc hd1 id idx
  | «alias» =>
    simp only
    obtain ⟨src, en, sn, ha, hsn, hki⟩ := cl.aliasSrc n hmem hk
    have hsrc' : natGet st.nodeIdx src ≠ none := (hd src).mpr (hpre src (aliasSource_mem_inc ha))
    cases hr : encAlias g st n with
    | error e =>
      exfalso
      unfold encAlias at hr
      simp only [ha, hsn, hki, ne_eq, not_true_eq_false, ↓reduceIte] at hr
      cases hq : natGet st.nodeIdx src with
      | none => exact hsrc' hq
      | some inst => simp [hq] at hr
    | panic s =>
      exfalso
      unfold encAlias at hr
      simp only [ha, hsn, hki, ne_eq, not_true_eq_false, ↓reduceIte] at hr
      cases hq : natGet st.nodeIdx src with
      | none => exact hsrc' hq
      | some inst => simp [hq] at hr
    | ok r =>
      obtain ⟨st1, idx⟩ := r
      simp only
      have hni' := encAlias_nodeIdx hr
      have hfree1 : natGet st1.nodeIdx id = none := by rw [hni']; exact hfree
      rw [hfree1]
      simp only
      refine ⟨(by intro s h; simp at h), ?_⟩
      intro st' he
      injection he with he
      subst he
      have hd1 : Dom st1 done := by intro x; rw [hni']; exact hd x
      exact dom_snoc hd1 id idx
  | «import» nm => simp [Node.isImport, hk] at hni

theorem encNodes_no_panic {g : GraphVal} {o : Opts} (cl : Closed g) (ids : List Nat) {st : EncSt} {done : List Nat}
    (hd : Dom st done) (hnd : ids.Nodup) (hfresh : ∀ id ∈ ids, id ∉ done)
    (hlive : ∀ id ∈ ids, ∃ n, g.node? id = some n ∧ n.isImport = false)
    (hpre : ∀ pre id post, ids = pre ++ id :: post → ∀ n, g.node? id = some n →
      ∀ p ∈ n.inc.map (·.2), p ∈ done ∨ p ∈ pre) :
    NoPanic (encNodes g o ids st) ∧ ∀ st', encNodes g o ids st = .ok st' → Dom st' (done ++ ids) := by
  induction ids generalizing st done with
  | nil =>
    refine ⟨by intro s h; simp [encNodes] at h, ?_⟩
    intro st' h
    simp only [encNodes] at h
    injection h with h; subst h
    simpa using hd
  | cons id ids ih =>
    obtain ⟨n, hn, hni⟩ := hlive id (List.mem_cons_self ..)
    have hp0 : ∀ p ∈ n.inc.map (·.2), p ∈ done := by
      intro p hp
      rcases hpre [] id ids rfl n hn p hp with h1 | h1
      · exact h1
      · simp at h1
    obtain ⟨np, hdom⟩ := encNode_no_panic (o := o) cl hd hn hni (hfresh id (List.mem_cons_self ..)) hp0
    simp only [encNodes]
    cases h1 : encNode g o st id with
    | error e => exact ⟨(by intro s h; simp at h), (by intro st' h; simp at h)⟩
    | panic s => exact absurd h1 (np s)
    | ok st1 =>
      simp only
      have hnd' := List.nodup_cons.mp hnd
      have := ih (st := st1) (done := done ++ [id]) (hdom st1 h1) hnd'.2
        (by
          intro x hx hm
          rcases List.mem_append.mp hm with h2 | h2
          · exact hfresh x (List.mem_cons_of_mem _ hx) h2
          · simp only [List.mem_singleton] at h2; subst h2; exact hnd'.1 hx)
        (fun x hx => hlive x (List.mem_cons_of_mem _ hx))
        (by
          intro pre x post e m hm p hp
          rcases hpre (id :: pre) x post (by rw [e]; rfl) m hm p hp with h2 | h2
          · exact Or.inl (List.mem_append.mpr (Or.inl h2))
          · rcases List.mem_cons.mp h2 with h3 | h3
            · exact Or.inl (List.mem_append.mpr (Or.inr (by simp [h3])))
            · exact Or.inr h3)
      refine ⟨this.1, ?_⟩
      intro st' h
      have := this.2 st' h
      simpa [List.append_assoc] using this

/-! ### exports and names -/

theorem encExports_nodeIdx {g : GraphVal} (exps : List (Str × Nat)) {st st' : EncSt}
    (he : encExports g exps st = .ok st') : st'.nodeIdx = st.nodeIdx := by
  induction exps generalizing st with
  | nil => simp only [encExports] at he; injection he with he; subst he; rfl
  | cons e exps ih =>
    obtain ⟨name, id⟩ := e
    simp only [encExports] at he
    cases hn : g.node? id with
    | none => simp [hn] at he
    | some n =>
      simp only [hn] at he
      split at he
      · exact ih he
      · cases hq : natGet st.nodeIdx id with
        | none => simp [hq] at he
        | some idx =>
          simp only [hq] at he
          rw [ih he, emit_nodeIdx]

theorem encExports_no_panic {g : GraphVal} (exps : List (Str × Nat)) (st : EncSt)
    (h : ∀ e ∈ exps, (g.node? e.2).isSome = true ∧ natGet st.nodeIdx e.2 ≠ none) :
    NoPanic (encExports g exps st) := by
  induction exps generalizing st with
  | nil => intro s hs; simp [encExports] at hs
  | cons e exps ih =>
    obtain ⟨name, id⟩ := e
    obtain ⟨h1, h2⟩ := h (name, id) (List.mem_cons_self ..)
    have h' : ∀ e ∈ exps, (g.node? e.2).isSome = true ∧ natGet st.nodeIdx e.2 ≠ none :=
      fun e he => h e (List.mem_cons_of_mem _ he)
    intro s hs
    simp only [encExports] at hs
    cases hn : g.node? id with
    | none => simp [hn] at h1
    | some n =>
      simp only [hn] at hs
      split at hs
      · exact ih st h' s hs
      · cases hq : natGet st.nodeIdx id with
        | none => exact h2 hq
        | some idx =>
          simp only [hq] at hs
          exact ih _ (by simpa [emit_nodeIdx] using h') s hs

theorem nameEntries_no_panic {st : EncSt} (k : Kind) (nodes : List Node)
    (h : ∀ n ∈ nodes, natGet st.nodeIdx n.id ≠ none) : NoPanic (nameEntries st k nodes) := by
  induction nodes with
  | nil => intro s hs; simp [nameEntries] at hs
  | cons n nodes ih =>
    have h' : ∀ m ∈ nodes, natGet st.nodeIdx m.id ≠ none := fun m hm => h m (List.mem_cons_of_mem _ hm)
    intro s hs
    simp only [nameEntries] at hs
    cases hnm : n.name with
    | none => simp only [hnm] at hs; exact ih h' s hs
    | some nm =>
      simp only [hnm] at hs
      split at hs
      · exact ih h' s hs
      · cases hq : natGet st.nodeIdx n.id with
        | none => exact h n (List.mem_cons_self ..) hq
        | some idx =>
          simp only [hq] at hs
          cases hr : nameEntries st k nodes with
          | ok l => simp [hr] at hs
          | error e => simp [hr] at hs
          | panic s' => exact ih h' s' hr

theorem allNameEntries_no_panic {st : EncSt} (nodes : List Node) (ks : List Kind)
    (h : ∀ n ∈ nodes, natGet st.nodeIdx n.id ≠ none) : NoPanic (allNameEntries st nodes ks) := by
  induction ks with
  | nil => intro s hs; simp [allNameEntries] at hs
  | cons k ks ih =>
    intro s hs
    simp only [allNameEntries] at hs
    cases h1 : nameEntries st k nodes with
    | panic s' => exact nameEntries_no_panic k nodes h s' h1
    | error e => simp [h1] at hs
    | ok l =>
      simp only [h1] at hs
      cases h2 : allNameEntries st nodes ks with
      | panic s' => exact ih s' h2
      | error e => simp [h2] at hs
      | ok l' => simp [h2] at hs

theorem encNames_no_panic {g : GraphVal} {st : EncSt} (h : ∀ n ∈ g.nodes, natGet st.nodeIdx n.id ≠ none) :
    NoPanic (encNames g st) := by
  intro s hs
  unfold encNames at hs
  cases h1 : allNameEntries st g.nodes [.type, .func, .instance, .component, .module, .value] with
  | panic s' => exact allNameEntries_no_panic g.nodes _ h s' h1
  | error e => simp [h1] at hs
  | ok l =>
    simp only [h1] at hs
    cases l with
    | nil => simp at hs
    | cons e l => simp at hs

/-! ### the whole encoding -/

theorem filter_split {α} (f : α → Bool) (l pre post : List α) (x : α) (h : l.filter f = pre ++ x :: post) :
    ∃ pre' post', l = pre' ++ x :: post' ∧ pre'.filter f = pre ∧ f x = true := by
  induction l generalizing pre with
  | nil => simp at h
  | cons a l ih =>
    by_cases hf : f a = true
    · rw [List.filter_cons_of_pos hf] at h
      cases pre with
      | nil =>
        simp only [List.nil_append, List.cons.injEq] at h
        obtain ⟨h1, _⟩ := h
        subst h1
        exact ⟨[], l, rfl, rfl, hf⟩
      | cons b pre =>
        simp only [List.cons_append, List.cons.injEq] at h
        obtain ⟨h1, h2⟩ := h
        subst h1
        obtain ⟨pre', post', e1, e2, e3⟩ := ih pre h2
        exact ⟨a :: pre', post', by rw [e1]; rfl, by rw [List.filter_cons_of_pos hf, e2], e3⟩
    · rw [List.filter_cons_of_neg hf] at h
      obtain ⟨pre', post', e1, e2, e3⟩ := ih pre h
      exact ⟨a :: pre', post', by rw [e1]; rfl, by rw [List.filter_cons_of_neg hf, e2], e3⟩

/-- `encode_no_panic` on the state level -/
theorem encodeSt_no_panic {g : GraphVal} {o : Opts} (wf : WF g) (cl : Closed g) : NoPanic (encodeSt g o) := by
  intro s hs
  unfold encodeSt at hs
  cases ht : toposort g with
  | fuel => exact toposort_no_fuel wf.idsNodup cl.succLive ht
  | cycle n => simp [ht] at hs
  | ok order =>
    simp only [ht] at hs
    have hsub := toposort_subset cl.succLive ht
    obtain ⟨hnd, hall⟩ := toposort_complete ht
    have hpb := toposort_preds_before ht
    have hlive : ∀ n ∈ order.filter (isImportNode g), (g.node? n).isSome = true := by
      intro n hn
      obtain ⟨nd, h1, _, _⟩ := node?_of_mem_ids (hsub n (List.mem_filter.mp hn).1)
      simp [h1]
    obtain ⟨np1, hdom1⟩ := encodeImports_no_panic wf cl hlive
    cases h1 : encodeImports g (order.filter (isImportNode g)) {} with
    | error e => simp [h1] at hs
    | panic s' => exact np1 s' h1
    | ok st1 =>
      simp only [h1] at hs
      have hd1 := hdom1 st1 h1
      rw [List.filter_filter] at hd1
      simp only [Bool.and_self] at hd1
      -- the loop
      have hloop := encNodes_no_panic (o := o) cl (order.filter fun id => !isImportNode g id) hd1
        (hnd.sublist List.filter_sublist)
        (by
          intro id hid hm
          have h2 := (List.mem_filter.mp hid).2
          have h3 := (List.mem_filter.mp hm).2
          simp [h3] at h2)
        (by
          intro id hid
          obtain ⟨hin, hni⟩ := List.mem_filter.mp hid
          obtain ⟨nd, h2, _, _⟩ := node?_of_mem_ids (hsub id hin)
          refine ⟨nd, h2, ?_⟩
          simpa [isImportNode, h2] using hni)
        (by
          intro pre id post e n hn p hp
          obtain ⟨pre', post', e1, e2, _⟩ := filter_split _ order pre post id e
          obtain ⟨hmem, hid⟩ := node?_mem hn
          have hpp : p ∈ g.preds id := by
            simp only [GraphVal.preds, hn, Option.map_some, Option.getD_some]
            exact hp
          rcases hpb pre' id post' e1 p hpp with h2 | h2
          · exfalso
            obtain ⟨e', he', he2⟩ := List.mem_map.mp hp
            have := (cl.srcLive n hmem e' he').2
            rw [he2, h2, hid] at this
            exact this rfl
          · by_cases hi : isImportNode g p = true
            · left
              exact List.mem_filter.mpr ⟨by rw [e1]; exact List.mem_append.mpr (Or.inl h2), hi⟩
            · right
              rw [← e2]
              exact List.mem_filter.mpr ⟨h2, by simpa using hi⟩)
      cases h2 : encNodes g o (order.filter fun id => !isImportNode g id) st1 with
      | error e => simp [h2] at hs
      | panic s' => exact hloop.1 s' h2
      | ok st2 =>
        simp only [h2] at hs
        have hd2 := hloop.2 st2 h2
        have hall2 : ∀ id ∈ g.ids, natGet st2.nodeIdx id ≠ none := by
          intro id hid
          apply (hd2 id).mpr
          have hin := hall id hid
          by_cases hi : isImportNode g id = true
          · exact List.mem_append.mpr (Or.inl (List.mem_filter.mpr ⟨hin, hi⟩))
          · exact List.mem_append.mpr (Or.inr (List.mem_filter.mpr ⟨hin, by simpa using hi⟩))
        cases h3 : encExports g g.exports st2 with
        | error e => simp [h3] at hs
        | panic s' =>
          refine encExports_no_panic g.exports st2 ?_ s' h3
          intro e he
          have hl := cl.exportsLive e he
          obtain ⟨nd, h4, _, _⟩ := node?_of_mem_ids hl
          exact ⟨by simp [h4], hall2 e.2 hl⟩
        | ok st3 =>
          simp only [h3] at hs
          refine encNames_no_panic ?_ s hs
          intro n hn
          rw [encExports_nodeIdx _ h3]
          exact hall2 n.id (List.mem_map_of_mem (f := (·.id)) hn)

end Wac
