import WacProofs.Lemmas.GraphInvRemove2
import WacProofs.Lemmas.GraphNoPanic2
/-
  Termination of the `remove_node` cascade: a rank on nodes that strictly decreases along
  alias and dependency edges, and the count of live nodes below a node.
-/
namespace Wac.Graph
open Wac Wac.HashSites

/-- dependency edges go from a type to a type defined from it (larger id) -/
def DepOrder (g : Graph) : Prop :=
  ∀ e ∈ g.edges, e.kind = .dep → ∀ s d, g.node? e.src = some s → g.node? e.dst = some d →
    ∃ ts td, s.kind = .definition ts ∧ d.kind = .definition td ∧ ts < td

/-- … which is part of the invariant -/
theorem Inv.depOrder {ctx : Ctx} {g : Graph} (h : Inv ctx g) : DepOrder g := by
  intro e he hk s d hs hd
  obtain ⟨s', hs', d', hd', hkk⟩ := h.edges e he
  rw [Option.mem_def, hs] at hs'
  rw [Option.mem_def, hd] at hd'
  cases hs'; cases hd'
  rw [hk] at hkk
  obtain ⟨ts, hts, td, htd, hlt⟩ := hkk
  exact ⟨ts, td, defTy_eq_some.mp hts, defTy_eq_some.mp htd, hlt⟩

/-- rank key of a node: definitions by type id, everything else by item kind -/
def Node.key (x : Node) : Bool × Nat :=
  match x.kind with
  | .definition ty => (true, ty)
  | _ => (false, x.item)

/-- `below c p`: a node with key `c` can only be a (transitive) cascade child of one with key `p` -/
def below (c p : Bool × Nat) : Bool :=
  match c, p with
  | (true, tc), (true, tp) => decide (tp < tc)
  | (false, _), (true, _) => true
  | (false, ic), (false, ip) => decide (ic < ip)
  | (true, _), (false, _) => false

theorem below_irrefl (a : Bool × Nat) : below a a = false := by
  obtain ⟨b, v⟩ := a
  cases b <;> simp [below]

theorem below_trans {a b c : Bool × Nat} (h1 : below a b = true) (h2 : below b c = true) : below a c = true := by
  obtain ⟨ba, va⟩ := a
  obtain ⟨bb, vb⟩ := b
  obtain ⟨bc, vc⟩ := c
  cases ba <;> cases bb <;> cases bc <;> simp_all [below] <;> omega

theorem setSat_key (x : Node) (s : List Nat) : (setSat x s).key = x.key := by
  unfold setSat Node.key
  cases hk : x.kind <;> simp [hk]

/-- along an alias or dependency edge the key strictly decreases -/
theorem edge_below {ctx : Ctx} {g : Graph} (h : Inv ctx g) (hw : KindWF ctx) (hd : DepOrder g) {e : Edge}
    (he : e ∈ g.edges) (hk : e.kind.isArg = false) {s d : Node} (hs : g.node? e.src = some s)
    (hdn : g.node? e.dst = some d) : below d.key s.key = true := by
  obtain ⟨s', hs', d', hd', hkk⟩ := h.edges e he
  rw [Option.mem_def, hs] at hs'
  rw [Option.mem_def, hdn] at hd'
  cases hs'; cases hd'
  cases hek : e.kind with
  | alias j =>
    rw [hek] at hkk
    simp only at hkk
    obtain ⟨hal, _, exps, hexps, p, hp, hitem⟩ := hkk
    have hlt : d.item < s.item := by
      rw [hitem]
      exact hw _ _ hexps p (List.mem_of_getElem? hp)
    have hdk : d.key = (false, d.item) := by
      unfold Node.key; unfold Node.isAlias at hal
      cases hkd : d.kind <;> simp [hkd] at hal ⊢
    rw [hdk]
    unfold Node.key
    cases hks : s.kind <;> simp [below, hlt]
  | arg j => rw [hek] at hk; cases hk
  | dep =>
    obtain ⟨ts, td, h1, h2, hlt⟩ := hd e he hek s d hs hdn
    unfold Node.key
    rw [h1, h2]
    simp [below, hlt]

/-- number of live nodes strictly below the key `k` -/
def belowCount (g : Graph) (k : Bool × Nat) : Nat :=
  (List.range g.nodes.length).countP (fun m =>
    match g.node? m with
    | some x => below x.key k
    | none => false)

theorem countP_lt_of {α : Type} (p q : α → Bool) : ∀ (l : List α), (∀ a ∈ l, p a = true → q a = true) →
    (∃ t ∈ l, q t = true ∧ p t = false) → l.countP p < l.countP q
  | [], _, ⟨t, ht, _⟩ => by cases ht
  | x :: r, himp, ⟨t, ht, hq, hp⟩ => by
    rw [List.countP_cons, List.countP_cons]
    have hle : r.countP p ≤ r.countP q := List.countP_mono_left (fun a ha => himp a (List.mem_cons_of_mem _ ha))
    rcases List.mem_cons.mp ht with rfl | ht'
    · simp [hq, hp]; omega
    · have ih := countP_lt_of p q r (fun a ha => himp a (List.mem_cons_of_mem _ ha)) ⟨t, ht', hq, hp⟩
      have := himp x (List.mem_cons_self ..)
      cases hpx : p x with
      | true => simp [hpx, this hpx]; omega
      | false => cases hqx : q x <;> simp [hpx, hqx] <;> omega

/-- only satisfied sets changed on the surviving nodes, and nothing appeared -/
def SatOnly (g g' : Graph) : Prop :=
  g'.nodes.length = g.nodes.length ∧
  ∀ m x', g'.node? m = some x' → ∃ x s, g.node? m = some x ∧ x' = setSat x s

theorem SatOnly.refl (g : Graph) : SatOnly g g :=
  ⟨rfl, fun _ x' h => ⟨x', x'.sat, h, (setSat_sat_self x').symm⟩⟩

theorem SatOnly.trans {a b c : Graph} (h1 : SatOnly a b) (h2 : SatOnly b c) : SatOnly a c := by
  refine ⟨h2.1.trans h1.1, ?_⟩
  intro m x' hx'
  obtain ⟨y, s, hy, rfl⟩ := h2.2 m x' hx'
  obtain ⟨x, t, hx, rfl⟩ := h1.2 m y hy
  exact ⟨x, s, hx, setSat_setSat x t s⟩

theorem Removed.satOnly {g g' : Graph} {n : Nat} {nd : Node} (r : Removed g g' n nd) : SatOnly g g' := by
  refine ⟨r.len, ?_⟩
  intro m x' hx'
  obtain ⟨_, x, s, hx, hxe, _, _⟩ := r.back hx'
  exact ⟨x, s, hx, hxe⟩

/-- the count below a child, in a shrunken graph, is smaller than the count below its parent -/
theorem belowCount_child {g g' : Graph} (hso : SatOnly g g') {t : Nat} {xt : Node} {kp : Bool × Nat}
    (ht : g.node? t = some xt) (hbelow : below xt.key kp = true) :
    belowCount g' xt.key < belowCount g kp := by
  unfold belowCount
  rw [hso.1]
  apply countP_lt_of
  · intro m _ hm
    cases hq : g'.node? m with
    | none => rw [hq] at hm; cases hm
    | some x' =>
      rw [hq] at hm
      simp only at hm
      obtain ⟨x, s, hx, rfl⟩ := hso.2 m x' hq
      rw [hx]
      simp only
      rw [setSat_key] at hm
      exact below_trans hm hbelow
  · refine ⟨t, List.mem_range.mpr (node?_eq_some_lt ht), ?_, ?_⟩
    · rw [ht]; exact hbelow
    · cases hq : g'.node? t with
      | none => rfl
      | some x' =>
        simp only
        obtain ⟨x, s, hx, rfl⟩ := hso.2 t x' hq
        rw [ht] at hx
        cases hx
        rw [setSat_key]
        exact below_irrefl _

end Wac.Graph
