import WacModel.Spec.Sub
/-
  Lemmas about the specification relation `Wac.Spec.sub` on trees: reflexivity, `sup` is the
  converse of `sub`, transitivity, and the declarative readings of the instance / component rules.
-/
namespace Wac.Spec
open Wac

/-! ### forests -/

theorem Forest.get_cons_self (n : Str) (t : Tree) (r : Forest) : (Forest.cons n t r).get n = some t := by
  simp [Forest.get]

theorem Forest.get_cons_ne {n k : Str} (t : Tree) (r : Forest) (h : n ≠ k) :
    (Forest.cons n t r).get k = r.get k := by
  simp [Forest.get, h]

theorem Forest.hasName_iff_get : ∀ (f : Forest) (k : Str), f.hasName k = true ↔ ∃ t, f.get k = some t
  | .nil, k => by simp [Forest.hasName, Forest.get]
  | .cons n t r, k => by
    by_cases h : n = k
    · subst h; simp [Forest.hasName, Forest.get]
    · simp [Forest.hasName, Forest.get, h, Forest.hasName_iff_get r k]

theorem Forest.hasName_false_iff (f : Forest) (k : Str) : f.hasName k = false ↔ f.get k = none := by
  have := Forest.hasName_iff_get f k
  cases h : f.hasName k <;> cases h2 : f.get k <;> simp_all

theorem Forest.namesIn_iff : ∀ (f g : Forest), f.namesIn g = true ↔ ∀ k, f.hasName k = true → g.hasName k = true
  | .nil, g => by simp [Forest.namesIn, Forest.hasName]
  | .cons n t r, g => by
    simp only [Forest.namesIn, Bool.and_eq_true, Forest.namesIn_iff r g, Forest.hasName, Bool.or_eq_true, beq_iff_eq]
    constructor
    · rintro ⟨h1, h2⟩ k (rfl | hk)
      · exact h1
      · exact h2 k hk
    · intro h
      exact ⟨h n (Or.inl rfl), fun k hk => h k (Or.inr hk)⟩

theorem Forest.get_hasName {f : Forest} {k : Str} {t : Tree} (h : f.get k = some t) : f.hasName k = true :=
  (Forest.hasName_iff_get f k).2 ⟨t, h⟩

/-- subtrees of a forest with distinct names have distinct names -/
theorem Forest.nd_get : ∀ (f : Forest) (k : Str) (t : Tree), f.namesDistinct = true → f.get k = some t →
    t.namesDistinct = true
  | .nil, k, t, _, h => by simp [Forest.get] at h
  | .cons n u r, k, t, hd, h => by
    simp only [Forest.namesDistinct, Bool.and_eq_true] at hd
    by_cases hk : n = k
    · subst hk; simp [Forest.get] at h; subst h; exact hd.1.2
    · simp [Forest.get, hk] at h; exact Forest.nd_get r k t hd.2 h

theorem subShared_iff : ∀ (f g : Forest), f.namesDistinct = true →
    (subShared f g = true ↔ ∀ k ta tb, f.get k = some ta → g.get k = some tb → sub ta tb = true)
  | .nil, g, _ => by simp [subShared, Forest.get]
  | .cons n t r, g, hd => by
    simp only [Forest.namesDistinct, Bool.and_eq_true, Bool.not_eq_true'] at hd
    have ih := subShared_iff r g hd.2
    simp only [subShared, Bool.and_eq_true, ih]
    constructor
    · rintro ⟨h1, h2⟩ k ta tb hf hg
      by_cases hk : n = k
      · subst hk
        simp [Forest.get] at hf; subst hf
        simpa [hg] using h1
      · simp [Forest.get, hk] at hf
        exact h2 k ta tb hf hg
    · intro h
      refine ⟨?_, ?_⟩
      · cases hg : g.get n with
        | none => rfl
        | some tb => exact h n t tb (Forest.get_cons_self n t r) hg
      · intro k ta tb hf hg
        have hne : n ≠ k := by
          rintro rfl
          have := Forest.get_hasName hf
          simp [hd.1.1] at this
        exact h k ta tb (by simpa [Forest.get, hne] using hf) hg

theorem supAll_iff : ∀ (f g : Forest), f.namesDistinct = true →
    (supAll f g = true ↔ ∀ k ta, f.get k = some ta → ∃ tb, g.get k = some tb ∧ sup ta tb = true)
  | .nil, g, _ => by simp [supAll, Forest.get]
  | .cons n t r, g, hd => by
    simp only [Forest.namesDistinct, Bool.and_eq_true, Bool.not_eq_true'] at hd
    have ih := supAll_iff r g hd.2
    simp only [supAll, Bool.and_eq_true, ih]
    constructor
    · rintro ⟨h1, h2⟩ k ta hf
      by_cases hk : n = k
      · subst hk
        simp [Forest.get] at hf; subst hf
        cases hg : g.get n with
        | none => simp [hg] at h1
        | some tb => exact ⟨tb, rfl, by simpa [hg] using h1⟩
      · simp [Forest.get, hk] at hf
        exact h2 k ta hf
    · intro h
      refine ⟨?_, ?_⟩
      · obtain ⟨tb, hg, hs⟩ := h n t (Forest.get_cons_self n t r)
        simp [hg, hs]
      · intro k ta hf
        have hne : n ≠ k := by
          rintro rfl
          have := Forest.get_hasName hf
          simp [hd.1.1] at this
        exact h k ta (by simpa [Forest.get, hne] using hf)

theorem namesIn_iff_get (f g : Forest) :
    f.namesIn g = true ↔ ∀ k t, f.get k = some t → ∃ u, g.get k = some u := by
  rw [Forest.namesIn_iff]
  constructor
  · intro h k t hf
    exact (Forest.hasName_iff_get g k).1 (h k (Forest.get_hasName hf))
  · intro h k hk
    obtain ⟨t, ht⟩ := (Forest.hasName_iff_get f k).1 hk
    obtain ⟨u, hu⟩ := h k t ht
    exact Forest.get_hasName hu

/-! ### `sup` is the converse of `sub` -/

theorem Tree.beq_comm (a b : Tree) : (a == b) = (b == a) := by
  show decide (a = b) = decide (b = a)
  exact decide_eq_decide.2 ⟨Eq.symm, Eq.symm⟩

/-- the statement proved by structural recursion on `a` -/
def SwapP (a : Tree) : Prop :=
  ∀ b, a.namesDistinct = true → b.namesDistinct = true → (sup a b = sub b a ∧ sub a b = sup b a)

theorem forest_swap_lemma (f g : Forest) (hf : f.namesDistinct = true) (hg : g.namesDistinct = true)
    (H : ∀ k t, f.get k = some t → SwapP t) :
    supAll f g = (f.namesIn g && subShared g f) ∧ (g.namesIn f && subShared f g) = supAll g f := by
  constructor
  · rw [Bool.eq_iff_iff, Bool.and_eq_true, supAll_iff f g hf, subShared_iff g f hg, namesIn_iff_get]
    constructor
    · intro h
      refine ⟨fun k t hk => ?_, fun k tb ta hgk hfk => ?_⟩
      · obtain ⟨u, hu, _⟩ := h k t hk; exact ⟨u, hu⟩
      · obtain ⟨u, hu, hs⟩ := h k ta hfk
        rw [hgk] at hu; cases hu
        rw [← (H k ta hfk tb (Forest.nd_get f k ta hf hfk) (Forest.nd_get g k tb hg hgk)).1]; exact hs
    · rintro ⟨h1, h2⟩ k ta hfk
      obtain ⟨u, hu⟩ := h1 k ta hfk
      refine ⟨u, hu, ?_⟩
      rw [(H k ta hfk u (Forest.nd_get f k ta hf hfk) (Forest.nd_get g k u hg hu)).1]
      exact h2 k u ta hu hfk
  · rw [Bool.eq_iff_iff, Bool.and_eq_true, supAll_iff g f hg, subShared_iff f g hf, namesIn_iff_get]
    constructor
    · rintro ⟨h1, h2⟩ k tb hgk
      obtain ⟨ta, hta⟩ := h1 k tb hgk
      refine ⟨ta, hta, ?_⟩
      rw [← (H k ta hta tb (Forest.nd_get f k ta hf hta) (Forest.nd_get g k tb hg hgk)).2]
      exact h2 k ta tb hta hgk
    · intro h
      refine ⟨fun k t hk => ?_, fun k ta tb hfk hgk => ?_⟩
      · obtain ⟨u, hu, _⟩ := h k t hk; exact ⟨u, hu⟩
      · obtain ⟨u, hu, hs⟩ := h k tb hgk
        rw [hfk] at hu; cases hu
        rw [(H k ta hfk tb (Forest.nd_get f k ta hf hfk) (Forest.nd_get g k tb hg hgk)).2]; exact hs

theorem swap_leaf (a : Tree)
    (h1 : ∀ b, sup a b = (a == b)) (h2 : ∀ b, sub a b = (a == b))
    (h3 : ∀ b, sub b a = (b == a)) (h4 : ∀ b, sup b a = (b == a)) : SwapP a := by
  intro b _ _
  rw [h1, h2, h3, h4]
  exact ⟨Tree.beq_comm a b, Tree.beq_comm a b⟩

mutual
theorem tree_swap : ∀ a : Tree, SwapP a
  | .instance ea => by
    intro b ha hb
    cases b with
    | «instance» eb =>
      simp only [Tree.namesDistinct] at ha hb
      have L := forest_swap_lemma ea eb ha hb (forest_swap ea)
      simp only [sub, sup]
      exact ⟨L.1, L.2⟩
    | _ => exact ⟨by simp only [sub, sup]; exact Tree.beq_comm _ _, by simp only [sub, sup]; exact Tree.beq_comm _ _⟩
  | .component ia ea => by
    intro b ha hb
    cases b with
    | component ib eb =>
      simp only [Tree.namesDistinct, Bool.and_eq_true] at ha hb
      have Li := forest_swap_lemma ia ib ha.1 hb.1 (forest_swap ia)
      have Le := forest_swap_lemma ea eb ha.2 hb.2 (forest_swap ea)
      simp only [sub, sup]
      refine ⟨?_, ?_⟩
      · rw [Li.2, Le.1, Bool.and_assoc]
      · rw [Li.1, ← Le.2, Bool.and_assoc]
    | _ => exact ⟨by simp only [sub, sup]; exact Tree.beq_comm _ _, by simp only [sub, sup]; exact Tree.beq_comm _ _⟩
  | .module ma => by
    intro b _ _
    cases b <;> first | exact ⟨by simp only [sub, sup]; exact Tree.beq_comm _ _, by simp only [sub, sup]; exact Tree.beq_comm _ _⟩ | simp [sub, sup]
  | .type ta => by
    intro b ha hb
    cases b with
    | type tb =>
      simp only [Tree.namesDistinct] at ha hb
      simpa [sub, sup] using tree_swap ta tb ha hb
    | _ => exact ⟨by simp only [sub, sup]; exact Tree.beq_comm _ _, by simp only [sub, sup]; exact Tree.beq_comm _ _⟩
  | .none => by intro b _ _; cases b <;> first | exact ⟨by simp only [sub, sup]; exact Tree.beq_comm _ _, by simp only [sub, sup]; exact Tree.beq_comm _ _⟩ | simp [sub, sup]
  | .prim _ => by intro b _ _; cases b <;> exact ⟨by simp only [sub, sup]; exact Tree.beq_comm _ _, by simp only [sub, sup]; exact Tree.beq_comm _ _⟩
  | .own _ => by intro b _ _; cases b <;> exact ⟨by simp only [sub, sup]; exact Tree.beq_comm _ _, by simp only [sub, sup]; exact Tree.beq_comm _ _⟩
  | .borrow _ => by intro b _ _; cases b <;> exact ⟨by simp only [sub, sup]; exact Tree.beq_comm _ _, by simp only [sub, sup]; exact Tree.beq_comm _ _⟩
  | .tuple _ => by intro b _ _; cases b <;> exact ⟨by simp only [sub, sup]; exact Tree.beq_comm _ _, by simp only [sub, sup]; exact Tree.beq_comm _ _⟩
  | .list _ => by intro b _ _; cases b <;> exact ⟨by simp only [sub, sup]; exact Tree.beq_comm _ _, by simp only [sub, sup]; exact Tree.beq_comm _ _⟩
  | .fixedList _ _ => by intro b _ _; cases b <;> exact ⟨by simp only [sub, sup]; exact Tree.beq_comm _ _, by simp only [sub, sup]; exact Tree.beq_comm _ _⟩
  | .option _ => by intro b _ _; cases b <;> exact ⟨by simp only [sub, sup]; exact Tree.beq_comm _ _, by simp only [sub, sup]; exact Tree.beq_comm _ _⟩
  | .result _ _ => by intro b _ _; cases b <;> exact ⟨by simp only [sub, sup]; exact Tree.beq_comm _ _, by simp only [sub, sup]; exact Tree.beq_comm _ _⟩
  | .variant _ => by intro b _ _; cases b <;> exact ⟨by simp only [sub, sup]; exact Tree.beq_comm _ _, by simp only [sub, sup]; exact Tree.beq_comm _ _⟩
  | .record _ => by intro b _ _; cases b <;> exact ⟨by simp only [sub, sup]; exact Tree.beq_comm _ _, by simp only [sub, sup]; exact Tree.beq_comm _ _⟩
  | .flags _ => by intro b _ _; cases b <;> exact ⟨by simp only [sub, sup]; exact Tree.beq_comm _ _, by simp only [sub, sup]; exact Tree.beq_comm _ _⟩
  | .enum _ => by intro b _ _; cases b <;> exact ⟨by simp only [sub, sup]; exact Tree.beq_comm _ _, by simp only [sub, sup]; exact Tree.beq_comm _ _⟩
  | .stream _ => by intro b _ _; cases b <;> exact ⟨by simp only [sub, sup]; exact Tree.beq_comm _ _, by simp only [sub, sup]; exact Tree.beq_comm _ _⟩
  | .future _ => by intro b _ _; cases b <;> exact ⟨by simp only [sub, sup]; exact Tree.beq_comm _ _, by simp only [sub, sup]; exact Tree.beq_comm _ _⟩
  | .func _ _ _ => by intro b _ _; cases b <;> exact ⟨by simp only [sub, sup]; exact Tree.beq_comm _ _, by simp only [sub, sup]; exact Tree.beq_comm _ _⟩
  | .value _ => by intro b _ _; cases b <;> exact ⟨by simp only [sub, sup]; exact Tree.beq_comm _ _, by simp only [sub, sup]; exact Tree.beq_comm _ _⟩
  | .resource _ => by intro b _ _; cases b <;> exact ⟨by simp only [sub, sup]; exact Tree.beq_comm _ _, by simp only [sub, sup]; exact Tree.beq_comm _ _⟩
termination_by structural a => a
theorem forest_swap : ∀ (f : Forest) (k : Str) (t : Tree), f.get k = some t → SwapP t
  | .nil, k, t, h => by simp [Forest.get] at h
  | .cons n u r, k, t, h => by
    by_cases hk : n = k
    · subst hk; simp [Forest.get] at h; subst h; exact tree_swap u
    · simp [Forest.get, hk] at h; exact forest_swap r k t h
termination_by structural f => f
end

/-- `sup` decides the converse of `sub` -/
theorem sup_eq_sub_swap (a b : Tree) (ha : a.namesDistinct = true) (hb : b.namesDistinct = true) :
    sup a b = sub b a := (tree_swap a b ha hb).1

/-! ### declarative readings of the instance and component rules -/

theorem sub_instance_iff (x y : Forest) (hx : x.namesDistinct = true) :
    sub (.instance x) (.instance y) = true ↔
      ∀ k ty, y.get k = some ty → ∃ tx, x.get k = some tx ∧ sub tx ty = true := by
  simp only [sub, Bool.and_eq_true, namesIn_iff_get, subShared_iff x y hx]
  constructor
  · rintro ⟨h1, h2⟩ k ty hy
    obtain ⟨tx, htx⟩ := h1 k ty hy
    exact ⟨tx, htx, h2 k tx ty htx hy⟩
  · intro h
    refine ⟨fun k t hy => ?_, fun k tx ty hxk hyk => ?_⟩
    · obtain ⟨tx, htx, _⟩ := h k t hy; exact ⟨tx, htx⟩
    · obtain ⟨tx', htx', hs⟩ := h k ty hyk
      rw [hxk] at htx'; cases htx'; exact hs

theorem sub_component_iff (ix ex iy ey : Forest)
    (hix : ix.namesDistinct = true) (hex : ex.namesDistinct = true) (hiy : iy.namesDistinct = true) :
    sub (.component ix ex) (.component iy ey) = true ↔
      (∀ k tx, ix.get k = some tx → ∃ ty, iy.get k = some ty ∧ sub ty tx = true) ∧
      (∀ k ty, ey.get k = some ty → ∃ tx, ex.get k = some tx ∧ sub tx ty = true) := by
  have hi := sub_instance_iff ex ey hex
  simp only [sub, Bool.and_eq_true] at hi ⊢
  rw [and_assoc, hi, supAll_iff ix iy hix]
  constructor
  · rintro ⟨h1, h2⟩
    refine ⟨fun k tx hk => ?_, h2⟩
    obtain ⟨ty, hty, hs⟩ := h1 k tx hk
    exact ⟨ty, hty, by rw [← sup_eq_sub_swap tx ty (Forest.nd_get ix k tx hix hk) (Forest.nd_get iy k ty hiy hty)]; exact hs⟩
  · rintro ⟨h1, h2⟩
    refine ⟨fun k tx hk => ?_, h2⟩
    obtain ⟨ty, hty, hs⟩ := h1 k tx hk
    exact ⟨ty, hty, by rw [sup_eq_sub_swap tx ty (Forest.nd_get ix k tx hix hk) (Forest.nd_get iy k ty hiy hty)]; exact hs⟩

/-! ### core modules -/

theorem alGet_mem {κ β : Type} [BEq κ] [LawfulBEq κ] : ∀ (l : List (κ × β)) (k : κ) (v : β),
    alGet l k = some v → (k, v) ∈ l
  | [], k, v, h => by simp [alGet] at h
  | (k', v') :: r, k, v, h => by
    by_cases hk : k' = k
    · subst hk; simp [alGet] at h; subst h; simp
    · simp [alGet, hk] at h
      exact List.mem_cons_of_mem _ (alGet_mem r k v h)

theorem alGet_of_mem {κ β : Type} [BEq κ] [LawfulBEq κ] : ∀ (l : List (κ × β)) (k : κ) (v : β),
    keysDistinct l = true → (k, v) ∈ l → alGet l k = some v
  | [], k, v, _, h => by simp at h
  | (k', v') :: r, k, v, hd, h => by
    simp only [keysDistinct, Bool.and_eq_true, Bool.not_eq_true', List.any_eq_false] at hd
    rcases List.mem_cons.1 h with h | h
    · cases h; simp [alGet]
    · have hne : ¬ (k' = k) := by
        rintro rfl
        have := hd.1 (k', v) h
        simp at this
      simp [alGet, hne]
      exact alGet_of_mem r k v hd.2 h

theorem limitsMatch_refl (i : Nat) (m : Option Nat) : limitsMatch i m i m = true := by
  cases m <;> simp [limitsMatch]

theorem limitsMatch_trans {ai bi ci : Nat} {am bm cm : Option Nat}
    (h1 : limitsMatch ai am bi bm = true) (h2 : limitsMatch bi bm ci cm = true) :
    limitsMatch ai am ci cm = true := by
  cases am <;> cases bm <;> cases cm <;> simp_all [limitsMatch] <;> omega

theorem externSub_refl (e : CoreExtern) : externSub e e = true := by
  cases e <;> simp [externSub, limitsMatch_refl]

theorem externSub_trans {a b c : CoreExtern} (h1 : externSub a b = true) (h2 : externSub b c = true) :
    externSub a c = true := by
  cases a <;> cases b <;> simp [externSub] at h1 <;> cases c <;> simp [externSub] at h2 ⊢
  · exact h1.trans h2
  · obtain ⟨⟨⟨e1, e2⟩, e3⟩, e4⟩ := h1
    obtain ⟨⟨⟨f1, f2⟩, f3⟩, f4⟩ := h2
    exact ⟨⟨⟨e1.trans f1, e2.trans f2⟩, e3.trans f3⟩, limitsMatch_trans e4 f4⟩
  · obtain ⟨⟨⟨e1, e2⟩, e3⟩, e4⟩ := h1
    obtain ⟨⟨⟨f1, f2⟩, f3⟩, f4⟩ := h2
    exact ⟨⟨⟨e1.trans f1, e2.trans f2⟩, e3.trans f3⟩, limitsMatch_trans e4 f4⟩
  · obtain ⟨⟨e1, e2⟩, e3⟩ := h1
    obtain ⟨⟨f1, f2⟩, f3⟩ := h2
    exact ⟨⟨e1.trans f1, e2.trans f2⟩, e3.trans f3⟩
  · exact h1.trans h2

theorem moduleSub_iff (a b : ModuleType) :
    moduleSub a b = true ↔
      (∀ k ea, (k, ea) ∈ a.imports → ∃ eb, alGet b.imports k = some eb ∧ externSub eb ea = true) ∧
      (∀ k eb, (k, eb) ∈ b.exports → ∃ ea, alGet a.exports k = some ea ∧ externSub ea eb = true) := by
  simp only [moduleSub, Bool.and_eq_true, List.all_eq_true]
  constructor
  · rintro ⟨h1, h2⟩
    refine ⟨fun k ea hm => ?_, fun k eb hm => ?_⟩
    · have := h1 (k, ea) hm
      cases hg : alGet b.imports k with
      | none => simp [hg] at this
      | some eb => exact ⟨eb, rfl, by simpa [hg] using this⟩
    · have := h2 (k, eb) hm
      cases hg : alGet a.exports k with
      | none => simp [hg] at this
      | some ea => exact ⟨ea, rfl, by simpa [hg] using this⟩
  · rintro ⟨h1, h2⟩
    refine ⟨fun x hm => ?_, fun x hm => ?_⟩
    · obtain ⟨eb, hg, hs⟩ := h1 x.1 x.2 hm
      simp [hg, hs]
    · obtain ⟨ea, hg, hs⟩ := h2 x.1 x.2 hm
      simp [hg, hs]

theorem moduleSub_refl (a : ModuleType) (h : a.keysDistinct = true) : moduleSub a a = true := by
  simp only [ModuleType.keysDistinct, Bool.and_eq_true] at h
  rw [moduleSub_iff]
  exact ⟨fun k ea hm => ⟨ea, alGet_of_mem _ k ea h.1 hm, externSub_refl ea⟩,
         fun k eb hm => ⟨eb, alGet_of_mem _ k eb h.2 hm, externSub_refl eb⟩⟩

theorem moduleSub_trans {a b c : ModuleType} (h1 : moduleSub a b = true) (h2 : moduleSub b c = true) :
    moduleSub a c = true := by
  rw [moduleSub_iff] at h1 h2 ⊢
  refine ⟨fun k ea hm => ?_, fun k ec hm => ?_⟩
  · obtain ⟨eb, hb, hs1⟩ := h1.1 k ea hm
    obtain ⟨ec, hc, hs2⟩ := h2.1 k eb (alGet_mem _ k eb hb)
    exact ⟨ec, hc, externSub_trans hs2 hs1⟩
  · obtain ⟨eb, hb, hs2⟩ := h2.2 k ec hm
    obtain ⟨ea, ha, hs1⟩ := h1.2 k eb (alGet_mem _ k eb hb)
    exact ⟨ea, ha, externSub_trans hs1 hs2⟩

/-! ### reflexivity -/

def ReflP (a : Tree) : Prop := a.namesDistinct = true → sub a a = true

mutual
theorem tree_refl : ∀ a : Tree, ReflP a
  | .instance ea => by
    intro ha
    simp only [Tree.namesDistinct] at ha
    rw [sub_instance_iff ea ea ha]
    intro k t hk
    exact ⟨t, hk, forest_refl ea k t hk (Forest.nd_get ea k t ha hk)⟩
  | .component ia ea => by
    intro ha
    simp only [Tree.namesDistinct, Bool.and_eq_true] at ha
    rw [sub_component_iff ia ea ia ea ha.1 ha.2 ha.1]
    exact ⟨fun k t hk => ⟨t, hk, forest_refl ia k t hk (Forest.nd_get ia k t ha.1 hk)⟩,
           fun k t hk => ⟨t, hk, forest_refl ea k t hk (Forest.nd_get ea k t ha.2 hk)⟩⟩
  | .module m => by
    intro ha
    simp only [Tree.namesDistinct] at ha
    simpa [sub] using moduleSub_refl m ha
  | .type t => by
    intro ha
    simp only [Tree.namesDistinct] at ha
    simpa [sub] using tree_refl t ha
  | .none => by intro _; simp [sub]
  | .prim _ => by intro _; simp [sub]
  | .own _ => by intro _; simp [sub]
  | .borrow _ => by intro _; simp [sub]
  | .tuple _ => by intro _; simp [sub]
  | .list _ => by intro _; simp [sub]
  | .fixedList _ _ => by intro _; simp [sub]
  | .option _ => by intro _; simp [sub]
  | .result _ _ => by intro _; simp [sub]
  | .variant _ => by intro _; simp [sub]
  | .record _ => by intro _; simp [sub]
  | .flags _ => by intro _; simp [sub]
  | .enum _ => by intro _; simp [sub]
  | .stream _ => by intro _; simp [sub]
  | .future _ => by intro _; simp [sub]
  | .func _ _ _ => by intro _; simp [sub]
  | .value _ => by intro _; simp [sub]
  | .resource _ => by intro _; simp [sub]
termination_by structural a => a
theorem forest_refl : ∀ (f : Forest) (k : Str) (t : Tree), f.get k = some t → ReflP t
  | .nil, k, t, h => by simp [Forest.get] at h
  | .cons n u r, k, t, h => by
    by_cases hk : n = k
    · subst hk; simp [Forest.get] at h; subst h; exact tree_refl u
    · simp [Forest.get, hk] at h; exact forest_refl r k t h
termination_by structural f => f
end

theorem sub_refl (a : Tree) (ha : a.namesDistinct = true) : sub a a = true := tree_refl a ha

/-! ### transitivity -/

/-- kinds compared by equality: `sub` with such a tree on either side is `==` -/
def isEqKind : Tree → Bool
  | .instance _ | .component _ _ | .module _ | .type _ => false
  | _ => true

theorem sub_eqKind_left (a b : Tree) (h : isEqKind a = true) : sub a b = (a == b) := by
  cases a <;> simp [isEqKind] at h <;> simp [sub]

theorem sub_eqKind_right (a b : Tree) (h : isEqKind a = true) : sub b a = (b == a) := by
  cases a <;> simp [isEqKind] at h <;> cases b <;> simp [sub]

def TransP (a : Tree) : Prop :=
  ∀ b c, a.namesDistinct = true → b.namesDistinct = true → c.namesDistinct = true →
    (sub a b = true → sub b c = true → sub a c = true) ∧
    (sub c b = true → sub b a = true → sub c a = true)

theorem trans_eqKind (a : Tree) (h : isEqKind a = true) : TransP a := by
  intro b c _ _ _
  constructor
  · intro h1 h2
    rw [sub_eqKind_left a b h] at h1
    have : a = b := by simpa using h1
    subst this; exact h2
  · intro h1 h2
    rw [sub_eqKind_right a b h] at h2
    have : b = a := by simpa using h2
    subst this; exact h1

mutual
theorem tree_trans : ∀ a : Tree, TransP a
  | .instance ea => by
    intro b c ha hb hc
    cases b with
    | «instance» eb =>
      cases c with
      | «instance» ec =>
        simp only [Tree.namesDistinct] at ha hb hc
        constructor
        · intro h1 h2
          rw [sub_instance_iff ea eb ha] at h1
          rw [sub_instance_iff eb ec hb] at h2
          rw [sub_instance_iff ea ec ha]
          intro k tc hk
          obtain ⟨tb, hbk, s2⟩ := h2 k tc hk
          obtain ⟨ta, hak, s1⟩ := h1 k tb hbk
          exact ⟨ta, hak, (forest_trans ea k ta hak tb tc (Forest.nd_get ea k ta ha hak)
            (Forest.nd_get eb k tb hb hbk) (Forest.nd_get ec k tc hc hk)).1 s1 s2⟩
        · intro h1 h2
          rw [sub_instance_iff ec eb hc] at h1
          rw [sub_instance_iff eb ea hb] at h2
          rw [sub_instance_iff ec ea hc]
          intro k ta hk
          obtain ⟨tb, hbk, s2⟩ := h2 k ta hk
          obtain ⟨tc, hck, s1⟩ := h1 k tb hbk
          exact ⟨tc, hck, (forest_trans ea k ta hk tb tc (Forest.nd_get ea k ta ha hk)
            (Forest.nd_get eb k tb hb hbk) (Forest.nd_get ec k tc hc hck)).2 s1 s2⟩
      | _ => exact ⟨fun _ h2 => by simp [sub] at h2, fun h1 _ => by simp [sub] at h1⟩
    | _ => exact ⟨fun h1 _ => by simp [sub] at h1, fun _ h2 => by simp [sub] at h2⟩
  | .component ia ea => by
    intro b c ha hb hc
    cases b with
    | component ib eb =>
      cases c with
      | component ic ec =>
        simp only [Tree.namesDistinct, Bool.and_eq_true] at ha hb hc
        constructor
        · intro h1 h2
          rw [sub_component_iff ia ea ib eb ha.1 ha.2 hb.1] at h1
          rw [sub_component_iff ib eb ic ec hb.1 hb.2 hc.1] at h2
          rw [sub_component_iff ia ea ic ec ha.1 ha.2 hc.1]
          refine ⟨fun k ta hk => ?_, fun k tc hk => ?_⟩
          · obtain ⟨tb, hbk, s1⟩ := h1.1 k ta hk
            obtain ⟨tc, hck, s2⟩ := h2.1 k tb hbk
            exact ⟨tc, hck, (forest_trans ia k ta hk tb tc (Forest.nd_get ia k ta ha.1 hk)
              (Forest.nd_get ib k tb hb.1 hbk) (Forest.nd_get ic k tc hc.1 hck)).2 s2 s1⟩
          · obtain ⟨tb, hbk, s2⟩ := h2.2 k tc hk
            obtain ⟨ta, hak, s1⟩ := h1.2 k tb hbk
            exact ⟨ta, hak, (forest_trans ea k ta hak tb tc (Forest.nd_get ea k ta ha.2 hak)
              (Forest.nd_get eb k tb hb.2 hbk) (Forest.nd_get ec k tc hc.2 hk)).1 s1 s2⟩
        · intro h1 h2
          rw [sub_component_iff ic ec ib eb hc.1 hc.2 hb.1] at h1
          rw [sub_component_iff ib eb ia ea hb.1 hb.2 ha.1] at h2
          rw [sub_component_iff ic ec ia ea hc.1 hc.2 ha.1]
          refine ⟨fun k tc hk => ?_, fun k ta hk => ?_⟩
          · obtain ⟨tb, hbk, s1⟩ := h1.1 k tc hk
            obtain ⟨ta, hak, s2⟩ := h2.1 k tb hbk
            exact ⟨ta, hak, (forest_trans ia k ta hak tb tc (Forest.nd_get ia k ta ha.1 hak)
              (Forest.nd_get ib k tb hb.1 hbk) (Forest.nd_get ic k tc hc.1 hk)).1 s2 s1⟩
          · obtain ⟨tb, hbk, s2⟩ := h2.2 k ta hk
            obtain ⟨tc, hck, s1⟩ := h1.2 k tb hbk
            exact ⟨tc, hck, (forest_trans ea k ta hk tb tc (Forest.nd_get ea k ta ha.2 hk)
              (Forest.nd_get eb k tb hb.2 hbk) (Forest.nd_get ec k tc hc.2 hck)).2 s1 s2⟩
      | _ => exact ⟨fun _ h2 => by simp [sub] at h2, fun h1 _ => by simp [sub] at h1⟩
    | _ => exact ⟨fun h1 _ => by simp [sub] at h1, fun _ h2 => by simp [sub] at h2⟩
  | .module ma => by
    intro b c _ _ _
    cases b with
    | module mb =>
      cases c with
      | module mc =>
        simp only [sub]
        exact ⟨moduleSub_trans, fun h1 h2 => moduleSub_trans h1 h2⟩
      | _ => exact ⟨fun _ h2 => by simp [sub] at h2, fun h1 _ => by simp [sub] at h1⟩
    | _ => exact ⟨fun h1 _ => by simp [sub] at h1, fun _ h2 => by simp [sub] at h2⟩
  | .type ta => by
    intro b c ha hb hc
    cases b with
    | type tb =>
      cases c with
      | type tc =>
        simp only [Tree.namesDistinct] at ha hb hc
        simpa [sub] using tree_trans ta tb tc ha hb hc
      | _ => exact ⟨fun _ h2 => by simp [sub] at h2, fun h1 _ => by simp [sub] at h1⟩
    | _ => exact ⟨fun h1 _ => by simp [sub] at h1, fun _ h2 => by simp [sub] at h2⟩
  | .none => trans_eqKind _ rfl
  | .prim _ => trans_eqKind _ rfl
  | .own _ => trans_eqKind _ rfl
  | .borrow _ => trans_eqKind _ rfl
  | .tuple _ => trans_eqKind _ rfl
  | .list _ => trans_eqKind _ rfl
  | .fixedList _ _ => trans_eqKind _ rfl
  | .option _ => trans_eqKind _ rfl
  | .result _ _ => trans_eqKind _ rfl
  | .variant _ => trans_eqKind _ rfl
  | .record _ => trans_eqKind _ rfl
  | .flags _ => trans_eqKind _ rfl
  | .enum _ => trans_eqKind _ rfl
  | .stream _ => trans_eqKind _ rfl
  | .future _ => trans_eqKind _ rfl
  | .func _ _ _ => trans_eqKind _ rfl
  | .value _ => trans_eqKind _ rfl
  | .resource _ => trans_eqKind _ rfl
termination_by structural a => a
theorem forest_trans : ∀ (f : Forest) (k : Str) (t : Tree), f.get k = some t → TransP t
  | .nil, k, t, h => by simp [Forest.get] at h
  | .cons n u r, k, t, h => by
    by_cases hk : n = k
    · subst hk; simp [Forest.get] at h; subst h; exact tree_trans u
    · simp [Forest.get, hk] at h; exact forest_trans r k t h
termination_by structural f => f
end

theorem sub_trans' (a b c : Tree) (ha : a.namesDistinct = true) (hb : b.namesDistinct = true)
    (hc : c.namesDistinct = true) (h1 : sub a b = true) (h2 : sub b c = true) : sub a c = true :=
  (tree_trans a b c ha hb hc).1 h1 h2

end Wac.Spec
