import WacProofs.Lemmas.GraphAbsReach
import WacProofs.Lemmas.GraphAbsRemoveSet
/-
  C06 refinement: `remove_node`.  The recursive cascade (depth-first, dependants before the
  node, already removed dependants skipped) removes exactly the closure of the node under
  "aliased from / built from", whatever the adjacency order.
-/
namespace Wac.Graph
open Wac Wac.HashSites

theorem removeSet_none (a : Abs) : a.removeSet (fun _ => false) = a := by
  unfold Abs.removeSet
  refine Abs.ext' rfl ?_ ?_ ?_ ?_ ?_ ?_ ?_ rfl rfl
  · funext m; simp
  · funext i k; simp only; cases a.arg i k <;> simp
  · funext t; simp only; cases a.aliasOf t <;> simp
  · funext x y; simp
  · funext nm; simp only; cases a.exports nm <;> simp
  · funext nm; simp only; cases a.imports nm <;> simp
  · funext nm; simp only; cases a.defined nm <;> simp

/-- both ends of an "aliased from / built from" step are live nodes -/
theorem Inv.succ_live {ctx : Ctx} {g : Graph} (h : Inv ctx g) {m t : Nat} (hs : (abs g).succ m t = true) :
    (∃ e ∈ g.edges, e.src = m ∧ e.dst = t ∧ e.kind.isArg = false) := by
  unfold Abs.succ at hs
  rcases Bool.or_eq_true _ _ ▸ hs with hd | ha
  · exact ⟨_, abs_dep.mp hd, rfl, rfl, rfl⟩
  · cases hq : (abs g).aliasOf t with
    | none => rw [hq] at ha; cases ha
    | some p =>
      obtain ⟨s, j⟩ := p
      rw [hq] at ha
      have : s = m := by simpa using ha
      subst this
      exact ⟨_, h.abs_alias.mp hq, rfl, rfl, rfl⟩

theorem Inv.succ_lt {ctx : Ctx} {g : Graph} (h : Inv ctx g) (m t : Nat) (hs : (abs g).succ m t = true) :
    t < (abs g).cap := by
  obtain ⟨e, he, _, hd, _⟩ := h.succ_live hs
  obtain ⟨_, ⟨y, hy⟩⟩ := h.edge_live he
  rw [hd] at hy
  exact node?_eq_some_lt hy

theorem Inv.reach_closure {ctx : Ctx} {g : Graph} (h : Inv ctx g) {n : Nat} (hn : ∃ x, g.node? n = some x) :
    IsClosure (abs g) n ((abs g).reach n) := by
  obtain ⟨x, hx⟩ := hn
  exact Wac.Graph.reach_closure (abs g) n (node?_eq_some_lt hx) h.succ_lt

/-- the targets of the cascade are the direct dependants -/
theorem mem_targets_iff {ctx : Ctx} {g : Graph} (h : Inv ctx g) {n t : Nat} :
    t ∈ cascadeTargets (g.outEdges n) ↔ (abs g).succ n t = true := by
  rw [mem_cascadeTargets]
  constructor
  · rintro ⟨e, he, hd, hk⟩
    unfold Graph.outEdges at he
    rw [List.mem_filter] at he
    have hsrc : e.src = n := by simpa using he.2
    unfold Abs.succ
    cases hkk : e.kind with
    | alias j =>
      have : e = ⟨n, t, .alias j⟩ := by cases e; simp only at hsrc hd hkk; subst hsrc; subst hd; subst hkk; rfl
      rw [this] at he
      rw [h.abs_alias.mpr he.1]; simp
    | dep =>
      have : e = ⟨n, t, .dep⟩ := by cases e; simp only at hsrc hd hkk; subst hsrc; subst hd; subst hkk; rfl
      rw [this] at he
      rw [abs_dep.mpr he.1]; rfl
    | arg j => rw [hkk] at hk; cases hk
  · intro hs
    obtain ⟨e, he, hsrc, hd, hk⟩ := h.succ_live hs
    refine ⟨e, ?_, hd, hk⟩
    unfold Graph.outEdges
    rw [List.mem_filter]; exact ⟨he, by simpa using hsrc⟩

/-- the union of the closures of a list of nodes -/
def reachAny (a : Abs) (ts : List Nat) (x : Nat) : Bool := ts.any (fun t => a.reach t x)

theorem reachAny_append (a : Abs) (ts : List Nat) (t x : Nat) :
    reachAny a (ts ++ [t]) x = (reachAny a ts x || a.reach t x) := by
  unfold reachAny; simp [List.any_append]

theorem detach_live {g g' : Graph} {n : Nat} (hd : detachNode .fixed g n = (g', none)) :
    ∃ nd, g.node? n = some nd := by
  obtain ⟨g0, nd0, g1, hc, hr, _⟩ := detach_eq hd
  have c := clearSatEdges_spec _ _ _ _ hc
  cases hq : g.node? n with
  | none =>
    exfalso
    unfold Graph.rawRemove at hr
    rw [c.node n, hq] at hr
    simp at hr
  | some nd => exact ⟨nd, rfl⟩

/-- what one level of the recursion does to the abstract state -/
def LevelAbs (ctx : Ctx) (fuel : Nat) : Prop :=
  ∀ g n g', Inv ctx g → removeNodeAux .fixed fuel g n = (g', none) →
    abs g' = (abs g).removeSet ((abs g).reach n) ∧ ∃ x, g.node? n = some x

theorem cascade_loop_abs {ctx : Ctx} {fuel : Nat} (ih : LevelAbs ctx fuel) (g : Graph) (hg : Inv ctx g) :
    ∀ (ts done : List Nat) (gi gA : Graph), Inv ctx gi →
      abs gi = (abs g).removeSet (reachAny (abs g) done) →
      (∀ t ∈ done, ∃ x, g.node? t = some x) → (∀ t ∈ ts, ∃ x, g.node? t = some x) →
      ts.foldl (cascadeStep fuel) (gi, none) = (gA, none) →
      abs gA = (abs g).removeSet (reachAny (abs g) (done ++ ts))
  | [], done, gi, gA, _, habs, _, _, hf => by
    simp only [List.foldl_nil, Prod.mk.injEq, and_true] at hf
    subst hf
    rw [List.append_nil]; exact habs
  | t :: r, done, gi, gA, hgi, habs, hdone, hts, hf => by
    simp only [List.foldl_cons] at hf
    have htl : ∃ x, g.node? t = some x := hts t (List.mem_cons_self ..)
    have hU : Closed (abs g) (reachAny (abs g) done) :=
      closed_any (Rt := fun t => (abs g).reach t) (fun t' ht' => hg.reach_closure (hdone t' ht'))
    have hR := hg.reach_closure htl
    have hdone' : ∀ t' ∈ done ++ [t], ∃ x, g.node? t' = some x := by
      intro t' ht'
      rcases List.mem_append.mp ht' with h1 | h1
      · exact hdone t' h1
      · simp only [List.mem_cons, List.not_mem_nil, or_false] at h1; rw [h1]; exact htl
    have hassoc : done ++ [t] ++ r = done ++ t :: r := by simp
    cases hstep : cascadeStep fuel (gi, none) t with
    | mk g1 o =>
      rw [hstep] at hf
      cases o with
      | some s => rw [cascade_some] at hf; cases hf
      | none =>
        unfold cascadeStep at hstep
        simp only [Legacy.fixed, Bool.false_or] at hstep
        split at hstep
        · rename_i hl
          -- the dependant is still there: one nested `remove_node`
          have hl' : ∃ x, gi.node? t = some x := live_iff.mp hl
          have h1 : Inv ctx g1 := (level_all ctx fuel gi t g1 hgi hstep).1
          obtain ⟨ha1, _⟩ := ih gi t g1 hgi hstep
          have hR' := hgi.reach_closure hl'
          rw [habs] at ha1 hR'
          rw [removeSet_removeSet] at ha1
          have hnew : abs g1 = (abs g).removeSet (reachAny (abs g) (done ++ [t])) := by
            rw [ha1]
            apply removeSet_congr
            intro m
            rw [reachAny_append]
            exact closure_after_removal hU hR hR' m
          have := cascade_loop_abs ih g hg r (done ++ [t]) g1 gA h1 hnew hdone'
            (fun t' ht' => hts t' (List.mem_cons_of_mem _ ht')) hf
          rw [hassoc] at this
          exact this
        · rename_i hl
          -- already removed by an earlier cascade: it is in the set removed so far
          simp only [Prod.mk.injEq, and_true] at hstep
          subst hstep
          have hdeadT : gi.node? t = none := by
            unfold Graph.live at hl
            cases hq : gi.node? t with
            | none => rfl
            | some x => simp [hq] at hl
          have hUt : reachAny (abs g) done t = true := by
            have h1 : (abs gi).node t = none := abs_node_none hdeadT
            rw [habs] at h1
            obtain ⟨x, hx⟩ := htl
            have h2 : (abs g).node t = some x.abs := abs_node_some hx
            show reachAny (abs g) done t = true
            cases hq : reachAny (abs g) done t with
            | true => rfl
            | false =>
              exfalso
              have : ((abs g).removeSet (reachAny (abs g) done)).node t = (abs g).node t := by
                show (if reachAny (abs g) done t = true then none else (abs g).node t) = _
                rw [hq]; rfl
              rw [this, h2] at h1; cases h1
          have hnew : abs gi = (abs g).removeSet (reachAny (abs g) (done ++ [t])) := by
            rw [habs]
            apply removeSet_congr
            intro m
            rw [reachAny_append]
            cases hq : (abs g).reach t m with
            | false => simp
            | true =>
              have : reachAny (abs g) done m = true :=
                hR.least (fun x => reachAny (abs g) done x = true) hUt (fun a b ha hs => hU a b ha hs) m hq
              rw [this]; rfl
          have := cascade_loop_abs ih g hg r (done ++ [t]) gi gA hgi hnew hdone'
            (fun t' ht' => hts t' (List.mem_cons_of_mem _ ht')) hf
          rw [hassoc] at this
          exact this

theorem levelAbs_all (ctx : Ctx) : ∀ fuel, LevelAbs ctx fuel
  | 0 => by
    intro g n g' _ hr
    simp [removeNodeAux] at hr
  | fuel + 1 => by
    intro g n g' h hr
    rw [removeNodeAux_succ] at hr
    cases hloop : (cascadeTargets (g.outEdges n)).foldl (cascadeStep fuel) (g, none) with
    | mk gA o =>
      rw [hloop] at hr
      cases o with
      | some s => simp at hr
      | none =>
        simp only at hr
        obtain ⟨hA, hsh, hdead⟩ := cascade_loop (level_all ctx fuel) _ g gA h hloop
        -- in `gA` the node has no outgoing alias edge: its alias targets are gone
        have hnoalias : ∀ e ∈ gA.edges, e.src = n → e.kind.isAlias = false := by
          intro e he hsrc
          cases hk : e.kind with
          | alias j =>
            exfalso
            have he0 : e ∈ g.outEdges n := by
              unfold Graph.outEdges
              rw [List.mem_filter]; exact ⟨hsh.1 e he, by simpa using hsrc⟩
            have ht : e.dst ∈ cascadeTargets (g.outEdges n) :=
              mem_cascadeTargets.mpr ⟨e, he0, rfl, by simp [hk, EdgeKind.isArg]⟩
            obtain ⟨_, ⟨d, hd⟩⟩ := hA.edge_live he
            rw [hdead _ ht] at hd; cases hd
          | arg j => rfl
          | dep => rfl
        have htsLive : ∀ t ∈ cascadeTargets (g.outEdges n), ∃ x, g.node? t = some x := by
          intro t ht
          obtain ⟨e, he, hd, _⟩ := mem_cascadeTargets.mp ht
          unfold Graph.outEdges at he
          rw [List.mem_filter] at he
          obtain ⟨_, hy⟩ := h.edge_live he.1
          rw [hd] at hy; exact hy
        have habsA := cascade_loop_abs (levelAbs_all ctx fuel) g h (cascadeTargets (g.outEdges n)) [] g gA h
          (by
            have : reachAny (abs g) [] = fun _ => false := by funext x; rfl
            rw [this, removeSet_none])
          (fun _ ht => nomatch ht) htsLive hloop
        rw [List.nil_append] at habsA
        obtain ⟨nd, hq⟩ := detach_live hr
        obtain ⟨nd0, hq0⟩ := hsh.2 n nd hq
        refine ⟨?_, nd0, hq0⟩
        rw [abs_detach hA hq hnoalias hr, habsA, removeSet_removeSet]
        apply removeSet_congr
        intro m
        have hcl := closure_unfold (a := abs g) (n := n) (ts := cascadeTargets (g.outEdges n))
          (Rt := fun t => (abs g).reach t) (h.reach_closure ⟨nd0, hq0⟩) (fun t => mem_targets_iff h)
          (fun t ht => h.reach_closure (htsLive t ht)) m
        rw [hcl]
        unfold reachAny
        rw [Bool.or_comm]

theorem abs_removeNode {ctx : Ctx} {g g' : Graph} {n : Nat} {out : Outcome}
    (h : Inv ctx g) (hs : removeNode .fixed g n = (g', out)) (hp : out.isPanic = false) :
    specStep ctx g.fresh (abs g) (.removeNode n) = (abs g', out) := by
  unfold removeNode at hs
  simp only [specStep]
  split at hs
  · cases hs; cases hp
  · rename_i g1 hr
    obtain ⟨ha, x, hx⟩ := levelAbs_all ctx _ g n g1 h hr
    rw [abs_node_some hx]
    simp only [Prod.mk.injEq] at hs ⊢
    rw [← hs.1, ← hs.2, ha]
    exact ⟨rfl, rfl⟩

end Wac.Graph
