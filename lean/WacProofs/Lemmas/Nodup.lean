import WacProofs.Lemmas.Combinators
/-
  C12 proofs: multiplicity.  The list-of-successes recognisers of the grammar specification never
  return the same (tree, rest) pair twice.  This file: the compositional calculus.

  The invariant is `Inj F p`: in every result list `p ts`, two results at different positions whose
  rests both satisfy `F` have different TREES.  With `F = ⊤` (`NHL []`) this says: no duplicates and
  the tree determines the rest.  The filter `F` (`NHL cs`: the rest does not start with one of the
  terminals `cs`) is needed because a few recognisers derive the same tree with two rests
  (`result` / `result<_>` both give `.Result none none`; a list with and without its optional
  trailing comma): the longer rest then starts with `<` resp. `,`, and what follows in the grammar
  (a terminal `>` `)` `}` `;` `,`) cannot start there.

  Files: `Nodup` (this calculus, namespace `Wac.C12.ND`), `NodupTypes` (leaves, types, function types,
  declarations), `NodupItems` (`use`, interface and world items, type and import statements),
  `NodupDoc` (expressions, statements, documents; `Wac.C12.gDocument_nodup`,
  `Wac.C12.derivations_nodup`, `Wac.C12.derivations_length_le_one`).
-/
namespace Wac.C12.ND
open Wac Wac.Ast Wac.Spec.Grammar

/-! ### membership in the monad -/

theorem mem_bind_iff {α β} (p : SP α) (f : α → SP β) (ts : List STok) (y : β) (s : List STok) :
    (y, s) ∈ (p >>= f) ts ↔ ∃ a r, (a, r) ∈ p ts ∧ (y, s) ∈ f a r := by
  simp [List.mem_flatMap]

theorem mem_pure_iff {α} (a : α) (ts : List STok) (y : α) (s : List STok) :
    (y, s) ∈ (pure a : SP α) ts ↔ y = a ∧ s = ts := by
  simp

theorem mem_alt_iff {α} (p q : SP α) (ts : List STok) (x : α × List STok) :
    x ∈ (p <+> q) ts ↔ x ∈ p ts ∨ x ∈ q ts := by
  simp

/-! ### rest filters -/

/-- the literal token of a terminal -/
def lit (c : String) : STok := ⟨.lit, c.toList⟩

/-- the rest does not start with one of the terminals `cs` -/
def NHL (cs : List String) : List STok → Prop := fun r => ∀ c ∈ cs, r.head? ≠ some (lit c)

theorem NHL_nil (r : List STok) : NHL [] r := by intro c hc; cases hc

theorem NHL_mono {cs cs' : List String} (h : ∀ c ∈ cs, c ∈ cs') {r : List STok} (hr : NHL cs' r) :
    NHL cs r := fun c hc => hr c (h c hc)

theorem NHL_lit_cons {cs : List String} {c : String} (h : c ∉ cs) (r : List STok) :
    NHL cs (lit c :: r) := by
  intro c' hc' heq
  simp only [List.head?_cons, Option.some.injEq, lit, STok.mk.injEq, true_and] at heq
  have := String.toList_inj.mp heq
  subst this; exact h hc'

theorem not_NHL_lit_cons {cs : List String} {c : String} (h : c ∈ cs) (r : List STok) :
    ¬ NHL cs (lit c :: r) := fun hn => hn c h rfl

/-- a recogniser that starts with the terminal `c` only succeeds on inputs starting with `c` -/
theorem head_of_t {β} {c : String} {g : Unit → SP β} {r : List STok} {y : β} {s : List STok}
    (h : (y, s) ∈ (t c >>= g) r) : ∃ r1, r = lit c :: r1 ∧ (y, s) ∈ g () r1 := by
  rw [mem_bind_iff] at h
  obtain ⟨u, r1, h1, h2⟩ := h
  exact ⟨r1, (mem_t _ _ _ _).mp h1, h2⟩

theorem NHL_of_t {β} {cs : List String} {c : String} {g : Unit → SP β} {r : List STok} {y : β}
    {s : List STok} (h : (y, s) ∈ (t c >>= g) r) (hc : c ∉ cs) : NHL cs r := by
  obtain ⟨r1, rfl, _⟩ := head_of_t h
  exact NHL_lit_cons hc r1

/-! ### at most one result -/

def Det {α} (p : SP α) : Prop := ∀ ts, (p ts).length ≤ 1

theorem t_cases (c : String) (ts : List STok) :
    t c ts = [] ∨ ∃ r, ts = lit c :: r ∧ t c ts = [((), r)] := by
  cases h : t c ts with
  | nil => exact .inl rfl
  | cons x l =>
    right
    obtain ⟨u, r⟩ := x
    have hm : ((), r) ∈ t c ts := by rw [h]; exact List.mem_cons_self
    have hts := (mem_t _ _ _ _).mp hm
    refine ⟨r, hts, ?_⟩
    subst hts
    rw [← h]; clear h hm
    simp [t]

theorem det_t (c : String) : Det (t c) := by
  intro ts
  rcases t_cases c ts with h | ⟨r, _, h⟩ <;> simp [h]

theorem det_class_ (k : SKind) : Det (class_ k) := by
  intro ts
  unfold Wac.Spec.Grammar.class_
  split
  · split <;> simp
  · simp

theorem det_pure {α} (a : α) : Det (pure a : SP α) := by intro ts; simp

theorem det_fail {α} : Det (fail : SP α) := by intro ts; simp

theorem det_cases {α} {p : SP α} (h : Det p) (ts : List STok) : p ts = [] ∨ ∃ x, p ts = [x] := by
  have := h ts
  match hp : p ts with
  | [] => exact .inl rfl
  | [x] => exact .inr ⟨x, rfl⟩
  | _ :: _ :: _ => rw [hp] at this; simp at this

theorem det_bind {α β} {p : SP α} {f : α → SP β} (hp : Det p) (hf : ∀ a, Det (f a)) :
    Det (p >>= f) := by
  intro ts
  rcases det_cases hp ts with h | ⟨x, h⟩
  · simp [h]
  · simp only [bind_apply, h, List.flatMap_cons, List.flatMap_nil, List.append_nil]
    exact hf _ _

/-! ### the invariant -/

def RelF {α} (F : List STok → Prop) (u v : α × List STok) : Prop := F u.2 → F v.2 → u.1 ≠ v.1

/-- results at different positions with `F`-rests have different trees -/
def Inj {α} (F : List STok → Prop) (p : SP α) : Prop := ∀ ts, (p ts).Pairwise (RelF F)

theorem RelF.symm {α} {F : List STok → Prop} {u v : α × List STok} (h : RelF F u v) : RelF F v u :=
  fun hv hu e => h hu hv e.symm

theorem pairwise_of_mem {α} {R : α → α → Prop} (hs : ∀ a b, R a b → R b a) {l : List α}
    (h : l.Pairwise R) {a b : α} (ha : a ∈ l) (hb : b ∈ l) (hne : a ≠ b) : R a b := by
  induction h with
  | nil => cases ha
  | cons hx _ ih =>
    rcases List.mem_cons.mp ha with rfl | ha' <;> rcases List.mem_cons.mp hb with rfl | hb'
    · exact absurd rfl hne
    · exact hx _ hb'
    · exact hs _ _ (hx _ ha')
    · exact ih ha' hb'

theorem inj_mono {α} {F G : List STok → Prop} {p : SP α} (h : ∀ r, G r → F r) (hp : Inj F p) :
    Inj G p := fun ts => (hp ts).imp fun hr hu hv => hr (h _ hu) (h _ hv)

theorem inj_monoL {α} {cs cs' : List String} {p : SP α} (hp : Inj (NHL cs) p)
    (h : ∀ c ∈ cs, c ∈ cs' := by decide) : Inj (NHL cs') p :=
  inj_mono (fun _ hr => NHL_mono h hr) hp

/-- no duplicates among the results with `F`-rest; in particular none at all for `F = ⊤` -/
theorem inj_nodup {α} {p : SP α} (hp : Inj (NHL []) p) (ts : List STok) : (p ts).Nodup := by
  rw [List.nodup_iff_pairwise_ne]
  exact (hp ts).imp fun hr e => hr (NHL_nil _) (NHL_nil _) (by rw [e])

/-- the tree determines the rest (among the `F`-rests) -/
theorem inj_rest_eq {α} {F : List STok → Prop} {p : SP α} (hp : Inj F p) {ts : List STok} {x : α}
    {r r' : List STok} (h : (x, r) ∈ p ts) (h' : (x, r') ∈ p ts) (hr : F r) (hr' : F r') : r = r' := by
  apply Classical.byContradiction
  intro hne
  have : RelF F (x, r) (x, r') :=
    pairwise_of_mem (fun _ _ => RelF.symm) (hp ts) h h' (fun e => hne (Prod.mk.inj e).2)
  exact this hr hr' rfl

theorem inj_of_det {α} {F : List STok → Prop} {p : SP α} (h : Det p) : Inj F p := by
  intro ts
  rcases det_cases h ts with h | ⟨x, h⟩ <;> simp [h]

theorem inj_pure {α} {F : List STok → Prop} (a : α) : Inj F (pure a : SP α) := inj_of_det (det_pure a)

theorem inj_fail {α} {F : List STok → Prop} : Inj F (fail : SP α) := inj_of_det det_fail

theorem inj_congr {α} {F : List STok → Prop} {p q : SP α} (h : ∀ ts, q ts = p ts) (hp : Inj F p) :
    Inj F q := fun ts => by rw [h]; exact hp ts

/-- sequencing: the final tree contains the first one (`hinj`), and the continuation only produces
`G`-rests from `F`-rests (`hpres`; typically it starts with a terminal not in `F`'s list) -/
theorem inj_bind {α β} {F G : List STok → Prop} {p : SP α} {f : α → SP β}
    (hp : Inj F p) (hf : ∀ a, Inj G (f a))
    (hinj : ∀ a a' r r' y s s', (y, s) ∈ f a r → (y, s') ∈ f a' r' → a = a')
    (hpres : ∀ a r y s, (y, s) ∈ f a r → G s → F r) : Inj G (p >>= f) := by
  intro ts
  rw [bind_apply, List.pairwise_flatMap]
  refine ⟨fun x _ => hf _ _, (hp ts).imp ?_⟩
  intro u v huv x hx y hy hGx hGy e
  obtain ⟨a, r⟩ := u
  obtain ⟨a', r'⟩ := v
  obtain ⟨x1, x2⟩ := x
  obtain ⟨y1, y2⟩ := y
  simp only at e
  subst e
  exact huv (hpres _ _ _ _ hx hGx) (hpres _ _ _ _ hy hGy) (hinj _ _ _ _ _ _ _ hx hy)

/-- sequencing after a recogniser whose tree determines the rest -/
theorem inj_bind_top {α β} {G : List STok → Prop} {p : SP α} {f : α → SP β}
    (hp : Inj (NHL []) p) (hf : ∀ a, Inj G (f a))
    (hinj : ∀ a a' r r' y s s', (y, s) ∈ f a r → (y, s') ∈ f a' r' → a = a') : Inj G (p >>= f) :=
  inj_bind hp hf hinj fun _ _ _ _ _ _ => NHL_nil _

/-- sequencing after a recogniser with at most one result -/
theorem inj_bind_det {α β} {G : List STok → Prop} {p : SP α} {f : α → SP β}
    (hp : Det p) (hf : ∀ a, Inj G (f a)) : Inj G (p >>= f) := by
  intro ts
  rcases det_cases hp ts with h | ⟨x, h⟩
  · simp [h]
  · simp only [bind_apply, h, List.flatMap_cons, List.flatMap_nil, List.append_nil]
    exact hf _ _

theorem inj_map {α β} {F : List STok → Prop} {p : SP α} {g : α → β} (hp : Inj F p)
    (hg : ∀ a a', g a = g a' → a = a') : Inj F (p >>= fun a => pure (g a)) := by
  refine inj_bind hp (fun a => inj_pure _) ?_ ?_
  · intro a a' r r' y s s' h h'
    rw [mem_pure_iff] at h h'
    exact hg _ _ (h.1.symm.trans h'.1)
  · intro a r y s h hs
    rw [mem_pure_iff] at h
    rw [← h.2]; exact hs

/-- no tree is produced by both alternatives (with `F`-rests) -/
def Cross {α} (F : List STok → Prop) (p q : SP α) : Prop :=
  ∀ ts x r r', (x, r) ∈ p ts → (x, r') ∈ q ts → F r → F r' → False

theorem inj_alt {α} {F : List STok → Prop} {p q : SP α} (hp : Inj F p) (hq : Inj F q)
    (hx : Cross F p q) : Inj F (p <+> q) := by
  intro ts
  rw [alt_apply, List.pairwise_append]
  refine ⟨hp ts, hq ts, ?_⟩
  rintro ⟨a, r⟩ ha ⟨b, r'⟩ hb hr hr' e
  simp only at e
  subst e
  exact hx ts _ _ _ ha hb hr hr'

theorem inj_opt {α} {F : List STok → Prop} {p : SP α} (hp : Inj F p) : Inj F (opt p) := by
  unfold Wac.Spec.Grammar.opt
  refine inj_alt (inj_map hp fun a a' h => Option.some.inj h) (inj_pure _) ?_
  intro ts x r r' h h' _ _
  rw [mem_bind_iff] at h
  obtain ⟨a, r1, _, h2⟩ := h
  rw [mem_pure_iff] at h2 h'
  rw [h2.1] at h'
  cases h'.1

/-- `opt q >>= f` is `(q >>= f ∘ some) | f none` -/
theorem opt_bind {α β} (q : SP α) (f : Option α → SP β) (ts : List STok) :
    (opt q >>= f) ts = ((q >>= fun a => f (some a)) <+> f none) ts := by
  simp only [bind_apply, opt_apply, alt_apply, List.flatMap_append, List.flatMap_cons,
    List.flatMap_nil, List.append_nil, List.flatMap_map]

/-- an optional part whose presence is not recorded injectively in the tree (`items.getD []`): the
two cases are told apart by what they accept -/
theorem inj_opt_bind {α β} {F : List STok → Prop} {q : SP α} {f : Option α → SP β}
    (h1 : Inj F (q >>= fun a => f (some a))) (h2 : Inj F (f none))
    (hx : Cross F (q >>= fun a => f (some a)) (f none)) :
    Inj F (opt q >>= f) :=
  inj_congr (opt_bind q f) (inj_alt h1 h2 hx)

/-! ### repetition -/

theorem many_start {α} {p : SP α} {xs : List α} {ts r : List STok} (h : Many p xs ts r) :
    (xs = [] ∧ ts = r) ∨ ∃ a r1, (a, r1) ∈ p ts := by
  cases h with
  | nil => exact .inl ⟨rfl, rfl⟩
  | cons h1 _ => exact .inr ⟨_, _, h1⟩

/-- `p*` where `p` only succeeds on `F`-inputs -/
theorem inj_many {α} {F : List STok → Prop} {p : SP α} (hp : Inj F p)
    (hreq : ∀ ts y s, (y, s) ∈ p ts → F ts) (n : Nat) : Inj F (many p n) := by
  induction n with
  | zero => exact inj_pure _
  | succ n ih =>
    unfold Wac.Spec.Grammar.many
    refine inj_alt (inj_bind hp (fun a => inj_map ih fun as as' h => (List.cons.inj h).2) ?_ ?_)
      (inj_pure _) ?_
    · intro a a' r r' y s s' h h'
      simp only [mem_bind_iff, mem_pure_iff] at h h'
      obtain ⟨as, _, _, rfl, _⟩ := h
      obtain ⟨as', _, _, e, _⟩ := h'
      exact (List.cons.inj e).1
    · intro a r y s h hs
      simp only [mem_bind_iff, mem_pure_iff, mem_many] at h
      obtain ⟨as, r2, ⟨hm, _⟩, _, rfl⟩ := h
      rcases many_start hm with ⟨_, rfl⟩ | ⟨b, r1, hb⟩
      · exact hs
      · exact hreq _ _ _ hb
    · intro ts x r r' h h' _ _
      simp only [mem_bind_iff, mem_pure_iff] at h h'
      obtain ⟨a, _, _, as, _, _, rfl, _⟩ := h
      cases h'.1

theorem inj_many_top {α} {p : SP α} (hp : Inj (NHL []) p) (n : Nat) : Inj (NHL []) (many p n) :=
  inj_many hp (fun _ _ _ _ => NHL_nil _) n

/-! ### `p (',' p)* ','?` -/

theorem inj_trail {α} {cs : List String} (x : α) :
    Inj (NHL ("," :: cs)) (opt (t ",") >>= fun _ => (pure x : SP α)) := by
  intro ts
  rcases t_cases "," ts with h | ⟨r, rfl, h⟩
  · simp [h]
  · simp only [bind_apply, opt_apply, h, pure_apply, List.map_cons, List.map_nil, List.cons_append,
      List.nil_append, List.flatMap_cons, List.flatMap_nil, List.append_nil]
    rw [List.pairwise_cons]
    refine ⟨?_, List.pairwise_singleton _ _⟩
    intro v hv _ hF
    rw [List.mem_singleton] at hv
    subst hv
    exact absurd hF (not_NHL_lit_cons List.mem_cons_self r)

theorem mem_trail {α} {x y : α} {r s : List STok}
    (h : (y, s) ∈ (opt (t ",") >>= fun _ => (pure x : SP α)) r) : y = x ∧ (s = r ∨ r = lit "," :: s) := by
  simp only [mem_bind_iff, mem_pure_iff, opt_apply, List.mem_append, List.mem_map, List.mem_singleton,
    Prod.mk.injEq, Prod.exists, mem_t] at h
  obtain ⟨o, r1, ho, rfl, rfl⟩ := h
  refine ⟨rfl, ?_⟩
  rcases ho with ⟨u, r2, h, _, rfl⟩ | ⟨_, rfl⟩
  · exact .inr h
  · exact .inl rfl

theorem inj_list1 {α} {cs : List String} {p : SP α} (hp : Inj (NHL cs) p) (hc : "," ∉ cs) (n : Nat) :
    Inj (NHL ("," :: cs)) (list1 p n) := by
  have hsub : ∀ r, NHL ("," :: cs) r → NHL cs r := fun r hr => NHL_mono (fun c hc => List.mem_cons_of_mem _ hc) hr
  unfold Wac.Spec.Grammar.list1
  refine inj_bind hp (fun a => ?_) ?_ ?_
  · refine inj_bind (F := NHL cs) (inj_many (inj_bind_det (det_t ",") fun _ => hp) ?_ n)
      (fun as => inj_trail _) ?_ ?_
    · intro ts y s h; exact NHL_of_t h hc
    · intro as as' r r' y s s' h h'
      have e := (mem_trail h).1.symm.trans (mem_trail h').1
      exact (List.cons.inj e).2
    · intro as r y s h hs
      rcases (mem_trail h).2 with rfl | rfl
      · exact hsub _ hs
      · exact NHL_lit_cons hc _
  · intro a a' r r' y s s' h h'
    rw [mem_bind_iff] at h h'
    obtain ⟨as, r2, _, h⟩ := h
    obtain ⟨as', r2', _, h'⟩ := h'
    have e := (mem_trail h).1.symm.trans (mem_trail h').1
    exact (List.cons.inj e).1
  · intro a r y s h hs
    rw [mem_bind_iff] at h
    obtain ⟨as, r2, hm, h⟩ := h
    rw [mem_many] at hm
    rcases many_start hm.1 with ⟨_, rfl⟩ | ⟨b, r1, hb⟩
    · rcases (mem_trail h).2 with rfl | rfl
      · exact hsub _ hs
      · exact NHL_lit_cons hc _
    · exact NHL_of_t hb hc

theorem inj_list0 {α} {cs : List String} {p : SP α} (hp : Inj (NHL cs) p) (hc : "," ∉ cs) (n : Nat) :
    Inj (NHL ("," :: cs)) (list0 p n) := by
  unfold Wac.Spec.Grammar.list0
  refine inj_alt (inj_list1 hp hc n) (inj_pure _) ?_
  intro ts x r r' h h' _ _
  rw [mem_list1] at h
  rw [mem_pure_iff] at h'
  exact h.1.ne_nil h'.1

/-! ### alternatives told apart by a tag of the tree -/

def Out {α} (p : SP α) (P : α → Prop) : Prop := ∀ ts x r, (x, r) ∈ p ts → P x

theorem cross_of_out {α} {F : List STok → Prop} {p q : SP α} {P Q : α → Prop} (hp : Out p P) (hq : Out q Q)
    (h : ∀ x, P x → Q x → False) : Cross F p q :=
  fun _ x _ _ h1 h2 _ _ => h x (hp _ _ _ h1) (hq _ _ _ h2)

theorem cross_alt {α} {F : List STok → Prop} {p1 p2 q : SP α} (h1 : Cross F p1 q) (h2 : Cross F p2 q) :
    Cross F (p1 <+> p2) q := by
  intro ts x r r' h h' hr hr'
  rw [mem_alt_iff] at h
  rcases h with h | h
  · exact h1 ts x r r' h h' hr hr'
  · exact h2 ts x r r' h h' hr hr'

def InjT {α} (F : List STok → Prop) (tag : α → Nat) (k : Nat) (p : SP α) : Prop :=
  Inj F p ∧ Out p (fun x => tag x < k)

theorem injT_base {α} {F : List STok → Prop} {tag : α → Nat} {q : SP α} (hq : Inj F q)
    (oq : Out q (fun x => tag x = 0)) : InjT F tag 1 q :=
  ⟨hq, fun ts x r h => by have := oq ts x r h; simp only at this ⊢; omega⟩

theorem injT_alt {α} {F : List STok → Prop} {tag : α → Nat} {p q : SP α} (k : Nat) (hp : InjT F tag k p)
    (hq : Inj F q) (oq : Out q (fun x => tag x = k)) : InjT F tag (k + 1) (p <+> q) := by
  refine ⟨inj_alt hp.1 hq (cross_of_out hp.2 oq fun x h1 h2 => by have h1' : tag x < k := h1; have h2' : tag x = k := h2; omega), ?_⟩
  intro ts x r h
  rw [mem_alt_iff] at h
  rcases h with h | h
  · have := hp.2 ts x r h; simp only at this ⊢; omega
  · have := oq ts x r h; simp only at this ⊢; omega

/-- three alternatives with the same tag -/
theorem injT_alt3 {α} {F : List STok → Prop} {tag : α → Nat} {p q1 q2 q3 : SP α} (k : Nat)
    (hp : InjT F tag k p) (h1 : Inj F q1) (h2 : Inj F q2) (h3 : Inj F q3)
    (o1 : Out q1 (fun x => tag x = k)) (o2 : Out q2 (fun x => tag x = k)) (o3 : Out q3 (fun x => tag x = k))
    (x12 : Cross F q1 q2) (x13 : Cross F q1 q3) (x23 : Cross F q2 q3) :
    InjT F tag (k + 1) (((p <+> q1) <+> q2) <+> q3) := by
  have c : ∀ {q : SP α}, Out q (fun x => tag x = k) → Cross F p q := fun oq =>
    cross_of_out hp.2 oq fun x h1 h2 => by have h1' : tag x < k := h1; have h2' : tag x = k := h2; omega
  refine ⟨inj_alt (inj_alt (inj_alt hp.1 h1 (c o1)) h2 (cross_alt (c o2) x12)) h3
    (cross_alt (cross_alt (c o3) x13) x23), ?_⟩
  intro ts x r h
  simp only [mem_alt_iff] at h
  rcases h with ((h | h) | h) | h
  · have := hp.2 ts x r h; simp only at this ⊢; omega
  · have := o1 ts x r h; simp only at this ⊢; omega
  · have := o2 ts x r h; simp only at this ⊢; omega
  · have := o3 ts x r h; simp only at this ⊢; omega

/-- alternatives starting with different terminals -/
theorem cross_t {α} {F : List STok → Prop} {c c' : String} {g g' : Unit → SP α} (hne : c ≠ c') :
    Cross F (t c >>= g) (t c' >>= g') := by
  intro ts x r r' h h' _ _
  obtain ⟨r1, e1, _⟩ := head_of_t h
  obtain ⟨r2, e2, _⟩ := head_of_t h'
  rw [e1] at e2
  have := (List.cons.inj e2).1
  simp only [lit, STok.mk.injEq, true_and] at this
  exact hne (String.toList_inj.mp this)

/-! ### side conditions -/

/-- `hinj`: the final tree determines the bound value -/
scoped macro "nd_inj" : tactic =>
  `(tactic| (intro a a' r r' y s s' h h'; simp only [mem_bind_iff, mem_pure_iff] at h h'; grind))

/-- `hx` of `inj_alt`: the alternatives build different trees -/
scoped macro "nd_cross" : tactic =>
  `(tactic| (intro ts x r r' h h' _ _; simp only [mem_bind_iff, mem_pure_iff, mem_alt_iff] at h h'; grind))

/-- injectivity of the tree constructor of `inj_map` -/
scoped macro "nd_map" : tactic => `(tactic| (intro a a' h; grind))

/-- `hpres`: the continuation starts with a terminal that the filter does not exclude -/
scoped macro "nd_pres" : tactic =>
  `(tactic| (intro a r y s h _; exact NHL_of_t h (by decide)))

end Wac.C12.ND
