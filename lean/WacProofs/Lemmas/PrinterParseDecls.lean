import WacProofs.Lemmas.PrinterParseTypes
/-
  C13, type declarations: variants, records, flags, enums, type aliases, resources (constructor,
  methods), `parseTypeDecl`, `parseItemTypeDecl`.  Every lemma has the form
  `3 * (tokens).length ≤ fuel → ParsesTo (parseX fuel) X.erase (tokens) x (fun _ => True)`.
-/
namespace Wac.Lemmas.PrinterParse
open Wac Wac.Ast Wac.Lex Wac.Parse Wac.PrintTok

/-! ### variants -/

theorem variantCase_ok (hdocs : DocsNF) (c : VariantCase) (hwf : c.wf = true) (fuel : Nat)
    (hf : 3 * (variantCase c).length ≤ fuel) :
    ParsesTo (parseVariantCase fuel) VariantCase.erase (variantCase c) c (headIs .Comma) := by
  intro st rest hE hF
  obtain ⟨docs, id, ty?⟩ := c
  simp only [VariantCase.wf, Bool.and_eq_true] at hwf
  simp only [variantCase, List.cons_append, List.length_cons] at hE hf
  have hd := parseDocs_erase hdocs hE (ds := docs) rfl
  obtain ⟨i', st1, h1, hi, hE1⟩ := parseIdent_ok hwf.1 hE rfl rfl
  cases ty? with
  | none =>
    simp only [List.nil_append] at hE1
    pt_exists st1, hE1
    · simp only [parseVariantCase, h1, bind_ok]
      rw [parseOptional_none _ (hE1 ▸ hF.headNot (by decide))]
      rfl
    · simp [VariantCase.erase, hd, hi]
  | some t =>
    simp only [List.cons_append, List.append_assoc, List.nil_append, List.length_cons,
      List.length_append, List.length_nil] at hE1 hf
    have hE2 := E_next hE1
    obtain ⟨t', st3, h3, ht, hE3⟩ := ty_ok t hwf.2 fuel (by omega) _ _ hE2
      (headNot_cons (k := .CloseParen) rfl (by decide))
    obtain ⟨t4, st4, h4, -, hE4⟩ := parseToken_ok hE3 (k := .CloseParen) rfl
    pt_exists st4, hE4
    · simp only [parseVariantCase, h1, bind_ok]
      rw [parseOptional_eq _ hE1 rfl]
      simp only [h3, h4, bind_ok, optMap_ok]
      rfl
    · simp [VariantCase.erase, hd, hi, ht]

theorem variantCase_head (c : VariantCase) : headIn [.Ident] (variantCase c) := by
  simp only [variantCase]; exact headIn_cons (k := .Ident) rfl (by decide)

theorem variantDecl_ok (hdocs : DocsNF) (d : VariantDecl) (hwf : d.wf = true) (fuel : Nat)
    (hf : 3 * (variantDecl d).length ≤ fuel) :
    ParsesTo (parseVariantDecl fuel) VariantDecl.erase (variantDecl d) d (fun _ => True) := by
  intro st rest hE _
  obtain ⟨docs, id, cases⟩ := d
  simp only [VariantDecl.wf, Bool.and_eq_true, Bool.not_eq_true', List.all_eq_true] at hwf
  simp only [variantDecl, List.cons_append, List.append_assoc, List.nil_append, List.length_cons,
    List.length_append, List.length_nil] at hE hf
  have hd := parseDocs_erase hdocs hE (ds := docs) rfl
  obtain ⟨t1, st1, h1, -, hE1⟩ := parseToken_ok hE (k := .VariantKeyword) rfl
  obtain ⟨i', st2, h2, hi, hE2⟩ := parseIdent_ok hwf.1.1 hE1 rfl rfl
  obtain ⟨t3, st3, h3, -, hE3⟩ := parseToken_ok hE2 (k := .OpenBrace) rfl
  have hlen := length_le_flatMap (fun c => variantCase c ++ [comma]) cases (by intro x _; simp)
  obtain ⟨cs', st4, h4, hcs, hE4⟩ := parseDelimited_trailing (stop := .CloseBrace) (peeks := [.Ident])
    (item := parseVariantCase fuel) (er := VariantCase.erase) variantCase
    (fun c => variantCase c ++ [comma]) (by decide) (by decide) cases (fun _ _ => rfl)
    (fun c _ => variantCase_head c)
    (fun c hc => variantCase_ok hdocs c (hwf.2 c hc) fuel (by
      have := flatMap_mem_length (fun c => variantCase c ++ [comma]) cases c hc
      simp only [List.length_append] at this; omega))
    fuel (by omega) st3 _ hE3 (headIs_cons rfl)
  obtain ⟨t5, st5, h5, -, hE5⟩ := parseToken_ok hE4 (k := .CloseBrace) rfl
  have hne : cs'.isEmpty = false := by rw [map_eq_isEmpty hcs]; exact hwf.1.2
  pt_exists st5, hE5
  · simp only [parseVariantDecl, h1, h2, h3, h4, h5, bind_ok, hne, Bool.false_eq_true, if_false]
    rfl
  · simp [VariantDecl.erase, hd, hi, hcs]

/-! ### records -/

/-- the tokens of a record field without the trailing comma -/
def fieldToks (f : Field) : List PTok := dident f.docs f.id :: colon :: ty f.ty

theorem field_ok (hdocs : DocsNF) (f : Field) (hwf : f.wf = true) (fuel : Nat)
    (hf : 3 * (fieldToks f).length ≤ fuel) :
    ParsesTo (parseField fuel) Field.erase (fieldToks f) f (headIs .Comma) := by
  intro st rest hE hF
  obtain ⟨docs, id, t⟩ := f
  simp only [Field.wf, Bool.and_eq_true] at hwf
  simp only [fieldToks, List.cons_append, List.length_cons] at hE hf
  have hd := parseDocs_erase hdocs hE (ds := docs) rfl
  obtain ⟨i', st1, h1, hi, hE1⟩ := parseIdent_ok hwf.1 hE rfl rfl
  obtain ⟨t2, st2, h2, -, hE2⟩ := parseToken_ok hE1 (k := .Colon) rfl
  obtain ⟨t', st3, h3, ht, hE3⟩ := ty_ok t hwf.2 fuel (by omega) st2 rest hE2 (hF.headNot (by decide))
  pt_exists st3, hE3
  · simp only [parseField, parseNamedType, h1, h2, h3, bind_ok]; rfl
  · simp [Field.erase, hd, hi, ht]

theorem recordDecl_ok (hdocs : DocsNF) (d : RecordDecl) (hwf : d.wf = true) (fuel : Nat)
    (hf : 3 * (recordDecl d).length ≤ fuel) :
    ParsesTo (parseRecordDecl fuel) RecordDecl.erase (recordDecl d) d (fun _ => True) := by
  intro st rest hE _
  obtain ⟨docs, id, fields⟩ := d
  simp only [RecordDecl.wf, Bool.and_eq_true, Bool.not_eq_true', List.all_eq_true] at hwf
  simp only [recordDecl, List.cons_append, List.append_assoc, List.nil_append, List.length_cons,
    List.length_append, List.length_nil] at hE hf
  have hd := parseDocs_erase hdocs hE (ds := docs) rfl
  obtain ⟨t1, st1, h1, -, hE1⟩ := parseToken_ok hE (k := .RecordKeyword) rfl
  obtain ⟨i', st2, h2, hi, hE2⟩ := parseIdent_ok hwf.1.1 hE1 rfl rfl
  obtain ⟨t3, st3, h3, -, hE3⟩ := parseToken_ok hE2 (k := .OpenBrace) rfl
  have hlen := length_le_flatMap (fun f : Field => dident f.docs f.id :: colon :: (ty f.ty ++ [comma]))
    fields (by intro x _; simp)
  obtain ⟨fs', st4, h4, hfs, hE4⟩ := parseDelimited_trailing (stop := .CloseBrace) (peeks := [.Ident])
    (item := parseField fuel) (er := Field.erase) fieldToks
    (fun f : Field => dident f.docs f.id :: colon :: (ty f.ty ++ [comma])) (by decide) (by decide) fields
    (fun _ _ => by simp [fieldToks])
    (fun f _ => headIn_cons (k := .Ident) rfl (by decide))
    (fun f hm => field_ok hdocs f (hwf.2 f hm) fuel (by
      have := flatMap_mem_length (fun f : Field => dident f.docs f.id :: colon :: (ty f.ty ++ [comma]))
        fields f hm
      simp only [List.length_append, List.length_cons, fieldToks] at this ⊢; omega))
    fuel (by omega) st3 _ hE3 (headIs_cons rfl)
  obtain ⟨t5, st5, h5, -, hE5⟩ := parseToken_ok hE4 (k := .CloseBrace) rfl
  have hne : fs'.isEmpty = false := by rw [map_eq_isEmpty hfs]; exact hwf.1.2
  pt_exists st5, hE5
  · simp only [parseRecordDecl, h1, h2, h3, h4, h5, bind_ok, hne, Bool.false_eq_true, if_false]
    rfl
  · simp [RecordDecl.erase, hd, hi, hfs]

/-! ### flags and enums -/

theorem flag_ok (hdocs : DocsNF) (f : Flag) (hwf : f.wf = true) :
    ParsesTo parseFlag Flag.erase [dident f.docs f.id] f (fun _ => True) := by
  intro st rest hE _
  simp only [Flag.wf] at hwf
  simp only [List.cons_append, List.nil_append] at hE
  have hd := parseDocs_erase hdocs hE (ds := f.docs) rfl
  obtain ⟨i', st1, h1, hi, hE1⟩ := parseIdent_ok hwf hE rfl rfl
  pt_exists st1, hE1
  · simp only [parseFlag, h1, bind_ok]; rfl
  · simp [Flag.erase, hd, hi]

theorem flagsDecl_ok (hdocs : DocsNF) (d : FlagsDecl) (hwf : d.wf = true) (fuel : Nat)
    (hf : 3 * (flagsDecl d).length ≤ fuel) :
    ParsesTo (parseFlagsDecl fuel) FlagsDecl.erase (flagsDecl d) d (fun _ => True) := by
  intro st rest hE _
  obtain ⟨docs, id, flags⟩ := d
  simp only [FlagsDecl.wf, Bool.and_eq_true, Bool.not_eq_true', List.all_eq_true] at hwf
  simp only [flagsDecl, List.cons_append, List.append_assoc, List.nil_append, List.length_cons,
    List.length_append, List.length_nil] at hE hf
  have hd := parseDocs_erase hdocs hE (ds := docs) rfl
  obtain ⟨t1, st1, h1, -, hE1⟩ := parseToken_ok hE (k := .FlagsKeyword) rfl
  obtain ⟨i', st2, h2, hi, hE2⟩ := parseIdent_ok hwf.1.1 hE1 rfl rfl
  obtain ⟨t3, st3, h3, -, hE3⟩ := parseToken_ok hE2 (k := .OpenBrace) rfl
  have hlen := length_le_flatMap (fun f : Flag => [dident f.docs f.id, comma]) flags (by intro x _; simp)
  obtain ⟨fs', st4, h4, hfs, hE4⟩ := parseDelimited_trailing (stop := .CloseBrace) (peeks := [.Ident])
    (item := parseFlag) (er := Flag.erase) (fun f : Flag => [dident f.docs f.id])
    (fun f : Flag => [dident f.docs f.id, comma]) (by decide) (by decide) flags
    (fun _ _ => rfl)
    (fun f _ => headIn_cons (k := .Ident) rfl (by decide))
    (fun f hm => (flag_ok hdocs f (hwf.2 f hm)).follow (fun _ _ => trivial))
    fuel (by omega) st3 _ hE3 (headIs_cons rfl)
  obtain ⟨t5, st5, h5, -, hE5⟩ := parseToken_ok hE4 (k := .CloseBrace) rfl
  have hne : fs'.isEmpty = false := by rw [map_eq_isEmpty hfs]; exact hwf.1.2
  pt_exists st5, hE5
  · simp only [parseFlagsDecl, h1, h2, h3, h4, h5, bind_ok, hne, Bool.false_eq_true, if_false]
    rfl
  · simp [FlagsDecl.erase, hd, hi, hfs]

theorem enumCase_ok (hdocs : DocsNF) (c : EnumCase) (hwf : c.wf = true) :
    ParsesTo parseEnumCase EnumCase.erase [dident c.docs c.id] c (fun _ => True) := by
  intro st rest hE _
  simp only [EnumCase.wf] at hwf
  simp only [List.cons_append, List.nil_append] at hE
  have hd := parseDocs_erase hdocs hE (ds := c.docs) rfl
  obtain ⟨i', st1, h1, hi, hE1⟩ := parseIdent_ok hwf hE rfl rfl
  pt_exists st1, hE1
  · simp only [parseEnumCase, h1, bind_ok]; rfl
  · simp [EnumCase.erase, hd, hi]

theorem enumDecl_ok (hdocs : DocsNF) (d : EnumDecl) (hwf : d.wf = true) (fuel : Nat)
    (hf : 3 * (enumDecl d).length ≤ fuel) :
    ParsesTo (parseEnumDecl fuel) EnumDecl.erase (enumDecl d) d (fun _ => True) := by
  intro st rest hE _
  obtain ⟨docs, id, cases⟩ := d
  simp only [EnumDecl.wf, Bool.and_eq_true, Bool.not_eq_true', List.all_eq_true] at hwf
  simp only [enumDecl, List.cons_append, List.append_assoc, List.nil_append, List.length_cons,
    List.length_append, List.length_nil] at hE hf
  have hd := parseDocs_erase hdocs hE (ds := docs) rfl
  obtain ⟨t1, st1, h1, -, hE1⟩ := parseToken_ok hE (k := .EnumKeyword) rfl
  obtain ⟨i', st2, h2, hi, hE2⟩ := parseIdent_ok hwf.1.1 hE1 rfl rfl
  obtain ⟨t3, st3, h3, -, hE3⟩ := parseToken_ok hE2 (k := .OpenBrace) rfl
  have hlen := length_le_flatMap (fun c : EnumCase => [dident c.docs c.id, comma]) cases
    (by intro x _; simp)
  obtain ⟨cs', st4, h4, hcs, hE4⟩ := parseDelimited_trailing (stop := .CloseBrace) (peeks := [.Ident])
    (item := parseEnumCase) (er := EnumCase.erase) (fun c : EnumCase => [dident c.docs c.id])
    (fun c : EnumCase => [dident c.docs c.id, comma]) (by decide) (by decide) cases
    (fun _ _ => rfl)
    (fun c _ => headIn_cons (k := .Ident) rfl (by decide))
    (fun c hm => (enumCase_ok hdocs c (hwf.2 c hm)).follow (fun _ _ => trivial))
    fuel (by omega) st3 _ hE3 (headIs_cons rfl)
  obtain ⟨t5, st5, h5, -, hE5⟩ := parseToken_ok hE4 (k := .CloseBrace) rfl
  have hne : cs'.isEmpty = false := by rw [map_eq_isEmpty hcs]; exact hwf.1.2
  pt_exists st5, hE5
  · simp only [parseEnumDecl, h1, h2, h3, h4, h5, bind_ok, hne, Bool.false_eq_true, if_false]
    rfl
  · simp [EnumDecl.erase, hd, hi, hcs]

/-! ### type aliases -/

theorem typeAlias_ok (hdocs : DocsNF) (a : TypeAlias) (hwf : a.wf = true) (fuel : Nat)
    (hf : 3 * (typeAlias a).length ≤ fuel) :
    ParsesTo (parseTypeAlias fuel) TypeAlias.erase (typeAlias a) a (fun _ => True) := by
  intro st rest hE _
  obtain ⟨docs, id, kind⟩ := a
  simp only [TypeAlias.wf, Bool.and_eq_true] at hwf
  simp only [typeAlias, List.cons_append, List.append_assoc, List.nil_append, List.length_cons,
    List.length_append, List.length_nil] at hE hf
  have hd := parseDocs_erase hdocs hE (ds := docs) rfl
  obtain ⟨t1, st1, h1, -, hE1⟩ := parseToken_ok hE (k := .TypeKeyword) rfl
  obtain ⟨i', st2, h2, hi, hE2⟩ := parseIdent_ok hwf.1 hE1 rfl rfl
  obtain ⟨t3, st3, h3, -, hE3⟩ := parseToken_ok hE2 (k := .Equals) rfl
  cases kind with
  | Func ft =>
    simp only [TypeAliasKind.wf] at hwf
    simp only at hE3 hf
    obtain ⟨ft', st4, h4, hft, hE4⟩ := funcType_ok ft hwf.2 fuel (by omega) st3 _ hE3
      (headNot_cons (k := .Semicolon) rfl (by decide))
    obtain ⟨t5, st5, h5, -, hE5⟩ := parseToken_ok hE4 (k := .Semicolon) rfl
    have hh : headIs .FuncKeyword (E st3) := hE3 ▸ (funcType_head ft).append _
    pt_exists st5, hE5
    · simp only [parseTypeAlias, h1, h2, h3, bind_ok, parseTypeAliasKind, peekIs_true hh, if_true,
        h4, h5]
      rfl
    · simp [TypeAlias.erase, TypeAliasKind.erase, hd, hi, hft]
  | Type' t =>
    simp only [TypeAliasKind.wf] at hwf
    simp only at hE3 hf
    obtain ⟨t', st4, h4, ht, hE4⟩ := ty_ok t hwf.2 fuel (by omega) st3 _ hE3
      (headNot_cons (k := .Semicolon) rfl (by decide))
    obtain ⟨t5, st5, h5, -, hE5⟩ := parseToken_ok hE4 (k := .Semicolon) rfl
    have hin : headIn typePeeks (E st3) := hE3 ▸ (ty_head t).append _
    pt_exists st5, hE5
    · simp only [parseTypeAlias, h1, h2, h3, bind_ok, parseTypeAliasKind,
        peekIs_false_of_headIn hin (k' := .FuncKeyword) (by decide), peekIn_true hin,
        Bool.false_eq_true, if_false, if_true, h4, h5]
      rfl
    · simp [TypeAlias.erase, TypeAliasKind.erase, hd, hi, ht]

/-! ### resources -/

theorem constructor_ok (hdocs : DocsNF) (c : Constructor) (hwf : c.wf = true) (fuel : Nat)
    (hf : 3 * (PrintTok.constructor c).length ≤ fuel) :
    ParsesTo (parseConstructor fuel) Constructor.erase (PrintTok.constructor c) c (fun _ => True) := by
  intro st rest hE _
  obtain ⟨docs, sp, params⟩ := c
  simp only [Constructor.wf] at hwf
  simp only [PrintTok.constructor, namedTypes_true_eq, List.cons_append, List.append_assoc,
    List.nil_append, List.length_cons, List.length_append, List.length_nil] at hE hf
  have hd := parseDocs_erase hdocs hE (ds := docs) rfl
  obtain ⟨t1, st1, h1, -, hE1⟩ := parseToken_ok hE (k := .ConstructorKeyword) rfl
  obtain ⟨t2, st2, h2, -, hE2⟩ := parseToken_ok hE1 (k := .OpenParen) rfl
  have hpl := params_length_le params
  obtain ⟨ps', st3, h3, hps, hE3⟩ := params_ok params hwf fuel (by omega) fuel (by omega) st2 _ hE2
    (headIs_cons (k := .CloseParen) rfl)
  obtain ⟨t4, st4, h4, -, hE4⟩ := parseToken_ok hE3 (k := .CloseParen) rfl
  obtain ⟨t5, st5, h5, -, hE5⟩ := parseToken_ok hE4 (k := .Semicolon) rfl
  pt_exists st5, hE5
  · simp only [parseConstructor, h1, h2, h3, h4, h5, bind_ok]; rfl
  · simp [Constructor.erase, hd, hps]

theorem method_ok (hdocs : DocsNF) (m : Method) (hwf : m.wf = true) (fuel : Nat)
    (hf : 3 * (method m).length ≤ fuel) :
    ParsesTo (parseMethod fuel) Method.erase (method m) m (fun _ => True) := by
  intro st rest hE _
  obtain ⟨docs, id, isStatic, ft⟩ := m
  simp only [Method.wf, Bool.and_eq_true] at hwf
  simp only [method, List.cons_append, List.append_assoc, List.nil_append, List.length_cons,
    List.length_append, List.length_nil] at hE hf
  have hd := parseDocs_erase hdocs hE (ds := docs) rfl
  obtain ⟨i', st1, h1, hi, hE1⟩ := parseIdent_ok hwf.1 hE rfl rfl
  obtain ⟨t2, st2, h2, -, hE2⟩ := parseToken_ok hE1 (k := .Colon) rfl
  cases isStatic with
  | false =>
    simp only [Bool.false_eq_true, if_false, List.nil_append] at hE2
    obtain ⟨ft', st3, h3, hft, hE3⟩ := funcType_ok ft hwf.2 fuel (by omega) st2 _ hE2
      (headNot_cons (k := .Semicolon) rfl (by decide))
    obtain ⟨t4, st4, h4, -, hE4⟩ := parseToken_ok hE3 (k := .Semicolon) rfl
    have hh : headIs .FuncKeyword (E st2) := hE2 ▸ (funcType_head ft).append _
    pt_exists st4, hE4
    · simp only [parseMethod, h1, h2, bind_ok, peekIs_false hh (k' := .StaticKeyword) (by decide),
        Bool.false_eq_true, if_false, h3, h4]
      rfl
    · simp [Method.erase, hd, hi, hft]
  | true =>
    simp only [if_true, List.cons_append, List.nil_append] at hE2
    have hE2' := E_next hE2
    obtain ⟨ft', st3, h3, hft, hE3⟩ := funcType_ok ft hwf.2 fuel (by omega) _ _ hE2'
      (headNot_cons (k := .Semicolon) rfl (by decide))
    obtain ⟨t4, st4, h4, -, hE4⟩ := parseToken_ok hE3 (k := .Semicolon) rfl
    have hh : headIs .StaticKeyword (E st2) := hE2 ▸ headIs_cons rfl
    pt_exists st4, hE4
    · simp only [parseMethod, h1, h2, bind_ok, peekIs_true hh, if_true, h3, h4]
      rfl
    · simp [Method.erase, hd, hi, hft]

theorem resourceMethod_head (m : ResourceMethod) :
    headIn [.ConstructorKeyword, .Ident] (resourceMethod m) := by
  cases m with
  | Constructor c =>
    simp only [resourceMethod, PrintTok.constructor]
    exact headIn_cons (k := .ConstructorKeyword) rfl (by decide)
  | Method m =>
    simp only [resourceMethod, method]
    exact headIn_cons (k := .Ident) rfl (by decide)

theorem resourceMethod_ok (hdocs : DocsNF) (m : ResourceMethod) (hwf : m.wf = true) (fuel : Nat)
    (hf : 3 * (resourceMethod m).length ≤ fuel) :
    ParsesTo (parseResourceMethod fuel) ResourceMethod.erase (resourceMethod m) m (fun _ => True) := by
  intro st rest hE _
  cases m with
  | Constructor c =>
    simp only [resourceMethod] at hE hf
    simp only [ResourceMethod.wf] at hwf
    obtain ⟨c', st1, h1, hc, hE1⟩ := constructor_ok hdocs c hwf fuel hf st rest hE trivial
    simp only [PrintTok.constructor, List.cons_append] at hE
    pt_exists st1, hE1
    · simp only [parseResourceMethod, peekTok_of_E hE (k := .ConstructorKeyword) rfl, h1, bind_ok]; rfl
    · simp [ResourceMethod.erase, hc]
  | Method m =>
    simp only [resourceMethod] at hE hf
    simp only [ResourceMethod.wf] at hwf
    obtain ⟨m', st1, h1, hm, hE1⟩ := method_ok hdocs m hwf fuel hf st rest hE trivial
    simp only [method, List.cons_append] at hE
    pt_exists st1, hE1
    · simp only [parseResourceMethod, peekTok_of_E hE (k := .Ident) rfl, h1, bind_ok]; rfl
    · simp [ResourceMethod.erase, hm]

theorem resourceDecl_ok (hdocs : DocsNF) (d : ResourceDecl) (hwf : d.wf = true) (fuel : Nat)
    (hf : 3 * (resourceDecl d).length ≤ fuel) :
    ParsesTo (parseResourceDecl fuel) ResourceDecl.erase (resourceDecl d) d (fun _ => True) := by
  intro st rest hE _
  obtain ⟨docs, id, methods⟩ := d
  simp only [ResourceDecl.wf, Bool.and_eq_true, List.all_eq_true] at hwf
  simp only [resourceDecl, List.cons_append, List.append_assoc, List.nil_append, List.length_cons,
    List.length_append, List.length_nil] at hE hf
  have hd := parseDocs_erase hdocs hE (ds := docs) rfl
  obtain ⟨t1, st1, h1, -, hE1⟩ := parseToken_ok hE (k := .ResourceKeyword) rfl
  obtain ⟨i', st2, h2, hi, hE2⟩ := parseIdent_ok hwf.1 hE1 rfl rfl
  obtain ⟨t3, st3, h3, -, hE3⟩ := parseToken_ok hE2 (k := .OpenBrace) rfl
  have hlen := length_le_flatMap resourceMethod methods
    (fun x _ => headIn_length_pos (resourceMethod_head x))
  obtain ⟨ms', st4, h4, hms, hE4⟩ := parseDelimited_plain (stop := .CloseBrace)
    (peeks := [.ConstructorKeyword, .Ident]) (item := parseResourceMethod fuel)
    (er := ResourceMethod.erase) resourceMethod (by decide) methods
    (fun m _ => resourceMethod_head m)
    (fun m hm => (resourceMethod_ok hdocs m (hwf.2 m hm) fuel (by
      have := flatMap_mem_length resourceMethod methods m hm; omega)).follow (fun _ _ => trivial))
    fuel (by omega) st3 _ hE3 (headIs_cons rfl)
  obtain ⟨t5, st5, h5, -, hE5⟩ := parseToken_ok hE4 (k := .CloseBrace) rfl
  pt_exists st5, hE5
  · simp only [parseResourceDecl, h1, h2, bind_ok, peekTok_of_E hE2 (k := .OpenBrace) rfl, h3, h4, h5]
    rfl
  · simp [ResourceDecl.erase, hd, hi, hms]

/-! ### `parseTypeDecl`, `parseItemTypeDecl` -/

theorem typeDecl_head (d : TypeDecl) : headIn typeDeclPeeks (typeDecl d) := by
  cases d with
  | Variant d => simp only [typeDecl, variantDecl]; exact headIn_cons (k := .VariantKeyword) rfl (by decide)
  | Record d => simp only [typeDecl, recordDecl]; exact headIn_cons (k := .RecordKeyword) rfl (by decide)
  | Flags d => simp only [typeDecl, flagsDecl]; exact headIn_cons (k := .FlagsKeyword) rfl (by decide)
  | Enum d => simp only [typeDecl, enumDecl]; exact headIn_cons (k := .EnumKeyword) rfl (by decide)
  | Alias d => simp only [typeDecl, typeAlias]; exact headIn_cons (k := .TypeKeyword) rfl (by decide)

theorem typeDecl_ok (hdocs : DocsNF) (d : TypeDecl) (hwf : d.wf = true) (fuel : Nat)
    (hf : 3 * (typeDecl d).length ≤ fuel) :
    ParsesTo (parseTypeDecl fuel) TypeDecl.erase (typeDecl d) d (fun _ => True) := by
  intro st rest hE _
  cases d with
  | Variant d =>
    simp only [typeDecl] at hE hf
    obtain ⟨d', st1, h1, hd, hE1⟩ := variantDecl_ok hdocs d hwf fuel hf st rest hE trivial
    simp only [variantDecl, List.cons_append] at hE
    pt_exists st1, hE1
    · simp only [parseTypeDecl, peekTok_of_E hE (k := .VariantKeyword) rfl, h1, bind_ok]; rfl
    · simp [TypeDecl.erase, hd]
  | Record d =>
    simp only [typeDecl] at hE hf
    obtain ⟨d', st1, h1, hd, hE1⟩ := recordDecl_ok hdocs d hwf fuel hf st rest hE trivial
    simp only [recordDecl, List.cons_append] at hE
    pt_exists st1, hE1
    · simp only [parseTypeDecl, peekTok_of_E hE (k := .RecordKeyword) rfl, h1, bind_ok]; rfl
    · simp [TypeDecl.erase, hd]
  | Flags d =>
    simp only [typeDecl] at hE hf
    obtain ⟨d', st1, h1, hd, hE1⟩ := flagsDecl_ok hdocs d hwf fuel hf st rest hE trivial
    simp only [flagsDecl, List.cons_append] at hE
    pt_exists st1, hE1
    · simp only [parseTypeDecl, peekTok_of_E hE (k := .FlagsKeyword) rfl, h1, bind_ok]; rfl
    · simp [TypeDecl.erase, hd]
  | Enum d =>
    simp only [typeDecl] at hE hf
    obtain ⟨d', st1, h1, hd, hE1⟩ := enumDecl_ok hdocs d hwf fuel hf st rest hE trivial
    simp only [enumDecl, List.cons_append] at hE
    pt_exists st1, hE1
    · simp only [parseTypeDecl, peekTok_of_E hE (k := .EnumKeyword) rfl, h1, bind_ok]; rfl
    · simp [TypeDecl.erase, hd]
  | Alias d =>
    simp only [typeDecl] at hE hf
    obtain ⟨d', st1, h1, hd, hE1⟩ := typeAlias_ok hdocs d hwf fuel hf st rest hE trivial
    simp only [typeAlias, List.cons_append] at hE
    pt_exists st1, hE1
    · simp only [parseTypeDecl, peekTok_of_E hE (k := .TypeKeyword) rfl, h1, bind_ok]; rfl
    · simp [TypeDecl.erase, hd]

theorem itemTypeDecl_head (d : ItemTypeDecl) : headIn itemTypeDeclPeeks (itemTypeDecl d) := by
  cases d with
  | Resource d => simp only [itemTypeDecl, resourceDecl]; exact headIn_cons (k := .ResourceKeyword) rfl (by decide)
  | Variant d => simp only [itemTypeDecl, variantDecl]; exact headIn_cons (k := .VariantKeyword) rfl (by decide)
  | Record d => simp only [itemTypeDecl, recordDecl]; exact headIn_cons (k := .RecordKeyword) rfl (by decide)
  | Flags d => simp only [itemTypeDecl, flagsDecl]; exact headIn_cons (k := .FlagsKeyword) rfl (by decide)
  | Enum d => simp only [itemTypeDecl, enumDecl]; exact headIn_cons (k := .EnumKeyword) rfl (by decide)
  | Alias d => simp only [itemTypeDecl, typeAlias]; exact headIn_cons (k := .TypeKeyword) rfl (by decide)

theorem itemTypeDecl_ok (hdocs : DocsNF) (d : ItemTypeDecl) (hwf : d.wf = true) (fuel : Nat)
    (hf : 3 * (itemTypeDecl d).length ≤ fuel) :
    ParsesTo (parseItemTypeDecl fuel) ItemTypeDecl.erase (itemTypeDecl d) d (fun _ => True) := by
  intro st rest hE _
  cases d with
  | Resource d =>
    simp only [itemTypeDecl] at hE hf
    obtain ⟨d', st1, h1, hd, hE1⟩ := resourceDecl_ok hdocs d hwf fuel hf st rest hE trivial
    simp only [resourceDecl, List.cons_append] at hE
    pt_exists st1, hE1
    · simp only [parseItemTypeDecl, peekTok_of_E hE (k := .ResourceKeyword) rfl, h1, bind_ok]; rfl
    · simp [ItemTypeDecl.erase, hd]
  | Variant d =>
    simp only [itemTypeDecl] at hE hf
    obtain ⟨d', st1, h1, hd, hE1⟩ := variantDecl_ok hdocs d hwf fuel hf st rest hE trivial
    simp only [variantDecl, List.cons_append] at hE
    pt_exists st1, hE1
    · simp only [parseItemTypeDecl, peekTok_of_E hE (k := .VariantKeyword) rfl, h1, bind_ok]; rfl
    · simp [ItemTypeDecl.erase, hd]
  | Record d =>
    simp only [itemTypeDecl] at hE hf
    obtain ⟨d', st1, h1, hd, hE1⟩ := recordDecl_ok hdocs d hwf fuel hf st rest hE trivial
    simp only [recordDecl, List.cons_append] at hE
    pt_exists st1, hE1
    · simp only [parseItemTypeDecl, peekTok_of_E hE (k := .RecordKeyword) rfl, h1, bind_ok]; rfl
    · simp [ItemTypeDecl.erase, hd]
  | Flags d =>
    simp only [itemTypeDecl] at hE hf
    obtain ⟨d', st1, h1, hd, hE1⟩ := flagsDecl_ok hdocs d hwf fuel hf st rest hE trivial
    simp only [flagsDecl, List.cons_append] at hE
    pt_exists st1, hE1
    · simp only [parseItemTypeDecl, peekTok_of_E hE (k := .FlagsKeyword) rfl, h1, bind_ok]; rfl
    · simp [ItemTypeDecl.erase, hd]
  | Enum d =>
    simp only [itemTypeDecl] at hE hf
    obtain ⟨d', st1, h1, hd, hE1⟩ := enumDecl_ok hdocs d hwf fuel hf st rest hE trivial
    simp only [enumDecl, List.cons_append] at hE
    pt_exists st1, hE1
    · simp only [parseItemTypeDecl, peekTok_of_E hE (k := .EnumKeyword) rfl, h1, bind_ok]; rfl
    · simp [ItemTypeDecl.erase, hd]
  | Alias d =>
    simp only [itemTypeDecl] at hE hf
    obtain ⟨d', st1, h1, hd, hE1⟩ := typeAlias_ok hdocs d hwf fuel hf st rest hE trivial
    simp only [typeAlias, List.cons_append] at hE
    pt_exists st1, hE1
    · simp only [parseItemTypeDecl, peekTok_of_E hE (k := .TypeKeyword) rfl, h1, bind_ok]; rfl
    · simp [ItemTypeDecl.erase, hd]

end Wac.Lemmas.PrinterParse
