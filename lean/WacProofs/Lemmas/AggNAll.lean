import WacProofs.Lemmas.AggNInv
import WacProofs.Lemmas.AggAllTotal
/-
  C09 general theorems, part 20: `GInvN`, the invariant of `aggregateAll` on lists of NESTED
  instance requirements from separate collections, one `aggregate` call (`ginvN_step`), the whole
  list (`ginvN_all`), two runs over the same requirements (`ginvN_equiv`), and the decidable
  description of the nested fragment (`nestForest`, `nfragB`).
-/
namespace Wac.AggP
open Wac Wac.Spec

structure GInvN (W : Colls) (seen : List (Req × Forest)) (s : AggState) : Prop where
  tinv : TInvN W seen (canon s.agg.redirects) s
  ninv : NInv s.agg.imports s.agg.redirects (seen.map (·.1.1))

theorem ginvN_empty (W : Colls) (hfresh : ∀ C, W.mem C → C.uid ≠ 0) : GInvN W [] Agg.empty := by
  refine ⟨⟨⟨⟨?_, ?_, ?_⟩, cinv_nil W _ hfresh, rfl⟩, ⟨rfl, rfl⟩, ?_, ?_, ?_, ?_, ?_, ?_, ?_⟩, ninv_empty⟩
  · intro C _
    refine ⟨?_, ?_⟩
    · intro d v' h; cases h
    · intro f f' h; cases h
  · intro d hd; simp [Agg.empty] at hd
  · refine ⟨?_, ?_⟩
    · intro uid d ty h; cases h
    · intro uid f ty h; cases h
  · intro j itf hj; simp [Agg.empty] at hj
  · intro n k h; cases h
  · intro n1 n2 e h; cases h
  · intro g _ h; cases h
  · intro p h; cases h
  · intro p h; cases h
  · rintro n F ⟨e, ti, h, _⟩; cases h

/-- **one `aggregate` call keeps the invariant** -/
theorem ginvN_step {W : Colls} {seen : List (Req × Forest)} {s s' : AggState} (hG : GInvN W seen s)
    {r : Req} {G : Forest} (hr : NestReq r G) (hW : W.mem r.2.1)
    (hfresh : ∀ p, p ∈ seen → p.1.2.1.uid ≠ r.2.1.uid)
    (h : aggregate r.1 r.2.1 r.2.2 s = .ok ((), s')) : GInvN W ((r, G) :: seen) s' ∧ s'.cfg = s.cfg := by
  obtain ⟨name, types, kind⟩ := r
  simp only at hr hW hfresh h
  unfold aggregate at h
  simp only [bind_ok, run_getAgg, Except.ok.injEq, Prod.mk.injEq] at h
  obtain ⟨_, _, ⟨rfl, rfl⟩, h⟩ := h
  have hT := hG.tinv
  have hN := hG.ninv
  cases hg : amGet s.agg.imports name with
  | some existing =>
    -- the name is imported already
    rw [hg] at h
    have hself : canon s.agg.redirects name = name := hN.canon_self (by rw [hg]; rfl)
    obtain ⟨hT1, hi, hrd, hcf⟩ := hT.merge (r := (name, types, kind)) hr hW hfresh hg h (cls' := canon s.agg.redirects) hself
      (fun _ _ => rfl)
    refine ⟨⟨by rw [hrd]; exact hT1, ?_⟩, hcf⟩
    rw [hi, hrd]
    exact hN.exact (by rw [hg]; rfl)
  | none =>
    rw [hg] at h
    simp only [findSemverImport_eq] at h
    cases hf : findSemver s.agg.imports name with
    | none =>
      -- a new import
      rw [hf] at h
      simp only [bind_ok, run_getAgg, Except.ok.injEq, Prod.mk.injEq] at h
      obtain ⟨k', s1, hrm, _, _, ⟨rfl, rfl⟩, h⟩ := h
      have hN' := hN.fresh k' hg hf
      have hself : canon s.agg.redirects name = name := hN'.canon_self (by rw [AggP.amGet_amInsert]; simp)
      obtain ⟨hT1, hi, hrd, hcf⟩ := hT.fresh (r := (name, types, kind)) hr hW hfresh hg hrm (cls' := canon s.agg.redirects) hself
        (fun _ _ => rfl)
      rw [hi, hg] at h
      simp only [Option.isSome_none, Bool.false_eq_true, ↓reduceIte, run_modifyAgg, Except.ok.injEq, Prod.mk.injEq,
        true_and] at h
      subst h
      refine ⟨⟨?_, ?_⟩, hcf⟩
      · have : (addImport s1 name k').agg.redirects = s.agg.redirects := hrd
        rw [show ({ s1 with agg := { s1.agg with imports := amInsert s1.agg.imports name k' } } : AggState) =
          addImport s1 name k' from rfl, this]
        exact hT1
      · show NInv (amInsert s1.agg.imports name k') s1.agg.redirects _
        rw [hi, hrd]; exact hN'
    | some p =>
      obtain ⟨exName, exKind⟩ := p
      rw [hf] at h
      simp only [bind_ok] at h
      obtain ⟨_, s1, hm, h⟩ := h
      obtain ⟨hmem, k, vn, vex, hkn, hke⟩ := findSemver_some hf
      have hex : amGet s.agg.imports exName = some exKind := amGet_of_mem_nodup _ _ _ hN.nodup hmem
      have hexs : (amGet s.agg.imports exName).isSome = true := by rw [hex]; rfl
      -- class assignment after the merge: the new name belongs to the existing import
      obtain ⟨hT1, hi, hrd, hcf⟩ := hT.merge (r := (name, types, kind)) hr hW hfresh hex hm
        (cls' := fun n => if n = name then exName else canon s.agg.redirects n) (by simp)
        (by
          intro p hp
          by_cases hpn : p.1.1 = name
          · simp only [hpn, ↓reduceIte]
            exact (hN.seen_canon (by rw [← hpn]; exact List.mem_map.2 ⟨p, hp, rfl⟩) hg hexs hkn hke).symm
          · simp only [hpn, ↓reduceIte])
      rw [hkn, hke] at h
      simp only at h
      by_cases hlt : vex.lt vn = true
      · -- rename
        simp only [hlt, ↓reduceIte, run_modifyAgg, Except.ok.injEq, Prod.mk.injEq, true_and] at h
        have hex1 : amGet s1.agg.imports exName = some exKind := by rw [hi]; exact hex
        rw [hex1] at h
        simp only at h
        subst h
        have hnokey := hN.rename_nokey hexs hkn hke hlt
        have hnot_seen : ∀ p, p ∈ seen → p.1.1 ≠ name := by
          intro p hp hpn
          rcases hN.seen name (by rw [← hpn]; exact List.mem_map.2 ⟨p, hp, rfl⟩) with h1 | h1
          · rw [hg] at h1; cases h1
          · rw [hnokey] at h1; cases h1
        refine ⟨⟨?_, ?_⟩, hcf⟩
        · have := hT1.rename (name := name) (exName := exName) (m := exKind) (by rw [hi]; exact hex) (by rw [hi]; exact hg)
            (amInsert (repoint s1.agg.redirects exName name) exName name)
            (cls' := canon (amInsert (repoint s1.agg.redirects exName name) exName name))
            (by
              intro p hp
              rw [canon_rename, hrd]
              rcases List.mem_cons.1 hp with rfl | hp
              · -- the new requirement
                simp only [↓reduceIte]
                have e1 : (exName == name) = false := by
                  rw [Bool.eq_false_iff]; intro hc
                  have : exName = name := by simpa using hc
                  rw [this, hg] at hexs; cases hexs
                have e2 : canon s.agg.redirects name = name := by unfold canon; rw [hnokey]; rfl
                rw [e1, e2]
                have e3 : (name == exName) = false := by
                  rw [Bool.eq_false_iff]; intro hc
                  have : name = exName := by simpa using hc
                  rw [← this, hg] at hexs; cases hexs
                simp [e3]
              · have hpn := hnot_seen p hp
                simp only [hpn, ↓reduceIte]
                by_cases a1 : exName = p.1.1
                · have : canon s.agg.redirects p.1.1 = exName := by rw [← a1]; exact hN.canon_self hexs
                  simp [a1, this]
                · have a1' : (exName == p.1.1) = false := by simpa using a1
                  rw [a1']
                  simp only [Bool.false_eq_true, ↓reduceIte, beq_iff_eq]
                  by_cases a2 : canon s.agg.redirects p.1.1 = exName
                  · simp only [a2, ↓reduceIte]
                    cases hr' : amGet s.agg.redirects p.1.1 with
                    | some b => rfl
                    | none =>
                      exfalso
                      unfold canon at a2; rw [hr'] at a2
                      exact a1 a2.symm
                  · simp only [a2, ↓reduceIte])
          exact this
        · show NInv (alRemove s1.agg.imports exName ++ [(name, exKind)])
            (amInsert (List.map (fun e => if (e.snd == exName) = true then (e.fst, name) else e) s1.agg.redirects) exName name) _
          rw [hi, hrd]
          exact hN.rename hg hex hkn hke hlt
      · -- redirect
        simp only [hlt, Bool.false_eq_true, ↓reduceIte, run_modifyAgg, Except.ok.injEq, Prod.mk.injEq, true_and] at h
        subst h
        refine ⟨⟨?_, ?_⟩, hcf⟩
        · have := (hT1.set_redirects (amInsert s1.agg.redirects name exName)).congr
            (cls' := canon (amInsert s1.agg.redirects name exName))
            (by
              intro p _
              rw [canon_redirect, hrd]
              by_cases a : name = p.1.1
              · simp [a]
              · have a' : (name == p.1.1) = false := by simpa using a
                have : ¬ p.1.1 = name := fun e => a e.symm
                simp [a', this])
          exact this
        · show NInv s1.agg.imports (amInsert s1.agg.redirects name exName) _
          rw [hi, hrd]
          exact hN.redirect hg hexs hkn hke hlt

/-! ### the whole list -/

theorem ginvN_all {W : Colls} : ∀ (cs : List (Req × Forest)) (seen : List (Req × Forest)) (s s' : AggState),
    GInvN W seen s → (∀ p, p ∈ cs → NestReq p.1 p.2 ∧ W.mem p.1.2.1) →
    (∀ p, p ∈ cs → ∀ q, q ∈ seen → q.1.2.1.uid ≠ p.1.2.1.uid) →
    cs.Pairwise (fun a b => a.1.2.1.uid ≠ b.1.2.1.uid) →
    aggregateAll (cs.map (·.1)) s = .ok s' → GInvN W (cs.reverse ++ seen) s' ∧ s'.cfg = s.cfg
  | [], seen, s, s', hG, _, _, _, h => by
    simp only [List.map_nil, aggregateAll, Except.ok.injEq] at h
    subst h; exact ⟨by simpa using hG, rfl⟩
  | p :: cs, seen, s, s', hG, hfl, hfr, hpw, h => by
    rw [List.map_cons, aggregateAll_cons] at h
    rw [List.pairwise_cons] at hpw
    cases ha : aggregate p.1.1 p.1.2.1 p.1.2.2 s with
    | error e => rw [ha] at h; cases h
    | ok us =>
      obtain ⟨u, s1⟩ := us
      rw [ha] at h
      simp only at h
      obtain ⟨hp1, hp2⟩ := hfl p List.mem_cons_self
      obtain ⟨hG1, hcf1⟩ := ginvN_step hG hp1 hp2 (fun q hq => hfr p List.mem_cons_self q hq) (by cases u; exact ha)
      have := ginvN_all cs ((p.1, p.2) :: seen) s1 s' hG1 (fun q hq => hfl q (List.mem_cons_of_mem _ hq))
        (by
          intro q hq q' hq'
          rcases List.mem_cons.1 hq' with rfl | hq'
          · exact hpw.1 q hq
          · exact hfr q (List.mem_cons_of_mem _ hq) q' hq')
        hpw.2 h
      exact ⟨by simpa [List.reverse_cons, List.append_assoc] using this.1, this.2.trans hcf1⟩

/-! ### two runs over the same set of requirements end with equivalent imports -/

theorem ginvN_equiv {W W' : Colls} {seen seen' : List (Req × Forest)} {A A' : AggState}
    (hG : GInvN W seen A) (hG' : GInvN W' seen' A') (hsame : ∀ p, p ∈ seen ↔ p ∈ seen')
    {q : Req × Forest} (hq : q ∈ seen) {F F' : Forest}
    (hF : ImpN A (canon A.agg.redirects q.1.1) F) (hF' : ImpN A' (canon A'.agg.redirects q.1.1) F') :
    sub (.instance F) (.instance F') = true ∧ sub (.instance F') (.instance F) = true := by
  have hS : ∀ p : Req × Forest, p ∈ seen → p.1.1 ∈ seen.map (·.1.1) := fun p hp => List.mem_map.2 ⟨p, hp, rfl⟩
  have hS' : ∀ p : Req × Forest, p ∈ seen' → p.1.1 ∈ seen'.map (·.1.1) := fun p hp => List.mem_map.2 ⟨p, hp, rfl⟩
  have hq' := (hsame q).1 hq
  have hFnd : F.namesDistinct = true := by obtain ⟨_, _, _, _, _, h⟩ := hF; exact h
  have hF'nd : F'.namesDistinct = true := by obtain ⟨_, _, _, _, _, h⟩ := hF'; exact h
  -- classes agree: both are "semver-compatible with q"
  have cls : ∀ p, p ∈ seen → (canon A.agg.redirects p.1.1 = canon A.agg.redirects q.1.1 ↔
      canon A'.agg.redirects p.1.1 = canon A'.agg.redirects q.1.1) := by
    intro p hp
    rw [hG.ninv.canon_eq_iff (hS p hp) (hS q hq), hG'.ninv.canon_eq_iff (hS' p ((hsame p).1 hp)) (hS' q hq')]
  constructor
  · refine hG'.tinv.glb _ F' hF' _ (nd_instance hFnd) ?_
    intro p hp hcl
    have hp0 := (hsame p).2 hp
    obtain ⟨Fp, hFp, hsp⟩ := hG.tinv.sat p hp0
    rw [(cls p hp0).2 hcl] at hFp
    rw [hFp.det hF] at hsp
    exact hsp
  · refine hG.tinv.glb _ F hF _ (nd_instance hF'nd) ?_
    intro p hp hcl
    obtain ⟨Fp, hFp, hsp⟩ := hG'.tinv.sat p ((hsame p).1 hp)
    rw [(cls p hp).1 hcl] at hFp
    rw [hFp.det hF'] at hsp
    exact hsp


/-! ### the nested fragment, decidably -/

/-- `SrcOK`, decidably -/
def srcOKB (types : Types) : Nat → Nat → Bool
  | 0, _ => false
  | d + 1, i =>
    match types.interfaces[i]? with
    | some si => si.uses.isEmpty && si.id.isNone &&
        si.exports.all fun x => match x.2 with
          | .func _ => true
          | .value _ => true
          | .type (.func _) => true
          | .type (.value _) => true
          | .instance t => srcOKB types d t
          | .type (.interface t) => srcOKB types d t
          | _ => false
    | none => false

theorem srcOK_of_srcOKB (types : Types) : ∀ d i, srcOKB types d i = true → SrcOK types d i
  | 0, _, h => by simp [srcOKB] at h
  | d + 1, i, h => by
    simp only [srcOKB] at h
    cases hsi : types.interfaces[i]? with
    | none => simp [hsi] at h
    | some si =>
      simp only [hsi, Bool.and_eq_true, List.isEmpty_iff, Option.isNone_iff_eq_none, List.all_eq_true] at h
      obtain ⟨⟨huses, hid⟩, hexp⟩ := h
      refine ⟨si, hsi, huses, hid, fun x hx => ?_⟩
      have := hexp x hx
      cases hk : x.2 with
      | func f => exact .inl (by simp [LeafK])
      | value v => exact .inl (by simp [LeafK])
      | «instance» t =>
        rw [hk] at this
        exact .inr ⟨false, t, rfl, srcOK_of_srcOKB types d t this⟩
      | type ty =>
        rw [hk] at this
        cases ty with
        | func _ => exact .inl (by simp [LeafK])
        | value _ => exact .inl (by simp [LeafK])
        | interface t => exact .inr ⟨true, t, rfl, srcOK_of_srcOKB types d t this⟩
        | _ => cases this
      | component _ => rw [hk] at this; cases this
      | module _ => rw [hk] at this; cases this

/-- the forest of a nested instance requirement, `none` when the requirement is not in the fragment -/
def nestForest (r : Req) : Option Forest :=
  match r.2.2 with
  | .instance i =>
    if srcOKB r.2.1 r.2.1.interfaces.length i && saneB r.2.1 then
      match r.2.1.unfold r.2.2 with
      | some (.instance G) => if G.namesDistinct then some G else none
      | _ => none
    else none
  | _ => none

theorem nestForest_spec {r : Req} {G : Forest} (h : nestForest r = some G) :
    NestReq r G ∧ r.2.1.unfold r.2.2 = some (.instance G) := by
  obtain ⟨n, C, k⟩ := r
  simp only [nestForest] at h
  cases k with
  | «instance» i =>
    simp only at h
    split at h
    · rename_i hc
      simp only [Bool.and_eq_true] at hc
      split at h
      · rename_i G' hu
        split at h
        · rename_i hnd
          cases h
          refine ⟨⟨sane_of_saneB hc.2, ⟨i, _, rfl, srcOK_of_srcOKB C _ i hc.1, ?_, hu⟩, hnd⟩, hu⟩
          intro si hsi
          exact unfold_instance hsi hu
        · cases h
      · cases h
    · cases h
  | _ => simp at h

/-- a list of contributors of the nested fragment over separate collections -/
def nfragB (cs : List Req) : Bool :=
  cs.all (fun r => (nestForest r).isSome && decide (r.2.1.uid ≠ 0)) &&
    decide (cs.Pairwise fun a b => a.2.1.uid ≠ b.2.1.uid)

/-- the contributors with their forests -/
def withNForests (cs : List Req) : List (Req × Forest) :=
  cs.filterMap fun r => (nestForest r).map fun G => (r, G)

theorem withNForests_map {cs : List Req} (h : ∀ r, r ∈ cs → (nestForest r).isSome = true) :
    (withNForests cs).map (·.1) = cs := by
  induction cs with
  | nil => rfl
  | cons r cs ih =>
    have hr := h r List.mem_cons_self
    obtain ⟨G, hG⟩ := Option.isSome_iff_exists.1 hr
    simp only [withNForests, List.filterMap_cons, hG, Option.map_some, List.map_cons]
    congr 1
    exact ih (fun r' hr' => h r' (List.mem_cons_of_mem _ hr'))

theorem withNForests_mem {cs : List Req} {p : Req × Forest} (h : p ∈ withNForests cs) :
    p.1 ∈ cs ∧ nestForest p.1 = some p.2 := by
  simp only [withNForests, List.mem_filterMap, Option.map_eq_some_iff] at h
  obtain ⟨r, hr, G, hG, rfl⟩ := h
  exact ⟨hr, hG⟩

end Wac.AggP
