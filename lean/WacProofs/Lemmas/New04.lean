import WacProofs.Lemmas.Expr04
/-
  C04 refinement, part 4: `instantiate` + `set_instantiation_argument` against the
  specification's argument check and the instantiation it records.
-/
namespace Wac.Lemmas.C04
open Wac.Lang Wac.Lang.Model

/-! ### positions in export lists -/

theorem exportsAt_toList : ∀ (es : Exports) (i : Nat), exportsAt es i = es.toList[i]?
  | .nil, i => by simp [exportsAt, Exports.toList]
  | .cons m k r, 0 => by simp [exportsAt, Exports.toList]
  | .cons m k r, i + 1 => by simp [exportsAt, Exports.toList, exportsAt_toList r i]

/-- index of an import name (0 if absent) -/
def idxOf (p : Package) (name : Str) : Nat :=
  match exportsIndex name p.imports 0 with
  | some (i, _) => i
  | none => 0

theorem nodup_index_unique {α} (l : List (Str × α)) (h : (l.map (·.1)).Nodup) (i j : Nat) (a b : Str × α)
    (hi : l[i]? = some a) (hj : l[j]? = some b) (hab : a.1 = b.1) : i = j := by
  have hi' : (l.map (·.1))[i]? = some a.1 := by simp [hi]
  have hj' : (l.map (·.1))[j]? = some a.1 := by simp [hj, hab]
  have hil : i < (l.map (·.1)).length := (List.getElem?_eq_some_iff.mp hi').1
  have hjl : j < (l.map (·.1)).length := (List.getElem?_eq_some_iff.mp hj').1
  have e1 : (l.map (·.1))[i] = a.1 := (List.getElem?_eq_some_iff.mp hi').2
  have e2 : (l.map (·.1))[j] = a.1 := (List.getElem?_eq_some_iff.mp hj').2
  have k1 := List.Nodup.idxOf_getElem h i hil
  have k2 := List.Nodup.idxOf_getElem h j hjl
  rw [e1] at k1
  rw [e2] at k2
  exact k1.symm.trans k2

theorem indexedFrom_filterMap_snd {α β} (f : α → Option β) : ∀ (l : List α) (i : Nat),
    (indexedFrom i l).filterMap (fun x => f x.2) = l.filterMap f
  | [], i => rfl
  | a :: r, i => by
    simp only [indexedFrom, List.filterMap_cons]
    rw [indexedFrom_filterMap_snd f r (i + 1)]

theorem filterMap_ite_filter {α} (c : α → Bool) (l : List α) :
    l.filterMap (fun x => if c x then none else some x) = l.filter (fun x => !c x) := by
  induction l with
  | nil => rfl
  | cons a r ih =>
    simp only [List.filterMap_cons, List.filter_cons]
    cases c a <;> simp [ih]

theorem find_head_filter {α} (f : Str → Bool) : ∀ (l : List (Str × α)),
    (l.map (·.1)).find? f = ((l.filter (fun x => f x.1)).head?).map (·.1)
  | [] => rfl
  | a :: r => by
    simp only [List.map_cons, List.find?_cons, List.filter_cons]
    cases f a.1 with
    | true => simp
    | false => simpa using find_head_filter f r

end Wac.Lemmas.C04
