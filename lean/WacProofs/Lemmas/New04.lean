import WacProofs.Lemmas.Expr04
/-
  C04 refinement, part 4: `instantiate` + `set_instantiation_argument` against the
  specification's argument check and the instantiation it records.
-/
namespace Wac.Lemmas.C04
open Wac.Lang Wac.Lang.Model

/-! ### positions in export lists -/

theorem exportsAt_toList : ∀ (es : Exports) (i : Nat), exportsAt es i = es.toList[i]?
  | .nil, i => by simp [exportsAt, Exports.toList]
  | .cons m k r, 0 => by simp [exportsAt, Exports.toList]
  | .cons m k r, i + 1 => by simp [exportsAt, Exports.toList, exportsAt_toList r i]

/-- index of an import name (0 if absent) -/
def idxOf (p : Package) (name : Str) : Nat :=
  match exportsIndex name p.imports 0 with
  | some (i, _) => i
  | none => 0

theorem nodup_index_unique {α} (l : List (Str × α)) (h : (l.map (·.1)).Nodup) (i j : Nat) (a b : Str × α)
    (hi : l[i]? = some a) (hj : l[j]? = some b) (hab : a.1 = b.1) : i = j := by
  have hi' : (l.map (·.1))[i]? = some a.1 := by simp [hi]
  have hj' : (l.map (·.1))[j]? = some a.1 := by simp [hj, hab]
  have hil : i < (l.map (·.1)).length := (List.getElem?_eq_some_iff.mp hi').1
  have hjl : j < (l.map (·.1)).length := (List.getElem?_eq_some_iff.mp hj').1
  have e1 : (l.map (·.1))[i] = a.1 := (List.getElem?_eq_some_iff.mp hi').2
  have e2 : (l.map (·.1))[j] = a.1 := (List.getElem?_eq_some_iff.mp hj').2
  have k1 := List.Nodup.idxOf_getElem h i hil
  have k2 := List.Nodup.idxOf_getElem h j hjl
  rw [e1] at k1
  rw [e2] at k2
  exact k1.symm.trans k2

theorem indexedFrom_filterMap_snd {α β} (f : α → Option β) : ∀ (l : List α) (i : Nat),
    (indexedFrom i l).filterMap (fun x => f x.2) = l.filterMap f
  | [], i => rfl
  | a :: r, i => by
    simp only [indexedFrom, List.filterMap_cons]
    rw [indexedFrom_filterMap_snd f r (i + 1)]

theorem filterMap_ite_filter {α} (c : α → Bool) (l : List α) :
    l.filterMap (fun x => if c x then none else some x) = l.filter (fun x => !c x) := by
  induction l with
  | nil => rfl
  | cons a r ih =>
    simp only [List.filterMap_cons, List.filter_cons]
    cases c a <;> simp [ih]

theorem find_head_filter {α} (f : Str → Bool) : ∀ (l : List (Str × α)),
    (l.map (·.1)).find? f = ((l.filter (fun x => f x.1)).head?).map (·.1)
  | [] => rfl
  | a :: r => by
    simp only [List.map_cons, List.find?_cons, List.filter_cons]
    cases f a.1 with
    | true => simp
    | false => simpa using find_head_filter f r

/-! ### setting the arguments -/

/-- the argument edge added for a table entry -/
def mkEdge (p : Package) (inst : Nat) (x : Str × Nat) : ArgEdge := { src := x.2, dst := inst, index := idxOf p x.1 }

/-- the graph while the arguments of the fresh instantiation `inst` are being set -/
structure SetCtx (g gc : Graph) (inst pkg : Nat) (p : Package) (done : List (Str × Nat)) : Prop where
  node : ∃ nd, gc.node? inst = some nd ∧ nd.kind = .inst pkg
  pkgs : gc.packages[pkg]? = some p
  edges : gc.edges = g.edges ++ done.map (mkEdge p inst)
  oldDst : ∀ e ∈ g.edges, e.dst ≠ inst
  kinds : ∀ a, a < g.nodes.length → gc.kindOf a = g.kindOf a
  doneIn : ∀ x ∈ done, ∃ k, exportsIndex x.1 p.imports 0 = some (idxOf p x.1, k)

theorem setArgs_sim (g : Graph) (inst pkg : Nat) (p : Package) :
    ∀ (todo : List (Str × Nat)) (gc : Graph) (done : List (Str × Nat)),
      SetCtx g gc inst pkg p done → ((done ++ todo).map (·.1)).Nodup → (∀ x ∈ todo, x.2 < g.nodes.length) →
      (∀ d, Spec.checkArgs p (tblVals g todo) = .error d → newExprSetArgs inst gc todo = .error d) ∧
      (Spec.checkArgs p (tblVals g todo) = .ok () →
        newExprSetArgs inst gc todo = .ok { gc with edges := gc.edges ++ todo.map (mkEdge p inst) } ∧
        ∀ x ∈ todo, ∃ k, exportsIndex x.1 p.imports 0 = some (idxOf p x.1, k))
  | [], gc, done, _, _, _ => by
    simp [Spec.checkArgs, tblVals, newExprSetArgs]
  | (name, a) :: rest, gc, done, ctx, hnd, hb => by
    have ha : a < g.nodes.length := hb (name, a) List.mem_cons_self
    have hrestb : ∀ x ∈ rest, x.2 < g.nodes.length := fun x hx => hb x (List.mem_cons_of_mem _ hx)
    obtain ⟨nd, hnode, hkind⟩ := ctx.node
    have himports : gc.instImports inst = p.imports := by
      unfold Graph.instImports
      rw [hnode]
      cases nd with
      | mk kd it pv =>
        simp only at hkind
        subst hkind
        simp only [ctx.pkgs]
    have hspec : Spec.checkArgs p (tblVals g ((name, a) :: rest)) =
        match p.imports.get name with
        | none => .error (.unknownArg name)
        | some expected =>
          if (valOf g a).kind.sub expected then Spec.checkArgs p (tblVals g rest) else .error (.mismatchedArg name) := by
      simp only [tblVals, List.map_cons, Spec.checkArgs]
      cases p.imports.get name <;> rfl
    rw [hspec]
    unfold newExprSetArgs Graph.setInstantiationArgument
    rw [himports]
    cases hidx : exportsIndex name p.imports 0 with
    | none =>
      have hget : p.imports.get name = none := (exportsIndex_none name p.imports 0).mp hidx
      rw [hget]
      simp
    | some ik =>
      obtain ⟨index, expected⟩ := ik
      obtain ⟨_, hat, hget⟩ := exportsIndex_spec name p.imports 0 index expected hidx
      simp only [Nat.sub_zero] at hat
      rw [hget]
      simp only
      have hidxOf : idxOf p name = index := by simp [idxOf, hidx]
      -- no edge for this argument yet
      have hfind : gc.edges.find? (fun e => e.dst == inst && e.index == index) = none := by
        rw [List.find?_eq_none]
        intro e he
        rw [ctx.edges] at he
        rcases List.mem_append.mp he with he | he
        · have := ctx.oldDst e he
          simp [this]
        · obtain ⟨x, hx, rfl⟩ := List.mem_map.mp he
          obtain ⟨k, hxi⟩ := ctx.doneIn x hx
          simp only [mkEdge, beq_self_eq_true, Bool.true_and, beq_iff_eq]
          intro heq
          obtain ⟨_, hat', _⟩ := exportsIndex_spec x.1 p.imports 0 (idxOf p x.1) k hxi
          simp only [Nat.sub_zero] at hat'
          rw [heq, hat] at hat'
          have hname : name = x.1 := by cases hat'; rfl
          -- `name` is not among the names already done
          have hnd' := hnd
          rw [List.map_append, List.map_cons] at hnd'
          have := (List.nodup_append.mp hnd').2.2 x.1 (List.mem_map_of_mem hx) name List.mem_cons_self
          exact this hname.symm
      rw [hfind]
      simp only
      have hk : gc.kindOf a = (valOf g a).kind := by rw [ctx.kinds a ha]; rfl
      rw [hk]
      by_cases hsub : (valOf g a).kind.sub expected = true
      · simp only [hsub, ↓reduceIte]
        have ctx' : SetCtx g { gc with edges := gc.edges ++ [{ src := a, dst := inst, index := index }] } inst pkg p
            (done ++ [(name, a)]) := by
          refine ⟨⟨nd, hnode, hkind⟩, ctx.pkgs, ?_, ctx.oldDst, ctx.kinds, ?_⟩
          · simp only [ctx.edges, List.map_append, List.map_cons, List.map_nil, List.append_assoc, mkEdge, hidxOf]
          · intro x hx
            rcases List.mem_append.mp hx with hx | hx
            · exact ctx.doneIn x hx
            · have : x = (name, a) := by simpa using hx
              subst this
              exact ⟨expected, by rw [hidxOf]; exact hidx⟩
        have hnd' : (((done ++ [(name, a)]) ++ rest).map (·.1)).Nodup := by
          simpa [List.append_assoc] using hnd
        obtain ⟨ih1, ih2⟩ := setArgs_sim g inst pkg p rest _ (done ++ [(name, a)]) ctx' hnd' hrestb
        refine ⟨fun d hd => ih1 d hd, fun hok => ?_⟩
        obtain ⟨e1, e2⟩ := ih2 hok
        refine ⟨?_, ?_⟩
        · rw [e1]
          simp only [List.map_cons, List.append_assoc, List.singleton_append, mkEdge, hidxOf]
        · intro x hx
          rcases List.mem_cons.mp hx with rfl | hx
          · exact ⟨expected, by rw [hidxOf]; exact hidx⟩
          · exact e2 x hx
      · have hsub' : (valOf g a).kind.sub expected = false := by simpa using hsub
        simp [hsub']

/-! ### the graph after `instantiate` and the argument edges -/

/-- the graph after instantiating `pkg` and adding one argument edge per table entry -/
def afterNew (g : Graph) (pkg : Nat) (p : Package) (tbl : List (Str × Nat)) : Graph :=
  { g with
    nodes := g.nodes ++ [{ kind := .inst pkg, item := .inst none p.exports, prov := .inst g.instCount }]
    edges := g.edges ++ tbl.map (mkEdge p g.nodes.length) }

theorem any_append_new (g : Graph) (p : Package) (tbl : List (Str × Nat)) (i idx : Nat) (hi : i ≠ g.nodes.length) :
    (g.edges ++ tbl.map (mkEdge p g.nodes.length)).any (fun e => e.dst == i && e.index == idx) =
      g.edges.any (fun e => e.dst == i && e.index == idx) := by
  rw [List.any_append]
  have : (tbl.map (mkEdge p g.nodes.length)).any (fun e => e.dst == i && e.index == idx) = false := by
    rw [List.any_eq_false]
    intro e he
    obtain ⟨x, _, rfl⟩ := List.mem_map.mp he
    have : (g.nodes.length == i) = false := by
      have : g.nodes.length ≠ i := fun e => hi e.symm
      simpa using this
    simp [mkEdge, this]
  rw [this, Bool.or_false]

theorem filter_append_new (g : Graph) (p : Package) (tbl : List (Str × Nat)) (i : Nat) (hi : i ≠ g.nodes.length) :
    (g.edges ++ tbl.map (mkEdge p g.nodes.length)).filter (·.dst == i) = g.edges.filter (·.dst == i) := by
  rw [List.filter_append]
  have : (tbl.map (mkEdge p g.nodes.length)).filter (·.dst == i) = [] := by
    rw [List.filter_eq_nil_iff]
    intro e he
    obtain ⟨x, _, rfl⟩ := List.mem_map.mp he
    have : g.nodes.length ≠ i := fun e => hi e.symm
    simpa [mkEdge] using this
  rw [this, List.append_nil]

theorem filter_new (g : Graph) (hwf : GraphWF g) (p : Package) (tbl : List (Str × Nat)) :
    (g.edges ++ tbl.map (mkEdge p g.nodes.length)).filter (·.dst == g.nodes.length) = tbl.map (mkEdge p g.nodes.length) := by
  rw [List.filter_append]
  have h1 : g.edges.filter (·.dst == g.nodes.length) = [] := by
    rw [List.filter_eq_nil_iff]
    intro e he
    have := (hwf.edges e he).2
    have : e.dst ≠ g.nodes.length := by omega
    simpa using this
  have h2 : (tbl.map (mkEdge p g.nodes.length)).filter (·.dst == g.nodes.length) = tbl.map (mkEdge p g.nodes.length) := by
    rw [List.filter_eq_self]
    intro e he
    obtain ⟨x, _, rfl⟩ := List.mem_map.mp he
    simp [mkEdge]
  rw [h1, h2, List.nil_append]

/-- the implicit arguments of the fresh instantiation are the imports the table does not name -/
theorem unsatisfied_new (g : Graph) (hwf : GraphWF g) (pkg : Nat) (p : Package) (tbl : List (Str × Nat))
    (hnd : p.imports.names.Nodup)
    (hin : ∀ x ∈ tbl, ∃ k, exportsIndex x.1 p.imports 0 = some (idxOf p x.1, k)) :
    unsatisfied (afterNew g pkg p tbl) g.nodes.length p =
      p.imports.toList.filter (fun x => !alHas x.1 tbl) := by
  unfold unsatisfied indexed
  have hpt : ∀ x ∈ indexedFrom 0 p.imports.toList,
      (fun (x : Nat × Str × Kind) =>
        if (afterNew g pkg p tbl).edges.any (fun e => e.dst == g.nodes.length && e.index == x.1) then none else some x.2) x =
      (fun (x : Nat × Str × Kind) => if alHas x.2.1 tbl then none else some x.2) x := by
    intro x hx
    obtain ⟨i, n, k⟩ := x
    have hmem := (indexedFrom_mem 0 p.imports.toList i (n, k)).mp hx
    have hget : p.imports.toList[i]? = some (n, k) := by simpa using hmem.2
    simp only
    congr 1
    rw [any_dst_filter]
    simp only [afterNew]
    rw [filter_new g hwf p tbl]
    -- an edge with index i exists iff the table names n
    apply propext
    rw [List.any_eq_true, alHas_iff_mem_keys]
    constructor
    · rintro ⟨e, he, hei⟩
      obtain ⟨x, hx, rfl⟩ := List.mem_map.mp he
      obtain ⟨k', hxi⟩ := hin x hx
      obtain ⟨_, hat, _⟩ := exportsIndex_spec x.1 p.imports 0 (idxOf p x.1) k' hxi
      simp only [Nat.sub_zero] at hat
      have hei' : idxOf p x.1 = i := by simpa [mkEdge] using hei
      rw [hei', exportsAt_toList, hget] at hat
      have : n = x.1 := by cases hat; rfl
      rw [this]
      exact List.mem_map_of_mem hx
    · intro hn
      obtain ⟨x, hx, hxn⟩ := List.mem_map.mp hn
      refine ⟨mkEdge p g.nodes.length x, List.mem_map_of_mem hx, ?_⟩
      obtain ⟨k', hxi⟩ := hin x hx
      obtain ⟨_, hat, _⟩ := exportsIndex_spec x.1 p.imports 0 (idxOf p x.1) k' hxi
      simp only [Nat.sub_zero] at hat
      rw [exportsAt_toList] at hat
      have := nodup_index_unique p.imports.toList hnd (idxOf p x.1) i (x.1, k') (n, k) hat hget hxn
      simp [mkEdge, this]
  have := filterMap_congr_mem _ _ (indexedFrom 0 p.imports.toList) hpt
  have h2 : (indexedFrom 0 p.imports.toList).filterMap (fun x => if alHas x.2.1 tbl then none else some x.2) =
      p.imports.toList.filterMap (fun y => if alHas y.1 tbl then none else some y) :=
    indexedFrom_filterMap_snd (fun (y : Str × Kind) => if alHas y.1 tbl then none else some y) p.imports.toList 0
  have h3 := filterMap_ite_filter (fun (y : Str × Kind) => alHas y.1 tbl) p.imports.toList
  rw [← h3, ← h2, ← this]

theorem instNodes_bound (g : Graph) (ip : Nat × Package) (h : ip ∈ instNodes g) : ip.1 < g.nodes.length := by
  unfold instNodes indexed at h
  obtain ⟨x, hx, hfx⟩ := List.mem_filterMap.mp h
  obtain ⟨i, nd⟩ := x
  have hmem := (indexedFrom_mem 0 g.nodes i nd).mp hx
  have hget : g.nodes[i]? = some nd := by simpa using hmem.2
  have hi : i < g.nodes.length := (List.getElem?_eq_some_iff.mp hget).1
  simp only at hfx
  cases hk : nd.kind with
  | imp _ => rw [hk] at hfx; cases hfx
  | alias _ _ => rw [hk] at hfx; cases hfx
  | defn _ => rw [hk] at hfx; cases hfx
  | inst pkg =>
    rw [hk] at hfx
    simp only at hfx
    cases hp : g.packages[pkg]? with
    | none => rw [hp] at hfx; cases hfx
    | some q =>
      rw [hp] at hfx
      simp only [Option.map_some, Option.some.injEq] at hfx
      rw [← hfx]
      exact hi

theorem filterMap_length_congr {α β γ} (f : α → Option β) (f' : α → Option γ) (l : List α)
    (h : ∀ x ∈ l, (f x).isSome = (f' x).isSome) : (l.filterMap f).length = (l.filterMap f').length := by
  induction l with
  | nil => rfl
  | cons a r ih =>
    have ha := h a List.mem_cons_self
    have ih' := ih (fun x hx => h x (List.mem_cons_of_mem _ hx))
    simp only [List.filterMap_cons]
    cases hfa : f a with
    | none =>
      rw [hfa] at ha
      cases hfa' : f' a with
      | none => exact ih'
      | some c => rw [hfa'] at ha; cases ha
    | some b =>
      rw [hfa] at ha
      cases hfa' : f' a with
      | none => rw [hfa'] at ha; cases ha
      | some c => simp [ih']

/-- the number the next instantiation gets is the number of instantiations so far -/
theorem instCount_eq (g : Graph) (hwf : GraphWF g) : g.instCount = (instNodes g).length := by
  unfold Graph.instCount instNodes indexed
  have h1 : (g.nodes.filter (·.kind.isInst)).length =
      (g.nodes.filterMap (fun nd => if nd.kind.isInst then some () else none)).length := by
    induction g.nodes with
    | nil => rfl
    | cons a r ih =>
      simp only [List.filter_cons, List.filterMap_cons]
      cases a.kind.isInst <;> simp [ih]
  rw [h1, ← indexedFrom_filterMap_snd (fun (nd : Node) => if nd.kind.isInst then some () else none) g.nodes 0]
  apply filterMap_length_congr
  intro x hx
  obtain ⟨i, nd⟩ := x
  have hmem := (indexedFrom_mem 0 g.nodes i nd).mp hx
  have hget : g.nodes[i]? = some nd := by simpa using hmem.2
  have hok := hwf.nodes i nd hget
  unfold NodeOK at hok
  simp only
  cases hk : nd.kind with
  | imp _ => simp [NodeKind.isInst]
  | alias _ _ => simp [NodeKind.isInst]
  | defn _ => simp [NodeKind.isInst]
  | inst pkg =>
    rw [hk] at hok
    have : pkg < g.packages.length := hok.1
    simp [NodeKind.isInst, List.getElem?_eq_getElem this]

theorem flatMap_congr_mem {α β} (f g : α → List β) (l : List α) (h : ∀ x ∈ l, f x = g x) :
    l.flatMap f = l.flatMap g := by
  induction l with
  | nil => rfl
  | cons a r ih =>
    simp only [List.flatMap_cons]
    rw [h a List.mem_cons_self, ih (fun x hx => h x (List.mem_cons_of_mem _ hx))]

/-- the specification's state after the same `new` -/
def specAfterNew (ss : Spec.St) (p : Package) (given : List (Str × Spec.Val)) : Spec.St :=
  let missing := p.imports.toList.filter (fun (n, _) => !alHas n given)
  { ss with
    insts := ss.insts ++ [{ pkg := p.name, ver := p.version,
                            args := given.map (fun (n, v) => (n, v.prov)) ++ missing.map (fun (n, _) => (n, Prov.imp n)) }]
    implicit := ss.implicit ++ missing }

theorem afterNew_ext (g : Graph) (pkg : Nat) (p : Package) (tbl : List (Str × Nat)) : Ext g (afterNew g pkg p tbl) :=
  ⟨⟨[_], rfl⟩, ⟨[], by simp [afterNew]⟩⟩

theorem sim_afterNew {lib : Lib} {ms : State} {ss : Spec.St} (hs : Sim lib ms ss) (pkg : Nat) (p : Package)
    (hp : ms.graph.packages[pkg]? = some p) (tbl : List (Str × Nat))
    (hb : ∀ x ∈ tbl, x.2 < ms.graph.nodes.length) (hnd : p.imports.names.Nodup)
    (hin : ∀ x ∈ tbl, ∃ k, exportsIndex x.1 p.imports 0 = some (idxOf p x.1, k)) :
    Sim lib { ms with graph := afterNew ms.graph pkg p tbl } (specAfterNew ss p (tblVals ms.graph tbl)) ∧
    valOf (afterNew ms.graph pkg p tbl) ms.graph.nodes.length = { prov := .inst ss.insts.length, kind := .inst none p.exports } := by
  have hext := afterNew_ext ms.graph pkg p tbl
  have hpl : pkg < ms.graph.packages.length := (List.getElem?_eq_some_iff.mp hp).1
  have hnodes : (afterNew ms.graph pkg p tbl).nodes = ms.graph.nodes ++
      [{ kind := .inst pkg, item := .inst none p.exports, prov := .inst ms.graph.instCount }] := rfl
  have hexp : explicitOf (afterNew ms.graph pkg p tbl) = explicitOf ms.graph := by
    rw [explicitOf_addNode ms.graph _ _ hnodes]; simp
  have hinst : instNodes (afterNew ms.graph pkg p tbl) = instNodes ms.graph ++ [(ms.graph.nodes.length, p)] := by
    rw [instNodes_addNode ms.graph _ _ hnodes rfl]
    simp [hp]
  have hmiss : p.imports.toList.filter (fun (x : Str × Kind) => !alHas x.1 (tblVals ms.graph tbl)) =
      p.imports.toList.filter (fun x => !alHas x.1 tbl) := by
    apply List.filter_congr
    intro x _
    rw [alHas_tblVals]
  have hunsat := unsatisfied_new ms.graph hs.wf pkg p tbl hnd hin
  have hold : ∀ ip ∈ instNodes ms.graph, unsatisfied (afterNew ms.graph pkg p tbl) ip.1 ip.2 = unsatisfied ms.graph ip.1 ip.2 := by
    intro ip hip
    apply unsatisfied_congr
    intro idx
    exact any_append_new ms.graph p tbl ip.1 idx (Nat.ne_of_lt (instNodes_bound ms.graph ip hip))
  refine ⟨⟨⟨?_, ?_, ?_, ?_⟩, ?_, ?_, ?_, ?_, ?_, ?_, ?_⟩, ?_⟩
  · -- edges
    intro e he
    simp only [afterNew, List.length_append, List.length_cons, List.length_nil] at he ⊢
    rcases List.mem_append.mp he with he | he
    · have := hs.wf.edges e he; omega
    · obtain ⟨x, hx, rfl⟩ := List.mem_map.mp he
      have := hb x hx
      simp only [mkEdge]
      omega
  · -- nodes
    intro i nd hi
    rw [hnodes] at hi
    rcases getElem?_snoc _ _ nd i hi with ⟨hlt, hget⟩ | ⟨rfl, rfl⟩
    · exact NodeOK.ext hext hlt (hs.wf.nodes i nd hget)
    · exact ⟨hpl, _, rfl⟩
  · -- exports
    intro x hx
    have := hs.wf.exports x hx
    simp only [afterNew, List.length_append, List.length_cons, List.length_nil]
    omega
  · rw [hexp]; exact hs.wf.imports
  · intro x hx
    exact Nat.lt_of_lt_of_le (hs.scopeBound x hx) hext.length_le
  · -- env
    show ss.env = _
    rw [hs.env]
    apply List.map_congr_left
    intro x hx
    obtain ⟨y, n⟩ := x
    simp only
    rw [hext.valOf n (hs.scopeBound _ hx)]
  · show ss.imports = _
    rw [hs.imports, hexp]
  · -- instantiations
    show ss.insts ++ _ = _
    unfold instsOf
    rw [hinst, List.map_append, hs.insts]
    unfold instsOf
    congr 1
    · apply List.map_congr_left
      intro ip hip
      symm
      apply instRecord_congr
      · exact filter_append_new ms.graph p tbl ip.1 (Nat.ne_of_lt (instNodes_bound ms.graph ip hip))
      · intro e he
        exact hext.provOf e.src (hs.wf.edges e he).1
    · simp only [List.map_cons, List.map_nil, List.cons.injEq, and_true]
      unfold instRecord
      simp only
      rw [hunsat, hmiss]
      congr 2
      have : (afterNew ms.graph pkg p tbl).edges.filter (·.dst == ms.graph.nodes.length) = tbl.map (mkEdge p ms.graph.nodes.length) :=
        filter_new ms.graph hs.wf p tbl
      rw [this]
      simp only [tblVals, List.map_map]
      apply List.map_congr_left
      intro x hx
      obtain ⟨k, hxi⟩ := hin x hx
      obtain ⟨_, hat, _⟩ := exportsIndex_spec x.1 p.imports 0 (idxOf p x.1) k hxi
      simp only [Nat.sub_zero] at hat
      simp only [Function.comp, mkEdge, argName, hat, valOf]
      rw [hext.provOf x.2 (hb x hx)]
  · -- implicit imports
    show ss.implicit ++ _ = _
    unfold implicitOf
    rw [hinst, List.flatMap_append, hs.implicit]
    unfold implicitOf
    congr 1
    · apply flatMap_congr_mem
      intro ip hip
      exact (hold ip hip).symm
    · simp only [List.flatMap_cons, List.flatMap_nil, List.append_nil]
      rw [hunsat, hmiss]
  · -- exports
    show ss.exports = _
    rw [hs.exports]
    unfold exportsOf
    apply List.map_congr_left
    intro x hx
    obtain ⟨name, node⟩ := x
    have := hs.wf.exports _ hx
    simp only
    rw [hext.provOf node this, hext.kindOf node this]
  · exact hs.pkgs
  · unfold valOf Graph.provOf Graph.kindOf Graph.node?
    rw [hnodes]
    simp only [List.getElem?_append_right (Nat.le_refl _), Nat.sub_self, List.getElem?_cons_zero]
    rw [instCount_eq ms.graph hs.wf, hs.insts]
    simp [instsOf]

end Wac.Lemmas.C04
