import WacProofs.Lemmas.DecodeItems
/-
  C08 `decode_tree`, part 10: the import and export loops of `component_type`.
-/
namespace Wac.Decode
open Wac Wac.Spec.Decode

section
variable {w : WTypes} {ρ : Nat → Res} {oi ow : List Nat} {c : Nat}

/-- the `use_or_own` part of one iteration of the import loop -/
def afterWorld (w : WTypes) (st : St) (id : Nat) (ne : Str × WEnt) : Outcome St :=
  match ne.2 with
  | .type referenced created => useOrOwn w st (.world id) ne.1 referenced created
  | _ => .ok st

theorem afterWorld_mild {st st' : St} {id : Nat} {ne : Str × WEnt}
    (h : afterWorld w st id ne = .ok st') : Mild st st' := by
  unfold afterWorld at h
  split at h
  · exact useOrOwn_mild h
  · cases h; exact Mild.refl _

theorem worldImportStep_eq (ent : St → Str → WEnt → Outcome (St × ItemKind)) (id : Nat) (st : St)
    (ne : Str × WEnt) : worldImportStep w ent id st ne =
    match ent st ne.1 ne.2 with
    | .ok (st, import_) =>
      match afterWorld w st id ne with
      | .ok st =>
        match st.types.worlds[id]? with
        | none => .panic "component_type: dangling world"
        | some wd =>
          if (alGet wd.imports ne.1).isSome then .panic "component_type: assert!(prev.is_none())"
          else .ok (modifyWorld st id fun x => { x with imports := alInsert x.imports ne.1 import_ })
      | .err e => .err e
      | .panic p => .panic p
    | .err e => .err e
    | .panic p => .panic p := by
  rfl

theorem worldImportStep_ok {ent : St → Str → WEnt → Outcome (St × ItemKind)} {id : Nat}
    (hE : GoodC ρ (InvR w ρ oi (id :: ow) (c + 1)) (fun st (x : Str × WEnt) => ent st x.1 x.2)
      (fun st x k => RK w ρ oi (id :: ow) (c + 1) st x.2 k))
    {cur st' : St} {ne : Str × WEnt} (h : worldImportStep w ent id cur ne = .ok st') :
    FrameO [] [id] cur st' ∧
    (∀ ks xs, InvR w ρ oi (id :: ow) (c + 1) cur →
      (∃ wd, cur.types.worlds[id]? = some wd ∧ wd.imports = ks ∧ wd.exports = xs) → Cons ρ st' →
      ∃ k, InvR w ρ oi (id :: ow) (c + 1) st' ∧
        (∃ wd, st'.types.worlds[id]? = some wd ∧ wd.imports = ks ++ [(ne.1, k)] ∧ wd.exports = xs) ∧
        RK w ρ oi (id :: ow) (c + 1) st' ne.2 k) := by
  rw [worldImportStep_eq] at h
  split at h
  · rename_i st1 exp hent
    obtain ⟨f1, k1⟩ := hE cur ne st1 exp hent
    split at h
    · rename_i st2 haft
      have hm := afterWorld_mild haft
      split at h
      · cases h
      · rename_i wd2 hwd2
        split at h
        · cases h
        · rename_i hfresh
          cases h
          have hmod := Ext.ofModifyWorld st2 id (fun x => { x with imports := alInsert x.imports ne.1 exp })
          have hsz : Types.size (modifyWorld st2 id
              (fun x => { x with imports := alInsert x.imports ne.1 exp })).types = Types.size st2.types := by
            simp [modifyWorld, Types.size]
          have f12 : Frame cur st2 := f1.trans hm.frame
          refine ⟨f12.toO.trans ⟨hmod, by omega, fun _ _ hh => hh⟩, ?_⟩
          intro ks xs hP hwd hcons
          have hcons2 : Cons ρ st2 := Cons.backO (oi := []) (ow := [id]) ⟨hmod, by omega, fun _ _ hh => hh⟩ hcons
          have hcons1 : Cons ρ st1 := Cons.back hm.frame hcons2
          obtain ⟨p1, r1⟩ := k1 hP hcons1
          have p2 : InvR w ρ oi (id :: ow) (c + 1) st2 := p1.frame hm.frame (p1.1.mild hm)
          obtain ⟨wd, hwd, hks, hxs⟩ := hwd
          obtain ⟨wd2', hwd2', him2, hex2⟩ := f12.ext.worlds id wd (by simp) hwd
          rw [hwd2] at hwd2'; cases hwd2'
          have him : wd2.imports = ks := him2.trans hks
          have hins : alInsert wd2.imports ne.1 exp = ks ++ [(ne.1, exp)] := by
            rw [him]
            apply alInsert_fresh
            apply alGet_none_not_mem
            rw [← him]
            simpa using hfresh
          have hmod' : Ext oi (id :: ow) st2.types (modifyWorld st2 id
              (fun x => { x with imports := alInsert x.imports ne.1 exp })).types :=
            hmod.weaken (fun _ hi => by cases hi) (fun i hi => by simp at hi; simp [hi])
          refine ⟨exp, ⟨p2.1.stepO hmod' (by omega) rfl rfl, ?_, ?_⟩, ?_, ?_⟩
          · intro i hi
            have := p2.2.1 i hi
            simpa [modifyWorld] using this
          · intro i hi
            have := p2.2.2 i hi
            simpa [modifyWorld] using this
          · refine ⟨{ wd2 with imports := alInsert wd2.imports ne.1 exp }, ?_, hins, hex2.trans hxs⟩
            simp [modifyWorld, getElem?_modify', hwd2]
          · exact ((r1.mono hm.frame).monoO hmod' (by omega))
    · cases h
    · cases h
  · cases h
  · cases h

theorem worldExportStep_ok {ent : St → Str → WEnt → Outcome (St × ItemKind)} {id : Nat}
    (hE : GoodC ρ (InvR w ρ oi (id :: ow) (c + 1)) (fun st (x : Str × WEnt) => ent st x.1 x.2)
      (fun st x k => RK w ρ oi (id :: ow) (c + 1) st x.2 k))
    {cur st' : St} {ne : Str × WEnt} (h : worldExportStep ent id cur ne = .ok st') :
    FrameO [] [id] cur st' ∧
    (∀ ks xs, InvR w ρ oi (id :: ow) (c + 1) cur →
      (∃ wd, cur.types.worlds[id]? = some wd ∧ wd.imports = xs ∧ wd.exports = ks) → Cons ρ st' →
      ∃ k, InvR w ρ oi (id :: ow) (c + 1) st' ∧
        (∃ wd, st'.types.worlds[id]? = some wd ∧ wd.imports = xs ∧ wd.exports = ks ++ [(ne.1, k)]) ∧
        RK w ρ oi (id :: ow) (c + 1) st' ne.2 k) := by
  unfold worldExportStep at h
  split at h
  · rename_i st2 exp hent
    obtain ⟨f12, k1⟩ := hE cur ne st2 exp hent
    split at h
    · cases h
    · rename_i wd2 hwd2
      split at h
      · cases h
      · rename_i hfresh
        cases h
        have hmod := Ext.ofModifyWorld st2 id (fun x => { x with exports := alInsert x.exports ne.1 exp })
        have hsz : Types.size (modifyWorld st2 id
            (fun x => { x with exports := alInsert x.exports ne.1 exp })).types = Types.size st2.types := by
          simp [modifyWorld, Types.size]
        refine ⟨f12.toO.trans ⟨hmod, by omega, fun _ _ hh => hh⟩, ?_⟩
        intro ks xs hP hwd hcons
        have hcons2 : Cons ρ st2 := Cons.backO (oi := []) (ow := [id]) ⟨hmod, by omega, fun _ _ hh => hh⟩ hcons
        obtain ⟨p2, r1⟩ := k1 hP hcons2
        obtain ⟨wd, hwd, hxs, hks⟩ := hwd
        obtain ⟨wd2', hwd2', him2, hex2⟩ := f12.ext.worlds id wd (by simp) hwd
        rw [hwd2] at hwd2'; cases hwd2'
        have hex : wd2.exports = ks := hex2.trans hks
        have hins : alInsert wd2.exports ne.1 exp = ks ++ [(ne.1, exp)] := by
          rw [hex]
          apply alInsert_fresh
          apply alGet_none_not_mem
          rw [← hex]
          simpa using hfresh
        have hmod' : Ext oi (id :: ow) st2.types (modifyWorld st2 id
            (fun x => { x with exports := alInsert x.exports ne.1 exp })).types :=
          hmod.weaken (fun _ hi => by cases hi) (fun i hi => by simp at hi; simp [hi])
        refine ⟨exp, ⟨p2.1.stepO hmod' (by omega) rfl rfl, ?_, ?_⟩, ?_, ?_⟩
        · intro i hi
          have := p2.2.1 i hi
          simpa [modifyWorld] using this
        · intro i hi
          have := p2.2.2 i hi
          simpa [modifyWorld] using this
        · refine ⟨{ wd2 with exports := alInsert wd2.exports ne.1 exp }, ?_, him2.trans hxs, hins⟩
          simp [modifyWorld, getElem?_modify', hwd2]
        · exact (r1.monoO hmod' (by omega))
  · cases h
  · cases h

/-- a generic loop over steps that append one converted item to a list kept in the state -/
theorem stepLoop_ok {step : St → Str × WEnt → Outcome St} {oi' ow' oiF owF : List Nat} {c' : Nat}
    {Has : St → List (Str × ItemKind) → Prop}
    (hsub : (∀ i, i ∈ oiF → i ∈ oi') ∧ (∀ i, i ∈ owF → i ∈ ow'))
    (hstep : ∀ cur ne st', step cur ne = .ok st' →
      FrameO oiF owF cur st' ∧
      (∀ ks, InvR w ρ oi' ow' c' cur → Has cur ks → Cons ρ st' →
        ∃ k, InvR w ρ oi' ow' c' st' ∧ Has st' (ks ++ [(ne.1, k)]) ∧ RK w ρ oi' ow' c' st' ne.2 k)) :
    ∀ (es : List (Str × WEnt)) (cur st' : St), forM step cur es = .ok st' →
    FrameO oiF owF cur st' ∧
    (∀ done ks, InvR w ρ oi' ow' c' cur → Has cur ks →
      All2 (NK w ρ oi' ow' c' cur) done ks → Cons ρ st' →
      ∃ ks', InvR w ρ oi' ow' c' st' ∧ Has st' ks' ∧ All2 (NK w ρ oi' ow' c' st') (done ++ es) ks') := by
  intro es
  induction es with
  | nil =>
    intro cur st' h
    simp only [forM] at h
    cases h
    refine ⟨FrameO.refl _ _ _, ?_⟩
    intro done ks hP hitf hall _
    exact ⟨ks, hP, hitf, by simpa using hall⟩
  | cons ne es ih =>
    intro cur st' h
    simp only [forM] at h
    split at h
    · rename_i st1 hs
      obtain ⟨f1, k1⟩ := hstep _ _ _ hs
      obtain ⟨f2, k2⟩ := ih st1 st' h
      refine ⟨f1.trans f2, ?_⟩
      intro done ks hP hitf hall hcons
      obtain ⟨k, p1, hitf1, r1⟩ := k1 ks hP hitf (Cons.backO f2 hcons)
      have hw : Ext oi' ow' cur.types st1.types := f1.ext.weaken hsub.1 hsub.2
      have hall1 : All2 (NK w ρ oi' ow' c' st1) (done ++ [ne]) (ks ++ [(ne.1, k)]) :=
        All2.append (All2.imp (fun x y hxy => ⟨hxy.1, hxy.2.monoO hw f1.size⟩) hall) ⟨rfl, r1⟩
      obtain ⟨ks', p2, hitf2, hall2⟩ := k2 (done ++ [ne]) (ks ++ [(ne.1, k)]) p1 hitf1 hall1 hcons
      exact ⟨ks', p2, hitf2, by simpa using hall2⟩
    · cases h
    · cases h

end

end Wac.Decode
