import WacModel.Spec.Language
/-
  The reference evaluator consults the library only through `Lib.find` on the package keys that
  occur syntactically in the program (`new` expressions and package-path imports): two libraries
  that agree on those keys give the same evaluation.  (Used by C17: supplying any superset of the
  discovered packages cannot change the result — here for the statement sublanguage of C04.)
-/
namespace Wac.Lemmas.C04
open Wac.Lang Wac.Lang.Spec

mutual
/-- package keys mentioned by an expression -/
def exprReqs : Expr → List (Str × Option Str)
  | .ident _ => []
  | .new pkg ver args => (pkg, ver) :: argsReqs args
  | .nested e => exprReqs e
  | .access e _ => exprReqs e
  | .namedAccess e _ => exprReqs e
def argsReqs : Args → List (Str × Option Str)
  | .nil => []
  | .cons (.named _ e) r => exprReqs e ++ argsReqs r
  | .cons (.inferred _) r => argsReqs r
  | .cons (.spread _) r => argsReqs r
  | .cons .fill r => argsReqs r
end

def stmtReqs : Stmt → List (Str × Option Str)
  | .imp _ _ (.path pkg ver _) => [(pkg, ver)]
  | .imp _ _ (.func _) => []
  | .imp _ _ (.iface _) => []
  | .imp _ _ (.ident _) => []
  | .iface _ _ => []
  | .bind _ e => exprReqs e
  | .exp e _ => exprReqs e

/-- every package key a program mentions -/
def progReqs (p : Program) : List (Str × Option Str) := p.stmts.flatMap stmtReqs

/-- two libraries agree on a set of keys -/
def AgreeOn (lib lib' : Lib) (ks : List (Str × Option Str)) : Prop := ∀ k ∈ ks, lib.find k.1 k.2 = lib'.find k.1 k.2

theorem AgreeOn.left {lib lib' : Lib} {a b : List (Str × Option Str)} (h : AgreeOn lib lib' (a ++ b)) : AgreeOn lib lib' a :=
  fun k hk => h k (List.mem_append.mpr (Or.inl hk))
theorem AgreeOn.right {lib lib' : Lib} {a b : List (Str × Option Str)} (h : AgreeOn lib lib' (a ++ b)) : AgreeOn lib lib' b :=
  fun k hk => h k (List.mem_append.mpr (Or.inr hk))

mutual
theorem evalExpr_agree (lib lib' : Lib) (self : Str) : ∀ (e : Expr) (st : St), AgreeOn lib lib' (exprReqs e) →
    evalExpr lib self st e = evalExpr lib' self st e
  | .ident x, st, _ => by rw [evalExpr, evalExpr]
  | .nested e, st, h => by
    rw [evalExpr, evalExpr]
    exact evalExpr_agree lib lib' self e st (by rw [exprReqs] at h; exact h)
  | .access e id, st, h => by
    rw [evalExpr, evalExpr, evalExpr_agree lib lib' self e st (by rw [exprReqs] at h; exact h)]
  | .namedAccess e s, st, h => by
    rw [evalExpr, evalExpr, evalExpr_agree lib lib' self e st (by rw [exprReqs] at h; exact h)]
  | .new pkg ver args, st, h => by
    rw [exprReqs] at h
    have hfind : lib.find pkg ver = lib'.find pkg ver := h (pkg, ver) List.mem_cons_self
    have hargs : AgreeOn lib lib' (argsReqs args) := fun k hk => h k (List.mem_cons_of_mem _ hk)
    rw [evalExpr, evalExpr, hfind]
    by_cases hs : (pkg == self) = true
    · simp [hs]
    · simp only [hs, Bool.false_eq_true, ↓reduceIte]
      cases lib'.find pkg ver with
      | none => rfl
      | some p =>
        simp only
        rw [evalArgs_agree lib lib' self p.imports.names args st [] hargs]
theorem evalArgs_agree (lib lib' : Lib) (self : Str) (imports : List Str) : ∀ (args : Args) (st : St)
    (acc : List (Str × Val)), AgreeOn lib lib' (argsReqs args) →
    evalArgs lib self imports st acc args = evalArgs lib' self imports st acc args
  | .nil, st, acc, _ => by rw [evalArgs, evalArgs]
  | .cons .fill .nil, st, acc, _ => by rw [evalArgs, evalArgs]
  | .cons .fill (.cons a r), st, acc, _ => by rw [evalArgs, evalArgs]
  | .cons (.spread x) rest, st, acc, h => by
    rw [evalArgs, evalArgs]
    exact evalArgs_agree lib lib' self imports rest st acc (by rw [argsReqs] at h; exact h)
  | .cons (.inferred x) rest, st, acc, h => by
    rw [argsReqs] at h
    rw [evalArgs, evalArgs]
    cases lookup st x with
    | error e => rfl
    | ok v =>
      simp only
      by_cases hd : alHas (inferredArgName x v imports) acc = true
      · simp [hd]
      · simp only [hd, Bool.false_eq_true, ↓reduceIte]
        exact evalArgs_agree lib lib' self imports rest st _ h
  | .cons (.named nm e) rest, st, acc, h => by
    rw [argsReqs] at h
    rw [evalArgs, evalArgs, evalExpr_agree lib lib' self e st h.left]
    cases evalExpr lib' self st e with
    | error d => rfl
    | ok r =>
      obtain ⟨st', v⟩ := r
      simp only
      by_cases hd : alHas (namedArgName nm imports) acc = true
      · simp [hd]
      · simp only [hd, Bool.false_eq_true, ↓reduceIte]
        exact evalArgs_agree lib lib' self imports rest st' _ h.right
end

theorem evalStmt_agree (lib lib' : Lib) (self : Str) (st : St) (s : Stmt) (h : AgreeOn lib lib' (stmtReqs s)) :
    evalStmt lib self st s = evalStmt lib' self st s := by
  cases s with
  | imp id as ty =>
    rw [evalStmt, evalStmt]
    cases ty with
    | func sig => rfl
    | iface fs => rfl
    | ident x => rfl
    | path pkg ver segs =>
      have : lib.find pkg ver = lib'.find pkg ver := h (pkg, ver) (by simp [stmtReqs])
      simp only [importKind, pathKind, this]
  | iface id funcs => rw [evalStmt, evalStmt]
  | bind id e =>
    rw [evalStmt, evalStmt, evalExpr_agree lib lib' self e st h]
  | exp e opt =>
    cases opt with
    | none => rw [evalStmt, evalStmt, evalExpr_agree lib lib' self e st h]
    | as n => rw [evalStmt, evalStmt, evalExpr_agree lib lib' self e st h]
    | spread => rw [evalStmt, evalStmt, evalExpr_agree lib lib' self e st h]

theorem evalStmts_agree (lib lib' : Lib) (self : Str) : ∀ (stmts : List Stmt) (st : St),
    AgreeOn lib lib' (stmts.flatMap stmtReqs) → evalStmts lib self st stmts = evalStmts lib' self st stmts
  | [], st, _ => rfl
  | s :: rest, st, h => by
    rw [List.flatMap_cons] at h
    rw [evalStmts, evalStmts, evalStmt_agree lib lib' self st s h.left]
    cases evalStmt lib' self st s with
    | error e => rfl
    | ok st' => exact evalStmts_agree lib lib' self rest st' h.right

/-- libraries that agree on the package keys a program mentions give the same evaluation -/
theorem eval_agree (p : Program) (lib lib' : Lib) (h : AgreeOn lib lib' (progReqs p)) : eval p lib = eval p lib' := by
  unfold eval
  rw [evalStmts_agree lib lib' p.self p.stmts {} h]

end Wac.Lemmas.C04
