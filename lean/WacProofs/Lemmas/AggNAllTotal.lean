import WacProofs.Lemmas.AggNAll
import WacProofs.Lemmas.AggNMergeTotal
import WacProofs.Lemmas.AggMeetCompl
/-
  C09 general theorems, part 24: `aggregate` / `aggregateAll` on the NESTED fragment never panic
  and fail exactly when a class of semver-compatible requirement names has no common subtype
  (`fails_iff_incompatible` for nested instances), independently of the order.
-/
namespace Wac.AggP
open Wac Wac.Spec

/-- the requirements of `l` whose names are semver-compatible with `n` have a common subtype -/
def HasLB (l : List (Req × Forest)) (n : Str) : Prop :=
  ∃ X : Tree, X.namesDistinct = true ∧ ∀ q, q ∈ l → compat q.1.1 n = true → sub X (.instance q.2) = true

theorem compat_refl (a : Str) : compat a a = true := by simp [compat]

theorem compat_trans {a b c : Str} (h1 : compat a b = true) (h2 : compat b c = true) : compat a c = true := by
  by_cases hab : a = b
  · subst hab; exact h2
  · by_cases hbc : b = c
    · subst hbc; exact h1
    · obtain ⟨k, va, vb, hka, hkb⟩ := key_of_compat h1 hab
      obtain ⟨k', vb', vc, hkb', hkc⟩ := key_of_compat h2 hbc
      rw [hkb] at hkb'; cases hkb'
      exact compat_of_key hka hkc

theorem HasLB.mono {l l' : List (Req × Forest)} {n : Str} (h : HasLB l n) (hsub : ∀ q, q ∈ l' → q ∈ l) : HasLB l' n := by
  obtain ⟨X, hX, hall⟩ := h
  exact ⟨X, hX, fun q hq hc => hall q (hsub q hq) hc⟩

theorem HasLB.congr {l : List (Req × Forest)} {n n' : Str} (h : HasLB l n) (hc : compat n n' = true) : HasLB l n' := by
  obtain ⟨X, hX, hall⟩ := h
  exact ⟨X, hX, fun q hq hq' => hall q hq (compat_trans hq' (by rw [compat_comm]; exact hc))⟩

/-- **one `aggregate` call on the nested fragment is total**: `Ok`, or an error (never a panic),
and it is `Ok` exactly when the new requirement and the semver-compatible requirements seen so
far have a common subtype -/
theorem aggregate_ntotal {W : Colls} {seen : List (Req × Forest)} {s : AggState} (hG : GInvN W seen s)
    (hcfg : s.cfg.remapReplaced = true) {r : Req} {G : Forest} (hr : NestReq r G) (hW : W.mem r.2.1)
    (hfresh : ∀ p, p ∈ seen → p.1.2.1.uid ≠ r.2.1.uid) :
    ((∃ s', aggregate r.1 r.2.1 r.2.2 s = .ok ((), s')) ∨ (∃ m, aggregate r.1 r.2.1 r.2.2 s = .error (.err m))) ∧
    ((∃ s', aggregate r.1 r.2.1 r.2.2 s = .ok ((), s')) ↔ HasLB ((r, G) :: seen) r.1) := by
  obtain ⟨name, types, kind⟩ := r
  simp only at hr hW hfresh ⊢
  have hT := hG.tinv
  have hN := hG.ninv
  obtain ⟨i, d, hk, hsrc, hGs, hGt⟩ := hr.shape
  simp only at hk hsrc hGs hGt
  subst hk
  have hS : ∀ q : Req × Forest, q ∈ seen → q.1.1 ∈ seen.map (·.1.1) := fun q hq => List.mem_map.2 ⟨q, hq, rfl⟩
  have hGnd' : (Tree.instance G).namesDistinct = true := nd_instance hr.nd
  have hik : ∀ i0 i', alGet s.agg.remapped (GTy.mk' types (.interface i0)) = some (.interface i') →
      ¬ ImpIds s i' ∧ i' < s.agg.types.interfaces.length ∧
        ∀ t, HasTree types (.instance i0) t → HasTree s.agg.types (.instance i') t := by
    intro i0 i' hg
    obtain ⟨p, hp, hu⟩ := hT.keys (GTy.mk' types (.interface i0)) rfl (by rw [hg]; rfl)
    exact absurd (hu.trans (gty_uid_of_hasId _ _ rfl)) (hfresh p hp)
  have hish : ∀ i0 ty, alGet s.agg.remapped (GTy.mk' types (.interface i0)) = some ty → ∃ i', ty = .interface i' := by
    intro i0 ty hg
    obtain ⟨p, hp, hu⟩ := hT.keys (GTy.mk' types (.interface i0)) rfl (by rw [hg]; rfl)
    exact absurd (hu.trans (gty_uid_of_hasId _ _ rfl)) (hfresh p hp)
  have hNI : NI W types (ImpIds s) s := ⟨hT.ainv, hT.iwf, fun j hj => impIds_lt hT hj, hik, hish⟩
  obtain ⟨m', G', hfuel, hGG', hGrank⟩ := source_instance_rank (w := false) hGt
  cases hGG'
  -- merging into the import `en` of the class
  have mergeCase : ∀ (en : Str) (existing : ItemKind), amGet s.agg.imports en = some existing →
      (∀ q, q ∈ seen → (canon s.agg.redirects q.1.1 = en ↔ compat q.1.1 name = true)) →
      ((∃ s1, mergeKind existing types (.instance i) s = .ok ((), s1)) ∨
        (∃ m, mergeKind existing types (.instance i) s = .error (.err m))) ∧
      ((∃ s1, mergeKind existing types (.instance i) s = .ok ((), s1)) ↔
        HasLB (((name, types, ItemKind.instance i), G) :: seen) name) := by
    intro en existing hget hcls
    obtain ⟨F, hF⟩ := hT.imp en existing hget
    have hF' := hF
    obtain ⟨e, ti, hge, hti, ⟨m, hm⟩, hFnd⟩ := hF'
    rw [hget] at hge; cases hge
    rw [mergeKind_instance]
    have hNS : NState W types (ImpIds s) e s F :=
      ⟨hNI, hT.nested, ⟨en, hget⟩, ⟨ti, hti, m, hm⟩, hFnd⟩
    have hcov := hT.cov hF
    have hFnd' : (Tree.instance F).namesDistinct = true := nd_instance hFnd
    have hcl : (∃ M, meet (.instance F) (.instance G) = some M) ↔
        HasLB (((name, types, ItemKind.instance i), G) :: seen) name := by
      rw [meet_isSome_iff _ _ hcov hFnd' hGnd']
      constructor
      · rintro ⟨X, hX, hXF, hXG⟩
        refine ⟨X, hX, fun q hq hc => ?_⟩
        rcases List.mem_cons.1 hq with rfl | hq
        · exact hXG
        · obtain ⟨Fq, hFq, hsq⟩ := hT.sat q hq
          rw [(hcls q hq).2 hc] at hFq
          rw [hFq.det hF] at hsq
          exact sub_trans' X (.instance F) (.instance q.2) hX hFnd' (nd_instance (hT.reqs q hq).nd) hXF hsq
      · rintro ⟨X, hX, hall⟩
        refine ⟨X, hX, ?_, hall _ List.mem_cons_self (compat_refl name)⟩
        exact hT.glb en F hF X hX (fun p hp hpc => hall p (List.mem_cons_of_mem _ hp) ((hcls p hp).1 hpc))
    rcases mergeInterface_ntotal hW hr.sane (aggFuel s.agg types) (ImpIds s) e i m' s F G d hNS hcfg hsrc hGrank
        (by omega) hr.nd (by simp only [aggFuel]; omega) with ⟨s1, h1⟩ | ⟨msg, h1, hnone⟩
    · refine ⟨.inl ⟨s1, h1⟩, ⟨(fun _ => hcl.1 ?_), (fun _ => ⟨s1, h1⟩)⟩⟩
      obtain ⟨R, _, _, hmeet⟩ := mergeInterface_nest hW hr.sane _ (ImpIds s) e i s s1 F G d hNS hsrc hGs hr.nd h1
      exact ⟨_, hmeet⟩
    · refine ⟨.inr ⟨msg, h1⟩, ⟨(fun ⟨s1, h2⟩ => by rw [h1] at h2; cases h2), (fun h => ?_)⟩⟩
      obtain ⟨M, hM⟩ := hcl.2 h
      simp [meet, hnone] at hM
  cases hg : amGet s.agg.imports name with
  | some existing =>
    have hin : (amGet s.agg.imports name).isSome = true := by rw [hg]; rfl
    have hname : name ∈ seen.map (·.1.1) := hN.from_ name hin
    rw [aggregate_exact hg]
    exact mergeCase name existing hg (fun q hq => by
      have h1 := hN.canon_eq_iff (hS q hq) hname
      rw [hN.canon_self hin] at h1; exact h1)
  | none =>
    cases hf : findSemver s.agg.imports name with
    | none =>
      rw [aggregate_fresh hg hf]
      -- no requirement of the class has been seen
      have hunseen : name ∉ seen.map (·.1.1) := by
        intro hs'
        rcases hN.seen name hs' with h1 | h1
        · rw [hg] at h1; cases h1
        · obtain ⟨b, hb⟩ := Option.isSome_iff_exists.1 h1
          obtain ⟨_, hbi, k0, va, vb, hka, hkb, _⟩ := hN.red name b hb
          obtain ⟨x, hx⟩ := Option.isSome_iff_exists.1 hbi
          exact findSemver_none hf hka (b, x) (amGet_mem _ _ _ hx) vb hkb
      have hnoclass : ∀ q, q ∈ seen → compat q.1.1 name = true → False := by
        intro q hq hc
        by_cases hne : q.1.1 = name
        · exact hunseen (by rw [← hne]; exact hS q hq)
        · obtain ⟨k0, vq, vn, hkq, hkn⟩ := key_of_compat hc hne
          obtain ⟨vh, hkc, _⟩ := hN.canon_key (n := q.1.1) hkq
          obtain ⟨x, hx⟩ := Option.isSome_iff_exists.1 (hN.canon_imported (hS q hq))
          exact findSemver_none hf hkn (_, x) (amGet_mem _ _ _ hx) vh hkc
      obtain ⟨k', s1, h1, _, _⟩ := (remapNest_total hW hr.sane types.fuel).1 (aggFuel s.agg types) d (.instance i)
        (.instance G) s ⟨hNI, hcfg⟩ (.inr ⟨false, i, rfl, hsrc⟩) hGt (by simp only [aggFuel]; omega)
      obtain ⟨_, hst, _⟩ := (remapNest_spec hW hr.sane (aggFuel s.agg types)).2 d (.instance i) s k' s1 hNI
        (.inr ⟨false, i, rfl, hsrc⟩) h1
      have hok : ∃ s', (remapKind (aggFuel s.agg types) types (.instance i) >>= freshTail name) s = .ok ((), s') := by
        simp only [run_bind, h1, freshTail, run_getAgg, hst.imports, hg, Option.isSome_none, Bool.false_eq_true,
          ↓reduceIte, run_modifyAgg]
        exact ⟨_, rfl⟩
      refine ⟨.inl hok, ⟨fun _ => ⟨.instance G, hGnd', fun q hq hc => ?_⟩, fun _ => hok⟩⟩
      rcases List.mem_cons.1 hq with rfl | hq
      · exact sub_refl _ hGnd'
      · exact (hnoclass q hq hc).elim
    | some p =>
      obtain ⟨exName, exKind⟩ := p
      rw [aggregate_semver hg hf]
      obtain ⟨hmem, k, vn, vex, hkn, hke⟩ := findSemver_some hf
      have hex : amGet s.agg.imports exName = some exKind := amGet_of_mem_nodup _ _ _ hN.nodup hmem
      have hexs : (amGet s.agg.imports exName).isSome = true := by rw [hex]; rfl
      have hexseen : exName ∈ seen.map (·.1.1) := hN.from_ exName hexs
      have hcls : ∀ q, q ∈ seen → (canon s.agg.redirects q.1.1 = exName ↔ compat q.1.1 name = true) := by
        intro q hq
        have h0 := hN.canon_eq_iff (hS q hq) hexseen
        rw [hN.canon_self hexs] at h0
        rw [h0]
        constructor
        · intro hc
          by_cases hne : q.1.1 = exName
          · rw [hne]; exact compat_of_key hke hkn
          · obtain ⟨k0, vq, ve, hkq, hke'⟩ := key_of_compat hc hne
            rw [hke] at hke'; cases hke'
            exact compat_of_key hkq hkn
        · intro hc
          by_cases hne : q.1.1 = name
          · rw [hne]; exact compat_of_key hkn hke
          · obtain ⟨k0, vq, vn', hkq, hkn'⟩ := key_of_compat hc hne
            rw [hkn] at hkn'; cases hkn'
            exact compat_of_key hkq hke
      obtain ⟨hdisj, hiff⟩ := mergeCase exName exKind hex hcls
      -- the name update after a successful merge cannot fail
      have after : ∀ s1, ∃ s', nameUpdate name exName s1 = .ok ((), s') := by
        intro s1
        simp only [nameUpdate, hkn, hke]
        split
        · exact ⟨_, rfl⟩
        · exact ⟨_, rfl⟩
      constructor
      · rcases hdisj with ⟨s1, h1⟩ | ⟨m, h1⟩
        · left
          obtain ⟨s', hs'⟩ := after s1
          exact ⟨s', by simp only [run_bind, h1, hs']⟩
        · right
          exact ⟨m, by simp only [run_bind, h1]⟩
      · constructor
        · rintro ⟨s', hs'⟩
          apply hiff.1
          cases hmk : mergeKind exKind types (.instance i) s with
          | ok us => obtain ⟨u, s1⟩ := us; exact ⟨s1, by cases u; rfl⟩
          | error e => simp only [run_bind, hmk] at hs'; cases hs'
        · intro hall
          obtain ⟨s1, h1⟩ := hiff.2 hall
          obtain ⟨s', hs'⟩ := after s1
          exact ⟨s', by simp only [run_bind, h1, hs']⟩

/-! ### the whole list -/

/-- every requirement has a common subtype with the semver-compatible requirements before it -/
def LBFrom : List (Req × Forest) → List (Req × Forest) → Prop
  | _, [] => True
  | seen, p :: cs => HasLB (p :: seen) p.1.1 ∧ LBFrom (p :: seen) cs

/-- **`aggregateAll` on the nested fragment is total** and succeeds exactly when every requirement
has a common subtype with the semver-compatible requirements before it -/
theorem aggregateAll_ntotal {W : Colls} : ∀ (cs : List (Req × Forest)) (seen : List (Req × Forest)) (s : AggState),
    GInvN W seen s → s.cfg.remapReplaced = true → (∀ p, p ∈ cs → NestReq p.1 p.2 ∧ W.mem p.1.2.1) →
    (∀ p, p ∈ cs → ∀ q, q ∈ seen → q.1.2.1.uid ≠ p.1.2.1.uid) →
    cs.Pairwise (fun a b => a.1.2.1.uid ≠ b.1.2.1.uid) →
    ((∃ s', aggregateAll (cs.map (·.1)) s = .ok s') ↔ LBFrom seen cs) ∧
      (∀ e, aggregateAll (cs.map (·.1)) s = .error e → ∃ m, e = .err m)
  | [], seen, s, _, _, _, _, _ => by
    simp only [List.map_nil, aggregateAll, LBFrom, iff_true, reduceCtorEq, false_implies, implies_true, and_true]
    exact ⟨s, rfl⟩
  | p :: cs, seen, s, hG, hcfg, hfl, hfr, hpw => by
    rw [List.map_cons, aggregateAll_cons]
    rw [List.pairwise_cons] at hpw
    obtain ⟨hp1, hp2⟩ := hfl p List.mem_cons_self
    obtain ⟨hdisj, hiff⟩ := aggregate_ntotal hG hcfg hp1 hp2 (fun q hq => hfr p List.mem_cons_self q hq)
    cases ha : aggregate p.1.1 p.1.2.1 p.1.2.2 s with
    | error e =>
      simp only [LBFrom]
      refine ⟨⟨(fun ⟨s', h⟩ => by cases h), (fun hc => ?_)⟩, fun e' he' => ?_⟩
      · obtain ⟨s', hs'⟩ := hiff.2 hc.1
        rw [ha] at hs'; cases hs'
      · cases he'
        rcases hdisj with ⟨s', hs'⟩ | ⟨m, hm⟩
        · rw [ha] at hs'; cases hs'
        · rw [ha] at hm; cases hm; exact ⟨m, rfl⟩
    | ok us =>
      obtain ⟨u, s1⟩ := us
      have hau : aggregate p.1.1 p.1.2.1 p.1.2.2 s = .ok ((), s1) := by cases u; exact ha
      obtain ⟨hG1, hcf⟩ := ginvN_step hG hp1 hp2 (fun q hq => hfr p List.mem_cons_self q hq) hau
      have ih := aggregateAll_ntotal cs ((p.1, p.2) :: seen) s1 hG1 (by rw [hcf]; exact hcfg)
        (fun q hq => hfl q (List.mem_cons_of_mem _ hq))
        (by
          intro q hq q' hq'
          rcases List.mem_cons.1 hq' with rfl | hq'
          · exact hpw.1 q hq
          · exact hfr q (List.mem_cons_of_mem _ hq) q' hq')
        hpw.2
      simp only [LBFrom]
      refine ⟨⟨(fun h => ⟨hiff.1 ⟨s1, hau⟩, ih.1.1 h⟩), (fun hc => ih.1.2 hc.2)⟩, ih.2⟩

/-- the order-independent reading: every class of semver-compatible requirement names has a
common subtype -/
def AllLB (l : List (Req × Forest)) : Prop := ∀ q, q ∈ l → HasLB l q.1.1

theorem AllLB.perm {l l' : List (Req × Forest)} (h : AllLB l) (hp : ∀ q, q ∈ l ↔ q ∈ l') : AllLB l' :=
  fun q hq => (h q ((hp q).2 hq)).mono (fun q' hq' => (hp q').2 hq')

theorem allLB_cons {seen : List (Req × Forest)} {p : Req × Forest} (h : AllLB seen) (hp : HasLB (p :: seen) p.1.1) :
    AllLB (p :: seen) := by
  intro q hq
  by_cases hc : compat q.1.1 p.1.1 = true
  · exact hp.congr (by rw [compat_comm]; exact hc)
  · rcases List.mem_cons.1 hq with rfl | hq
    · exact absurd (compat_refl _) hc
    · obtain ⟨X, hX, hall⟩ := h q hq
      refine ⟨X, hX, fun q' hq' hc' => ?_⟩
      rcases List.mem_cons.1 hq' with rfl | hq'
      · exact absurd (by rw [compat_comm]; exact hc') hc
      · exact hall q' hq' hc'

theorem lbFrom_iff : ∀ (cs seen : List (Req × Forest)), AllLB seen → (LBFrom seen cs ↔ AllLB (cs.reverse ++ seen))
  | [], seen, h => by simp [LBFrom, h]
  | p :: cs, seen, h => by
    simp only [LBFrom, List.reverse_cons, List.append_assoc, List.singleton_append]
    constructor
    · rintro ⟨h1, h2⟩
      exact (lbFrom_iff cs (p :: seen) (allLB_cons h h1)).1 h2
    · intro hall
      have h1 : HasLB (p :: seen) p.1.1 :=
        (hall p (by simp)).mono (fun q hq => by
          rcases List.mem_cons.1 hq with rfl | hq
          · simp
          · simp [hq])
      exact ⟨h1, (lbFrom_iff cs (p :: seen) (allLB_cons h h1)).2 hall⟩

theorem lbFrom_nil_iff (cs : List (Req × Forest)) : LBFrom [] cs ↔ AllLB cs := by
  rw [lbFrom_iff cs [] (fun q hq => by cases hq)]
  simp only [List.append_nil]
  exact ⟨fun h => h.perm (fun q => by simp), fun h => h.perm (fun q => by simp)⟩

/-! ### a run over a list extended by copies of requirements it already has -/

/-- two runs, the second over the requirements of the first and, in addition, requirements whose
forest equals that of a semver-compatible requirement of the first: equivalent imports -/
theorem ginvN_equiv_ext {W W' : Colls} {seen seen' : List (Req × Forest)} {A A' : AggState}
    (hG : GInvN W seen A) (hG' : GInvN W' seen' A') (hsub : ∀ p, p ∈ seen → p ∈ seen')
    (hcopy : ∀ p', p' ∈ seen' → ∃ p, p ∈ seen ∧ compat p.1.1 p'.1.1 = true ∧ p.2 = p'.2)
    {q : Req × Forest} (hq : q ∈ seen) {F F' : Forest}
    (hF : ImpN A (canon A.agg.redirects q.1.1) F) (hF' : ImpN A' (canon A'.agg.redirects q.1.1) F') :
    sub (.instance F) (.instance F') = true ∧ sub (.instance F') (.instance F) = true := by
  have hS : ∀ p : Req × Forest, p ∈ seen → p.1.1 ∈ seen.map (·.1.1) := fun p hp => List.mem_map.2 ⟨p, hp, rfl⟩
  have hS' : ∀ p : Req × Forest, p ∈ seen' → p.1.1 ∈ seen'.map (·.1.1) := fun p hp => List.mem_map.2 ⟨p, hp, rfl⟩
  have hq' := hsub q hq
  have hFnd : F.namesDistinct = true := by obtain ⟨_, _, _, _, _, h⟩ := hF; exact h
  have hF'nd : F'.namesDistinct = true := by obtain ⟨_, _, _, _, _, h⟩ := hF'; exact h
  have cls : ∀ p, p ∈ seen → (canon A.agg.redirects p.1.1 = canon A.agg.redirects q.1.1 ↔
      canon A'.agg.redirects p.1.1 = canon A'.agg.redirects q.1.1) := by
    intro p hp
    rw [hG.ninv.canon_eq_iff (hS p hp) (hS q hq), hG'.ninv.canon_eq_iff (hS' p (hsub p hp)) (hS' q hq')]
  constructor
  · refine hG'.tinv.glb _ F' hF' _ (nd_instance hFnd) ?_
    intro p' hp' hcl
    obtain ⟨p, hp, hc, hpe⟩ := hcopy p' hp'
    have hcl' : canon A'.agg.redirects p.1.1 = canon A'.agg.redirects q.1.1 := by
      rw [← hcl]
      exact (hG'.ninv.canon_eq_iff (hS' p (hsub p hp)) (hS' p' hp')).2 hc
    obtain ⟨Fp, hFp, hsp⟩ := hG.tinv.sat p hp
    rw [(cls p hp).2 hcl'] at hFp
    rw [hFp.det hF, hpe] at hsp
    exact hsp
  · refine hG.tinv.glb _ F hF _ (nd_instance hF'nd) ?_
    intro p hp hcl
    obtain ⟨Fp, hFp, hsp⟩ := hG'.tinv.sat p (hsub p hp)
    rw [(cls p hp).1 hcl] at hFp
    rw [hFp.det hF'] at hsp
    exact hsp

theorem aggregateAll_snoc (cs : List Req) (r : Req) (s : AggState) :
    aggregateAll (cs ++ [r]) s = match aggregateAll cs s with
      | .ok s1 => (match aggregate r.1 r.2.1 r.2.2 s1 with
        | .ok (_, s') => .ok s'
        | .error e => .error e)
      | .error e => .error e := by
  induction cs generalizing s with
  | nil =>
    obtain ⟨n, t, k⟩ := r
    simp only [List.nil_append, aggregateAll]
    cases aggregate n t k s with
    | ok p => rfl
    | error e => rfl
  | cons c cs ih =>
    rw [List.cons_append, aggregateAll_cons, aggregateAll_cons]
    cases aggregate c.1 c.2.1 c.2.2 s with
    | ok p => exact ih p.2
    | error e => rfl

end Wac.AggP
