import WacProofs.Lemmas.DecodeVal
/-
  C08 `decode_tree`, part 5: `component_func_type`, `module_type`, `resource`.
-/
namespace Wac.Decode
open Wac Wac.Spec.Decode

variable {w : WTypes} {ρ : Nat → Res} {oi ow : List Nat} {c : Nat}

theorem RF_stable : Stable (RF w ρ oi ow c) := fun _ _ _ _ hf h => h.mono hf

theorem funcType_good (hn : NamesOk w) (fuel : Nat) :
    Good (Inv w ρ oi ow c) (funcType w fuel) (RF w ρ oi ow c) := by
  have ihv := valType_good (ρ := ρ) (oi := oi) (ow := ow) (c := c) hn fuel
  intro st f st' id h
  unfold funcType at h
  split at h
  · rename_i id0 hl
    cases h
    exact ⟨Frame.refl _, fun hP => ⟨hP, hP.func f _ hl⟩⟩
  · cases h
  · split at h
    · cases h
    · rename_i ft hft
      have hnd0 := hn.2 ft (List.mem_of_getElem? hft)
      split at h
      · rename_i st1 ps hps
        obtain ⟨f1, k1⟩ := loopM_good (namedM_good ihv) (Stable.named RV_stable) _ _ _ _ hps
        split at h
        · rename_i st2 r hr
          obtain ⟨f2, k2⟩ := optM_good ihv _ _ _ _ hr
          have hnd : (ps.map (·.1)).Nodup := by rw [loopM_named_fst hps]; exact hnd0
          rw [collectMap_nodup _ hnd] at h
          simp only at h
          cases h
          let ft' : FuncType := { params := ps, result := r, isAsync := ft.isAsync }
          have hfr : Frame st2 (Decode.addFunc st2 ft').1 := Frame.ofAddFunc st2 ft'
          refine ⟨(f1.trans f2).trans ⟨hfr.ext, hfr.size, hfr.rmap⟩, fun hP => ?_⟩
          obtain ⟨p1, r1⟩ := k1 hP
          obtain ⟨p2, r2⟩ := k2 p1
          have r1' := All2.imp (fun x y hxy => Stable.named RV_stable _ _ x y f2 hxy) r1
          have hinv1 : Inv w ρ oi ow c (Decode.addFunc st2 ft').1 := p2.step hfr rfl rfl
          have hrf : RF w ρ oi ow c (Decode.addFunc st2 ft').1 f st2.types.funcs.length := by
            intro g t ht T' F he hF
            have hb : bnd c (Decode.addFunc st2 ft').1 = bnd c st2 + 1 := by
              have := p2.hc
              have hs : Types.size (Decode.addFunc st2 ft').1.types = Types.size st2.types + 1 := by
                simp [Decode.addFunc, Types.size]; omega
              unfold bnd; omega
            rw [hb] at hF
            have hd : T'.funcs[st2.types.funcs.length]? = some ft' :=
              he.funcs _ _ (by simp [Decode.addFunc])
            simp only [funcTree, hft] at ht
            split at ht
            · rename_i tps tr htps htr
              cases ht
              have he2 := hfr.ext.of_nil.trans he
              simp only [Types.unfoldFunc, hd, ft',
                namedTrees_fact r1' g tps htps T' F he2 (by omega),
                optTree_fact r2 g tr htr T' F he2 (by omega)]
              rfl
            · cases ht
          exact ⟨hinv1.insertFunc f _ hrf, hrf⟩
        · cases h
        · cases h
      · cases h
      · cases h

end Wac.Decode
