import WacProofs.Lemmas.GraphAbsBasic
import WacProofs.Lemmas.GraphRank
/-
  C06 refinement: the closure computed by `Abs.reach` (`cap` rounds of `Abs.grow`) is the least
  set that contains the node and is closed under "aliased from / built from"; algebra of
  `Abs.removeSet`.
-/
namespace Wac.Graph
open Wac Wac.HashSites

/-- `R` is the least set containing `n` and closed under `a.succ` -/
structure IsClosure (a : Abs) (n : Nat) (R : Nat → Bool) : Prop where
  base : R n = true
  closed : ∀ m t, R m = true → a.succ m t = true → R t = true
  least : ∀ P : Nat → Prop, P n → (∀ m t, P m → a.succ m t = true → P t) → ∀ t, R t = true → P t

/-- `U` is closed under `a.succ` -/
def Closed (a : Abs) (U : Nat → Bool) : Prop := ∀ m t, U m = true → a.succ m t = true → U t = true

section
variable (a : Abs) (n : Nat)

/-- membership in the `k`-th round -/
def inRound (k t : Nat) : Bool := (a.growN n k).contains t

theorem inRound_zero (t : Nat) : inRound a n 0 t = true ↔ t = n := by
  unfold inRound Abs.growN
  simp

theorem inRound_succ_raw (k t : Nat) : inRound a n (k + 1) t = true ↔
    t < a.cap ∧ (inRound a n k t = true ∨ ∃ m, inRound a n k m = true ∧ a.succ m t = true) := by
  unfold inRound
  show (a.grow (a.growN n k)).contains t = true ↔ _
  unfold Abs.grow
  simp only [List.contains_eq_mem, List.mem_filter, List.mem_range, Bool.or_eq_true, decide_eq_true_eq,
    List.any_eq_true]

variable (hn : n < a.cap) (hb : ∀ m t, a.succ m t = true → t < a.cap)
include hn hb

theorem inRound_lt : ∀ (k t : Nat), inRound a n k t = true → t < a.cap
  | 0, t, h => by rw [(inRound_zero a n t).mp h]; exact hn
  | k + 1, t, h => ((inRound_succ_raw a n k t).mp h).1

theorem inRound_succ (k t : Nat) : inRound a n (k + 1) t = true ↔
    (inRound a n k t = true ∨ ∃ m, inRound a n k m = true ∧ a.succ m t = true) := by
  rw [inRound_succ_raw]
  constructor
  · exact fun h => h.2
  · intro h
    refine ⟨?_, h⟩
    rcases h with h | ⟨m, _, hs⟩
    · exact inRound_lt a n hn hb k t h
    · exact hb m t hs

theorem inRound_mono (k t : Nat) (h : inRound a n k t = true) : inRound a n (k + 1) t = true :=
  (inRound_succ a n hn hb k t).mpr (Or.inl h)

theorem inRound_base : ∀ k, inRound a n k n = true
  | 0 => (inRound_zero a n n).mpr rfl
  | k + 1 => inRound_mono a n hn hb k n (inRound_base k)

/-- round `k` added nothing -/
def StableAt (k : Nat) : Prop := ∀ t, inRound a n (k + 1) t = true → inRound a n k t = true

theorem stable_succ (k : Nat) (h : StableAt a n k) : StableAt a n (k + 1) := by
  intro t ht
  rcases (inRound_succ a n hn hb (k + 1) t).mp ht with h1 | ⟨m, hm, hs⟩
  · exact h1
  · exact (inRound_succ a n hn hb k t).mpr (Or.inr ⟨m, h m hm, hs⟩)

/-- the number of nodes in round `k` -/
def roundCount (k : Nat) : Nat := (List.range a.cap).countP (inRound a n k)

theorem roundCount_le (k : Nat) : roundCount a n k ≤ a.cap := by
  unfold roundCount
  have := List.countP_le_length (p := inRound a n k) (l := List.range a.cap)
  simpa using this

theorem roundCount_lt (k : Nat) (h : ¬ StableAt a n k) : roundCount a n k < roundCount a n (k + 1) := by
  unfold StableAt at h
  have : ∃ t, inRound a n (k + 1) t = true ∧ inRound a n k t = false := by
    apply Classical.byContradiction
    intro hc
    apply h
    intro t ht
    cases hq : inRound a n k t with
    | true => rfl
    | false => exact absurd ⟨t, ht, hq⟩ hc
  obtain ⟨t, h1, h2⟩ := this
  unfold roundCount
  apply countP_lt_of
  · intro x _ hx; exact inRound_mono a n hn hb k x hx
  · exact ⟨t, List.mem_range.mpr (inRound_lt a n hn hb _ t h1), h1, h2⟩

theorem stable_or_count : ∀ k, StableAt a n k ∨ k + 1 ≤ roundCount a n k
  | 0 => by
    right
    unfold roundCount
    have : 0 < (List.range a.cap).countP (inRound a n 0) :=
      List.countP_pos_iff.mpr ⟨n, List.mem_range.mpr hn, (inRound_zero a n n).mpr rfl⟩
    omega
  | k + 1 => by
    rcases stable_or_count k with h | h
    · exact Or.inl (stable_succ a n hn hb k h)
    · by_cases hs : StableAt a n k
      · exact Or.inl (stable_succ a n hn hb k hs)
      · right
        have := roundCount_lt a n hn hb k hs
        omega

theorem stable_cap : StableAt a n a.cap := by
  rcases stable_or_count a n hn hb a.cap with h | h
  · exact h
  · have := roundCount_le a n hn hb a.cap
    omega

theorem reach_iff (t : Nat) : a.reach n t = true ↔ inRound a n a.cap t = true := by
  unfold Abs.reach
  show (t == n || inRound a n a.cap t) = true ↔ _
  constructor
  · intro h
    rcases Bool.or_eq_true _ _ ▸ h with h | h
    · have : t = n := by simpa using h
      rw [this]; exact inRound_base a n hn hb _
    · exact h
  · intro h; simp [h]

/-- `Abs.reach` computes the closure -/
theorem reach_closure : IsClosure a n (a.reach n) := by
  refine ⟨by simp [Abs.reach], ?_, ?_⟩
  · intro m t hm hs
    rw [reach_iff a n hn hb] at hm ⊢
    exact stable_cap a n hn hb t ((inRound_succ a n hn hb _ t).mpr (Or.inr ⟨m, hm, hs⟩))
  · intro P h0 hstep t ht
    rw [reach_iff a n hn hb] at ht
    have key : ∀ k t, inRound a n k t = true → P t := by
      intro k
      induction k with
      | zero => intro t ht; rw [(inRound_zero a n t).mp ht]; exact h0
      | succ k ih =>
        intro t ht
        rcases (inRound_succ a n hn hb k t).mp ht with h1 | ⟨m, hm, hs⟩
        · exact ih t h1
        · exact hstep m t (ih m hm) hs
    exact key _ t ht

end

/-! ### closures under removal -/

theorem removeSet_cap (a : Abs) (S : Nat → Bool) : (a.removeSet S).cap = a.cap := rfl

theorem removeSet_succ (a : Abs) (S : Nat → Bool) (m t : Nat) :
    (a.removeSet S).succ m t = (a.succ m t && !S m && !S t) := by
  unfold Abs.succ Abs.removeSet
  simp only
  cases hst : S t with
  | true => simp
  | false =>
    simp only [Bool.false_eq_true, ↓reduceIte, Bool.not_false, Bool.and_true]
    cases hal : a.aliasOf t with
    | none => simp
    | some p =>
      obtain ⟨s, j⟩ := p
      simp only [Option.filter_some]
      cases hss : S s with
      | true =>
        simp only [Bool.not_true, Bool.false_eq_true, ↓reduceIte, Bool.or_false]
        cases hsm : (s == m) with
        | false => simp
        | true =>
          have : s = m := by simpa using hsm
          rw [← this, hss]; simp
      | false =>
        simp only [Bool.not_false, ↓reduceIte]
        cases hsm : (s == m) with
        | false => simp
        | true =>
          have : s = m := by simpa using hsm
          rw [← this, hss]; simp

theorem removeSet_removeSet (a : Abs) (S S' : Nat → Bool) :
    (a.removeSet S).removeSet S' = a.removeSet (fun m => S m || S' m) := by
  unfold Abs.removeSet
  refine Abs.ext' rfl ?_ ?_ ?_ ?_ ?_ ?_ ?_ rfl rfl
  · funext m
    simp only
    by_cases h1 : S m = true <;> by_cases h2 : S' m = true <;> simp [h1, h2]
  · funext i k
    simp only
    cases h1 : S i <;> cases h2 : S' i <;> cases a.arg i k with
    | none => simp
    | some s => cases hs : S s <;> cases hs' : S' s <;> simp [hs, hs']
  · funext t
    simp only
    cases h1 : S t <;> cases h2 : S' t <;> cases a.aliasOf t with
    | none => simp
    | some p => cases hs : S p.1 <;> cases hs' : S' p.1 <;> simp [hs, hs']
  · funext x y
    simp only
    cases a.dep x y <;> cases h1 : S x <;> cases h2 : S y <;> cases h3 : S' x <;> cases h4 : S' y <;> rfl
  · funext nm
    simp only
    cases a.exports nm with
    | none => simp
    | some s => cases hs : S s <;> cases hs' : S' s <;> simp [hs, hs']
  · funext nm
    simp only
    cases a.imports nm with
    | none => simp
    | some s => cases hs : S s <;> cases hs' : S' s <;> simp [hs, hs']
  · funext nm
    simp only
    cases a.defined nm with
    | none => simp
    | some s => cases hs : S s <;> cases hs' : S' s <;> simp [hs, hs']

theorem removeSet_congr (a : Abs) {S S' : Nat → Bool} (h : ∀ m, S m = S' m) : a.removeSet S = a.removeSet S' := by
  have : S = S' := funext h
  rw [this]

/-- Lemma A: the closure of `n` is `n` together with the closures of its direct dependants -/
theorem closure_unfold {a : Abs} {n : Nat} {R : Nat → Bool} {ts : List Nat} {Rt : Nat → Nat → Bool}
    (hR : IsClosure a n R) (hts : ∀ t, t ∈ ts ↔ a.succ n t = true) (hRt : ∀ t ∈ ts, IsClosure a t (Rt t)) (x : Nat) :
    R x = (x == n || ts.any (fun t => Rt t x)) := by
  apply bool_ext_iff
  simp only [Bool.or_eq_true, beq_iff_eq, List.any_eq_true]
  constructor
  · intro hx
    refine hR.least (fun x => x = n ∨ ∃ t ∈ ts, Rt t x = true) (Or.inl rfl) ?_ x hx
    rintro m y (rfl | ⟨t, ht, hm⟩) hs
    · exact Or.inr ⟨y, (hts y).mpr hs, (hRt y ((hts y).mpr hs)).base⟩
    · exact Or.inr ⟨t, ht, (hRt t ht).closed m y hm hs⟩
  · rintro (rfl | ⟨t, ht, hx⟩)
    · exact hR.base
    · have hRt' : R t = true := hR.closed n t hR.base ((hts t).mp ht)
      exact (hRt t ht).least (fun x => R x = true) hRt' (fun m y hm hs => hR.closed m y hm hs) x hx

/-- Lemma B: removing the closure computed in a graph from which a closed set `U` is already
    gone removes, together with `U`, the closure computed in the original graph -/
theorem closure_after_removal {a : Abs} {U : Nat → Bool} {t : Nat} {R R' : Nat → Bool}
    (hU : Closed a U) (hR : IsClosure a t R) (hR' : IsClosure (a.removeSet U) t R') (x : Nat) :
    (U x || R' x) = (U x || R x) := by
  apply bool_ext_iff
  simp only [Bool.or_eq_true]
  constructor
  · rintro (h | h)
    · exact Or.inl h
    · right
      refine hR'.least (fun x => R x = true) hR.base ?_ x h
      intro m y hm hs
      rw [removeSet_succ] at hs
      simp only [Bool.and_eq_true] at hs
      exact hR.closed m y hm hs.1.1
  · rintro (h | h)
    · exact Or.inl h
    · refine hR.least (fun x => U x = true ∨ R' x = true) (Or.inr hR'.base) ?_ x h
      rintro m y (hm | hm) hs
      · exact Or.inl (hU m y hm hs)
      · cases hUm : U m with
        | true => exact Or.inl (hU m y hUm hs)
        | false =>
          cases hUy : U y with
          | true => exact Or.inl rfl
          | false =>
            right
            apply hR'.closed m y hm
            rw [removeSet_succ, hs, hUm, hUy]; rfl

/-- a union of closures is closed -/
theorem closed_any {a : Abs} {ts : List Nat} {Rt : Nat → Nat → Bool} (h : ∀ t ∈ ts, IsClosure a t (Rt t)) :
    Closed a (fun x => ts.any (fun t => Rt t x)) := by
  intro m y hm hs
  simp only [List.any_eq_true] at hm ⊢
  obtain ⟨t, ht, hm⟩ := hm
  exact ⟨t, ht, (h t ht).closed m y hm hs⟩

end Wac.Graph
