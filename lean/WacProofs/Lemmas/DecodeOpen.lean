import WacProofs.Lemmas.DecodeRes
/-
  C08 `decode_tree`, part 7: opening and closing an interface / a world.  While the exports of
  interface `id` are converted, `id` is in the open list: facts established in that period tolerate
  any change of `id`'s export list; when `id` is closed the facts are kept (a weaker adversary).
-/
namespace Wac.Decode
open Wac Wac.Spec.Decode

/-! ### extension across an interface / world that did not exist yet -/

theorem Ext.skipI {oi ow : List Nat} {T T0 T1 : Types} {id : Nat} (h0 : Ext oi ow T T0)
    (h1 : Ext (id :: oi) ow T0 T1) (hlen : T.interfaces.length ≤ id) : Ext oi ow T T1 := by
  refine ⟨h1.uid.trans h0.uid, fun i x h => h1.defined i x (h0.defined i x h),
    fun i x h => h1.funcs i x (h0.funcs i x h), fun i x h => h1.modules i x (h0.modules i x h), ?_, ?_, ?_⟩
  · intro i x h
    obtain ⟨x', hx', hn, ha⟩ := h0.resources i x h
    obtain ⟨x'', hx'', hn', ha'⟩ := h1.resources i x' hx'
    exact ⟨x'', hx'', hn'.trans hn, ha'.trans ha⟩
  · intro i x hi h
    have hlt := getElem?_lt_of_some h
    obtain ⟨x', hx', he⟩ := h0.interfaces i x hi h
    obtain ⟨x'', hx'', he'⟩ := h1.interfaces i x' (by
      intro hm
      rcases List.mem_cons.mp hm with rfl | hm
      · omega
      · exact hi hm) hx'
    exact ⟨x'', hx'', he'.trans he⟩
  · intro i x hi h
    obtain ⟨x', hx', he, hf⟩ := h0.worlds i x hi h
    obtain ⟨x'', hx'', he', hf'⟩ := h1.worlds i x' hi hx'
    exact ⟨x'', hx'', he'.trans he, hf'.trans hf⟩

theorem Ext.skipW {oi ow : List Nat} {T T0 T1 : Types} {id : Nat} (h0 : Ext oi ow T T0)
    (h1 : Ext oi (id :: ow) T0 T1) (hlen : T.worlds.length ≤ id) : Ext oi ow T T1 := by
  refine ⟨h1.uid.trans h0.uid, fun i x h => h1.defined i x (h0.defined i x h),
    fun i x h => h1.funcs i x (h0.funcs i x h), fun i x h => h1.modules i x (h0.modules i x h), ?_, ?_, ?_⟩
  · intro i x h
    obtain ⟨x', hx', hn, ha⟩ := h0.resources i x h
    obtain ⟨x'', hx'', hn', ha'⟩ := h1.resources i x' hx'
    exact ⟨x'', hx'', hn'.trans hn, ha'.trans ha⟩
  · intro i x hi h
    obtain ⟨x', hx', he⟩ := h0.interfaces i x hi h
    obtain ⟨x'', hx'', he'⟩ := h1.interfaces i x' hi hx'
    exact ⟨x'', hx'', he'.trans he⟩
  · intro i x hi h
    have hlt := getElem?_lt_of_some h
    obtain ⟨x', hx', he, hf⟩ := h0.worlds i x hi h
    obtain ⟨x'', hx'', he', hf'⟩ := h1.worlds i x' (by
      intro hm
      rcases List.mem_cons.mp hm with rfl | hm
      · omega
      · exact hi hm) hx'
    exact ⟨x'', hx'', he'.trans he, hf'.trans hf⟩

theorem Ext.interfaces_len {T T' : Types} (h : Ext [] [] T T') :
    T.interfaces.length ≤ T'.interfaces.length :=
  len_le_of_pointwise fun i x hx => by
    obtain ⟨x', hx', _⟩ := h.interfaces i x (by simp) hx
    exact ⟨x', hx'⟩

theorem Ext.worlds_len {T T' : Types} (h : Ext [] [] T T') :
    T.worlds.length ≤ T'.worlds.length :=
  len_le_of_pointwise fun i x hx => by
    obtain ⟨x', hx', _⟩ := h.worlds i x (by simp) hx
    exact ⟨x', hx'⟩

/-! ### a step that may change the open interfaces / worlds -/

section
variable {w : WTypes} {ρ : Nat → Res} {oi ow : List Nat} {c : Nat}

/-- the invariant survives a step that keeps cache and resource map, keeps or grows the arenas, and
changes at most the export lists of *open* interfaces / worlds -/
theorem Inv.stepO {st st' : St} (h : Inv w ρ oi ow c st) (he : Ext oi ow st.types st'.types)
    (hs : Types.size st.types ≤ Types.size st'.types)
    (hcache : st'.cache = st.cache) (hrm : st'.resourceMap = st.resourceMap) : Inv w ρ oi ow c st' := by
  have hb : bnd c st ≤ bnd c st' := by unfold bnd; omega
  refine ⟨Nat.le_trans h.hc hs, ?_, ?_, ?_, ?_, ?_, ?_, ?_, by rw [hrm]; exact h.inj⟩
  · intro d v hl; rw [hcache] at hl
    exact fun g t ht => (h.defined d v hl g t ht).mono he (by omega)
  · intro f id hl; rw [hcache] at hl
    exact fun g t ht => (h.func f id hl g t ht).mono he (by omega)
  · intro i id hl; rw [hcache] at hl
    exact fun g t ht => (h.inst i id hl g t ht).mono he (by omega)
  · intro i id hl; rw [hcache] at hl
    exact fun g t ht => (h.comp i id hl g t ht).mono he (by omega)
  · intro m id hl; rw [hcache] at hl
    obtain ⟨mt, h1, h2⟩ := h.mod m id hl
    exact ⟨mt, h1, he.modules _ _ h2⟩
  · intro r id hl; rw [hcache] at hl
    obtain ⟨e, h1, h2⟩ := h.res r id hl
    exact ⟨e, h1, h2.mono he⟩
  · intro b s hl; rw [hrm] at hl
    obtain ⟨x, h1, h2⟩ := h.rm b s hl
    obtain ⟨x', hx', _, ha⟩ := he.resources s x h1
    refine ⟨x', hx', ?_⟩
    rw [h2] at ha
    simpa using ha

theorem RK.monoO {st st' : St} {e : WEnt} {k : ItemKind} (h : RK w ρ oi ow c st e k)
    (he : Ext oi ow st.types st'.types) (hs : Types.size st.types ≤ Types.size st'.types) :
    RK w ρ oi ow c st' e k :=
  fun g t ht => (h g t ht).mono he (by unfold bnd; omega)

/-- opening the freshly allocated interface `id`: every fact survives, with one more open id and
the same fuel bound (one more entry, one more open id) -/
theorem Inv.openI {st st0 : St} (h : Inv w ρ oi ow c st) (he : Ext [] [] st.types st0.types)
    (hs : Types.size st0.types = Types.size st.types + 1)
    (hcache : st0.cache = st.cache) (hrm : st0.resourceMap = st.resourceMap) :
    Inv w ρ (st.types.interfaces.length :: oi) ow (c + 1) st0 := by
  have hc := h.hc
  have hb : bnd (c + 1) st0 = bnd c st := by unfold bnd; omega
  refine ⟨by omega, ?_, ?_, ?_, ?_, ?_, ?_, ?_, by rw [hrm]; exact h.inj⟩
  · intro d v hl; rw [hcache] at hl
    intro g t ht T' F he' hF
    exact h.defined d v hl g t ht T' F (Ext.skipI he.of_nil he' (Nat.le_refl _)) (by omega)
  · intro f id hl; rw [hcache] at hl
    intro g t ht T' F he' hF
    exact h.func f id hl g t ht T' F (Ext.skipI he.of_nil he' (Nat.le_refl _)) (by omega)
  · intro i id hl; rw [hcache] at hl
    intro g t ht T' F he' hF
    exact h.inst i id hl g t ht T' F (Ext.skipI he.of_nil he' (Nat.le_refl _)) (by omega)
  · intro i id hl; rw [hcache] at hl
    intro g t ht T' F he' hF
    exact h.comp i id hl g t ht T' F (Ext.skipI he.of_nil he' (Nat.le_refl _)) (by omega)
  · intro m id hl; rw [hcache] at hl
    obtain ⟨mt, h1, h2⟩ := h.mod m id hl
    exact ⟨mt, h1, he.modules _ _ h2⟩
  · intro r id hl; rw [hcache] at hl
    obtain ⟨e, h1, h2⟩ := h.res r id hl
    exact ⟨e, h1, fun T' he' => h2 T' (Ext.skipI he.of_nil he' (Nat.le_refl _))⟩
  · intro b s hl; rw [hrm] at hl
    obtain ⟨x, h1, h2⟩ := h.rm b s hl
    obtain ⟨x', hx', _, ha⟩ := he.resources s x h1
    refine ⟨x', hx', ?_⟩
    rw [h2] at ha
    simpa using ha

theorem Inv.openW {st st0 : St} (h : Inv w ρ oi ow c st) (he : Ext [] [] st.types st0.types)
    (hs : Types.size st0.types = Types.size st.types + 1)
    (hcache : st0.cache = st.cache) (hrm : st0.resourceMap = st.resourceMap) :
    Inv w ρ oi (st.types.worlds.length :: ow) (c + 1) st0 := by
  have hc := h.hc
  have hb : bnd (c + 1) st0 = bnd c st := by unfold bnd; omega
  refine ⟨by omega, ?_, ?_, ?_, ?_, ?_, ?_, ?_, by rw [hrm]; exact h.inj⟩
  · intro d v hl; rw [hcache] at hl
    intro g t ht T' F he' hF
    exact h.defined d v hl g t ht T' F (Ext.skipW he.of_nil he' (Nat.le_refl _)) (by omega)
  · intro f id hl; rw [hcache] at hl
    intro g t ht T' F he' hF
    exact h.func f id hl g t ht T' F (Ext.skipW he.of_nil he' (Nat.le_refl _)) (by omega)
  · intro i id hl; rw [hcache] at hl
    intro g t ht T' F he' hF
    exact h.inst i id hl g t ht T' F (Ext.skipW he.of_nil he' (Nat.le_refl _)) (by omega)
  · intro i id hl; rw [hcache] at hl
    intro g t ht T' F he' hF
    exact h.comp i id hl g t ht T' F (Ext.skipW he.of_nil he' (Nat.le_refl _)) (by omega)
  · intro m id hl; rw [hcache] at hl
    obtain ⟨mt, h1, h2⟩ := h.mod m id hl
    exact ⟨mt, h1, he.modules _ _ h2⟩
  · intro r id hl; rw [hcache] at hl
    obtain ⟨e, h1, h2⟩ := h.res r id hl
    exact ⟨e, h1, fun T' he' => h2 T' (Ext.skipW he.of_nil he' (Nat.le_refl _))⟩
  · intro b s hl; rw [hrm] at hl
    obtain ⟨x, h1, h2⟩ := h.rm b s hl
    obtain ⟨x', hx', _, ha⟩ := he.resources s x h1
    refine ⟨x', hx', ?_⟩
    rw [h2] at ha
    simpa using ha

/-- closing: fewer open ids, one less in the open count -/
theorem Inv.close {oi' ow' : List Nat} {st : St} (h : Inv w ρ oi' ow' (c + 1) st)
    (hi : ∀ i, i ∈ oi → i ∈ oi') (hw : ∀ i, i ∈ ow → i ∈ ow') : Inv w ρ oi ow c st := by
  have hc := h.hc
  have hb : bnd (c + 1) st ≤ bnd c st := by unfold bnd; omega
  refine ⟨by omega, ?_, ?_, ?_, ?_, h.mod, ?_, h.rm, h.inj⟩
  · intro d v hl g t ht
    exact ((h.defined d v hl g t ht).close hi hw).mono (Ext.refl _ _ _) (by omega)
  · intro f id hl g t ht
    exact ((h.func f id hl g t ht).close hi hw).mono (Ext.refl _ _ _) (by omega)
  · intro i id hl g t ht
    exact ((h.inst i id hl g t ht).close hi hw).mono (Ext.refl _ _ _) (by omega)
  · intro i id hl g t ht
    exact ((h.comp i id hl g t ht).close hi hw).mono (Ext.refl _ _ _) (by omega)
  · intro r id hl
    obtain ⟨e, h1, h2⟩ := h.res r id hl
    exact ⟨e, h1, h2.close hi hw⟩

end

end Wac.Decode
