import WacProofs.Lemmas.AggCheck
import WacProofs.Lemmas.Merge
/-
  C09 general theorems, part 5 (specification side): forests of leaf trees.  Resource-freeness of
  everything a collection without resources unfolds to, `Forest.snoc`, `appendMissing` step by
  step, and the merge of two *flat* instance types: when shared names carry equal trees the
  specification's `meet` is `appendMissing`, it is a lower bound of both and the greatest one.
-/
namespace Wac.AggP
open Wac Wac.Spec

/-! ### a collection without resources unfolds to resource-free trees -/

section nores
variable {u : ValueType → Option Tree} (H : ∀ v t, u v = some t → t.resourceFree = true)
include H

theorem rf_unfoldOpt (a : Option ValueType) (t : Tree) (h : unfoldOpt u a = some t) : t.resourceFree = true := by
  cases a with
  | none => simp [unfoldOpt] at h; subst h; rfl
  | some x => exact H x t (by simpa [unfoldOpt] using h)

theorem rf_unfoldUnnamed : ∀ (l : List ValueType) (F : Forest), unfoldUnnamed u l = some F → F.resourceFree = true
  | [], F, h => by simp [unfoldUnnamed] at h; subst h; rfl
  | a :: l, F, h => by
    simp only [unfoldUnnamed] at h
    split at h
    · rename_i t fr h1 h2
      cases h
      simp [Forest.resourceFree, H a t h1, rf_unfoldUnnamed l fr h2]
    · cases h

theorem rf_unfoldNamed : ∀ (l : List (Str × ValueType)) (F : Forest), unfoldNamed u l = some F →
    F.resourceFree = true
  | [], F, h => by simp [unfoldNamed] at h; subst h; rfl
  | (n, a) :: l, F, h => by
    simp only [unfoldNamed] at h
    split at h
    · rename_i t fr h1 h2
      cases h
      simp [Forest.resourceFree, H a t h1, rf_unfoldNamed l fr h2]
    · cases h

theorem rf_unfoldNamedOpt : ∀ (l : List (Str × Option ValueType)) (F : Forest), unfoldNamedOpt u l = some F →
    F.resourceFree = true
  | [], F, h => by simp [unfoldNamedOpt] at h; subst h; rfl
  | (n, a) :: l, F, h => by
    simp only [unfoldNamedOpt] at h
    split at h
    · rename_i t fr h1 h2
      cases h
      simp [Forest.resourceFree, rf_unfoldOpt H a t h1, rf_unfoldNamedOpt l fr h2]
    · cases h

theorem rf_unfoldDefined (x : DefinedType) (t : Tree) (h : unfoldDefined u x = some t) : t.resourceFree = true := by
  cases x <;> simp only [unfoldDefined] at h
  case alias a => exact H a t h
  case tuple ts =>
    obtain ⟨F, hF, rfl⟩ := Option.map_eq_some_iff.1 h
    simpa [Tree.resourceFree] using rf_unfoldUnnamed H ts F hF
  case list a =>
    obtain ⟨F, hF, rfl⟩ := Option.map_eq_some_iff.1 h
    simpa [Tree.resourceFree] using H a F hF
  case fixedSizeList a n =>
    obtain ⟨F, hF, rfl⟩ := Option.map_eq_some_iff.1 h
    simpa [Tree.resourceFree] using H a F hF
  case option a =>
    obtain ⟨F, hF, rfl⟩ := Option.map_eq_some_iff.1 h
    simpa [Tree.resourceFree] using H a F hF
  case result ok err =>
    split at h
    · rename_i a b h1 h2
      cases h
      simp [Tree.resourceFree, rf_unfoldOpt H ok a h1, rf_unfoldOpt H err b h2]
    · cases h
  case variant cs =>
    obtain ⟨F, hF, rfl⟩ := Option.map_eq_some_iff.1 h
    simpa [Tree.resourceFree] using rf_unfoldNamedOpt H cs F hF
  case record fs =>
    obtain ⟨F, hF, rfl⟩ := Option.map_eq_some_iff.1 h
    simpa [Tree.resourceFree] using rf_unfoldNamed H fs F hF
  case flags => cases h; rfl
  case enum => cases h; rfl
  case stream a =>
    obtain ⟨F, hF, rfl⟩ := Option.map_eq_some_iff.1 h
    simpa [Tree.resourceFree] using rf_unfoldOpt H a F hF
  case future a =>
    obtain ⟨F, hF, rfl⟩ := Option.map_eq_some_iff.1 h
    simpa [Tree.resourceFree] using rf_unfoldOpt H a F hF

end nores

theorem rf_unfoldVT {C : Types} (hn : C.resources = []) : ∀ n v t, C.unfoldVT n v = some t → t.resourceFree = true
  | 0, v, t, h => by simp [Types.unfoldVT] at h
  | n + 1, .prim p, t, h => by simp [Types.unfoldVT] at h; subst h; rfl
  | n + 1, .own r, t, h => by simp [Types.unfoldVT, resLeaf_nores hn] at h
  | n + 1, .borrow r, t, h => by simp [Types.unfoldVT, resLeaf_nores hn] at h
  | n + 1, .defined d, t, h => by
    simp only [Types.unfoldVT] at h
    cases hd : C.defined[d]? with
    | none => simp [hd] at h
    | some x =>
      simp only [hd] at h
      exact rf_unfoldDefined (rf_unfoldVT hn n) x t h

theorem rf_unfoldFunc {C : Types} (hn : C.resources = []) (n f : Nat) (t : Tree)
    (h : C.unfoldFunc n f = some t) : t.resourceFree = true := by
  simp only [Types.unfoldFunc] at h
  cases hf : C.funcs[f]? with
  | none => simp [hf] at h
  | some ft =>
    simp only [hf] at h
    split at h
    · rename_i ps r h1 h2
      cases h
      simp [Tree.resourceFree, rf_unfoldNamed (rf_unfoldVT hn n) _ _ h1, rf_unfoldOpt (rf_unfoldVT hn n) _ _ h2]
    · cases h

theorem rf_unfoldLeaf {C : Types} (hn : C.resources = []) {k : ItemKind} (hk : LeafK k) {n : Nat} {t : Tree}
    (h : C.unfoldKind n k = some t) : t.resourceFree = true := by
  cases n with
  | zero => simp [Types.unfoldKind] at h
  | succ n =>
    cases k with
    | func f =>
      simp only [Types.unfoldKind] at h
      exact rf_unfoldFunc hn n f t h
    | value v =>
      simp only [Types.unfoldKind] at h
      obtain ⟨x, hx, rfl⟩ := Option.map_eq_some_iff.1 h
      simpa [Tree.resourceFree] using rf_unfoldVT hn n v x hx
    | type ty =>
      cases ty with
      | func f =>
        simp only [Types.unfoldKind] at h
        obtain ⟨x, hx, rfl⟩ := Option.map_eq_some_iff.1 h
        simpa [Tree.resourceFree] using rf_unfoldFunc hn n f x hx
      | value v =>
        simp only [Types.unfoldKind] at h
        obtain ⟨x, hx, rfl⟩ := Option.map_eq_some_iff.1 h
        simpa [Tree.resourceFree] using rf_unfoldVT hn n v x hx
      | _ => cases hk
    | «instance» _ => cases hk
    | component _ => cases hk
    | module _ => cases hk

/-- trees compared by equality: functions, values, and `type` exports of those -/
def isEqK : Tree → Bool
  | .type t => isEqKind t
  | t => isEqKind t

theorem isEqK_of_eqKind {t : Tree} (h : isEqKind t = true) : isEqK t = true := by
  cases t <;> simp [isEqKind] at h <;> rfl

theorem sub_eqK_left (a b : Tree) (h : isEqK a = true) : sub a b = (a == b) := by
  cases a with
  | type a' =>
    have h' : isEqKind a' = true := h
    cases b with
    | type b' =>
      simp only [sub, sub_eqKind_left a' b' h']
      rw [Bool.eq_iff_iff]
      simp
    | _ => simp [sub]
  | _ => first | exact sub_eqKind_left _ b h | (simp [isEqK, isEqKind] at h)

theorem meet_eqKind (t u : Tree) (h : isEqKind t = true) : meet t u = if t == u then some t else none := by
  cases t <;> simp [isEqKind] at h <;> simp [meet]

theorem meet_eqK (t u : Tree) (h : isEqK t = true) : meet t u = if t == u then some t else none := by
  cases t with
  | type a' =>
    have h' : isEqKind a' = true := h
    cases u with
    | type b' =>
      simp only [meet, meet_eqKind a' b' h']
      by_cases e : a' = b' <;> simp [e]
    | _ => simp [meet]
  | _ => first | exact meet_eqKind _ u h | (simp [isEqK, isEqKind] at h)

theorem eqKind_of_ktag10 {t : Tree} (h : ktag t = 10) : isEqKind t = true := by
  cases t <;> simp [ktag] at h <;> rfl

/-- a leaf tree: what a leaf kind unfolds to (compared by equality) -/
theorem eqKind_unfoldLeaf {C : Types} {k : ItemKind} (hk : LeafK k) {n : Nat} {t : Tree}
    (h : C.unfoldKind n k = some t) : isEqK t = true := by
  cases n with
  | zero => simp [Types.unfoldKind] at h
  | succ n =>
    cases k with
    | func f =>
      obtain ⟨a, p, r, rfl⟩ := unfoldFunc_shape C n f t (shape_func C n f t h); rfl
    | value v =>
      simp only [Types.unfoldKind] at h
      obtain ⟨x, hx, rfl⟩ := Option.map_eq_some_iff.1 h; rfl
    | type ty =>
      cases ty with
      | func f =>
        simp only [Types.unfoldKind] at h
        obtain ⟨x, hx, rfl⟩ := Option.map_eq_some_iff.1 h
        obtain ⟨a, p, r, rfl⟩ := unfoldFunc_shape C n f x hx; rfl
      | value v =>
        simp only [Types.unfoldKind] at h
        obtain ⟨x, hx, rfl⟩ := Option.map_eq_some_iff.1 h
        exact eqKind_of_ktag10 (unfoldVT_ktag C n v x hx)
      | _ => cases hk
    | «instance» _ => cases hk
    | component _ => cases hk
    | module _ => cases hk

/-- shape of a leaf kind / of its tree -/
def lshape : ItemKind → Nat
  | .func _ => 0 | .value _ => 1 | .type (.func _) => 2 | .type (.value _) => 3 | _ => 4

def tshape : Tree → Nat
  | .func .. => 0 | .value _ => 1 | .type (.func ..) => 2 | .type _ => 3 | _ => 4

theorem tshape_unfoldLeaf {C : Types} {k : ItemKind} (hk : LeafK k) {n : Nat} {t : Tree}
    (h : C.unfoldKind n k = some t) : tshape t = lshape k := by
  cases n with
  | zero => simp [Types.unfoldKind] at h
  | succ n =>
    cases k with
    | func f =>
      obtain ⟨a, p, r, rfl⟩ := unfoldFunc_shape C n f t (shape_func C n f t h); rfl
    | value v =>
      simp only [Types.unfoldKind] at h
      obtain ⟨x, hx, rfl⟩ := Option.map_eq_some_iff.1 h; rfl
    | type ty =>
      cases ty with
      | func f =>
        simp only [Types.unfoldKind] at h
        obtain ⟨x, hx, rfl⟩ := Option.map_eq_some_iff.1 h
        obtain ⟨a, p, r, rfl⟩ := unfoldFunc_shape C n f x hx; rfl
      | value v =>
        simp only [Types.unfoldKind] at h
        obtain ⟨x, hx, rfl⟩ := Option.map_eq_some_iff.1 h
        have := unfoldVT_ktag C n v x hx
        cases x <;> simp [ktag] at this <;> rfl
      | _ => cases hk
    | «instance» _ => cases hk
    | component _ => cases hk
    | module _ => cases hk

/-- two leaf kinds with the same tree have the same shape and the same value-level tree -/
theorem leaf_same_tree {C T : Types} {sk tk : ItemKind} (lk : LeafK sk) (ltk : LeafK tk) {n m : Nat} {t : Tree}
    (hs : C.unfoldKind n sk = some t) (ht : T.unfoldKind m tk = some t) :
    (∀ v, sk.ty = .value v → ∃ v0 x, tk.ty = .value v0 ∧ HasVT C v x ∧ HasVT T v0 x) ∧
    (∀ f, sk.ty = .func f → ∃ f0 x, tk.ty = .func f0 ∧ HasFn C f x ∧ HasFn T f0 x) := by
  have e : lshape sk = lshape tk := by rw [← tshape_unfoldLeaf lk hs, ← tshape_unfoldLeaf ltk ht]
  cases n with
  | zero => simp [Types.unfoldKind] at hs
  | succ n =>
  cases m with
  | zero => simp [Types.unfoldKind] at ht
  | succ m =>
  cases sk with
  | func f =>
    cases tk with
    | func f0 =>
      simp only [Types.unfoldKind] at hs ht
      refine ⟨fun v hv => by simp [ItemKind.ty] at hv, fun f' hf => ?_⟩
      simp only [ItemKind.ty, Ty.func.injEq] at hf; subst hf
      exact ⟨f0, t, rfl, ⟨n, hs⟩, ⟨m, ht⟩⟩
    | type ty => cases ty <;> first | (simp [lshape] at e; done) | cases ltk
    | _ => first | (simp [lshape] at e; done) | cases ltk
  | value v =>
    cases tk with
    | value v0 =>
      simp only [Types.unfoldKind] at hs ht
      obtain ⟨x, hx, rfl⟩ := Option.map_eq_some_iff.1 hs
      obtain ⟨y, hy, hxy⟩ := Option.map_eq_some_iff.1 ht
      cases hxy
      refine ⟨fun v' hv => ?_, fun f hf => by simp [ItemKind.ty] at hf⟩
      simp only [ItemKind.ty, Ty.value.injEq] at hv; subst hv
      exact ⟨v0, x, rfl, ⟨n, hx⟩, ⟨m, hy⟩⟩
    | type ty => cases ty <;> first | (simp [lshape] at e; done) | cases ltk
    | _ => first | (simp [lshape] at e; done) | cases ltk
  | type ty =>
    cases ty with
    | func f =>
      cases tk with
      | type ty0 =>
        cases ty0 with
        | func f0 =>
          simp only [Types.unfoldKind] at hs ht
          obtain ⟨x, hx, rfl⟩ := Option.map_eq_some_iff.1 hs
          obtain ⟨y, hy, hxy⟩ := Option.map_eq_some_iff.1 ht
          cases hxy
          refine ⟨fun v hv => by simp [ItemKind.ty] at hv, fun f' hf => ?_⟩
          simp only [ItemKind.ty, Ty.func.injEq] at hf; subst hf
          exact ⟨f0, x, rfl, ⟨n, hx⟩, ⟨m, hy⟩⟩
        | _ => first | (simp [lshape] at e; done) | cases ltk
      | _ => first | (simp [lshape] at e; done) | cases ltk
    | value v =>
      cases tk with
      | type ty0 =>
        cases ty0 with
        | value v0 =>
          simp only [Types.unfoldKind] at hs ht
          obtain ⟨x, hx, rfl⟩ := Option.map_eq_some_iff.1 hs
          obtain ⟨y, hy, hxy⟩ := Option.map_eq_some_iff.1 ht
          cases hxy
          refine ⟨fun v' hv => ?_, fun f hf => by simp [ItemKind.ty] at hf⟩
          simp only [ItemKind.ty, Ty.value.injEq] at hv; subst hv
          exact ⟨v0, x, rfl, ⟨n, hx⟩, ⟨m, hy⟩⟩
        | _ => first | (simp [lshape] at e; done) | cases ltk
      | _ => first | (simp [lshape] at e; done) | cases ltk
    | _ => cases lk
  | _ => cases lk

/-- on resource-free leaf trees the checker's relation is equality -/
theorem subNames_leaf_eq {a b : Tree} (ha : isEqK a = true) (hra : a.resourceFree = true)
    (hrb : b.resourceFree = true) : subNames a b = true ↔ a = b := by
  rw [Props.C07.subNames_eq_sub a b hra hrb, sub_eqK_left a b ha]
  simp

/-! ### forests: `snoc`, `appendMissing` step by step -/

def snoc : Forest → Str → Tree → Forest
  | .nil, n, t => .cons n t .nil
  | .cons m u r, n, t => .cons m u (snoc r n t)

theorem toList_snoc : ∀ (F : Forest) (n : Str) (t : Tree), (snoc F n t).toList = F.toList ++ [(n, t)]
  | .nil, n, t => rfl
  | .cons m u r, n, t => by simp [snoc, Forest.toList, toList_snoc r n t]

theorem ofList_toList : ∀ F : Forest, Forest.ofList F.toList = F
  | .nil => rfl
  | .cons n t r => by simp [Forest.toList, Forest.ofList, ofList_toList r]

theorem toList_ofList : ∀ l : List (Str × Tree), (Forest.ofList l).toList = l
  | [] => rfl
  | (n, t) :: r => by simp [Forest.toList, Forest.ofList, toList_ofList r]

theorem toList_inj {F G : Forest} (h : F.toList = G.toList) : F = G := by
  rw [← ofList_toList F, ← ofList_toList G, h]

theorem appendMissing_nil (F : Forest) : appendMissing F .nil = F := by
  simp [appendMissing, Forest.toList, ofList_toList]

theorem appendMissing_cons_present (F G : Forest) (n : Str) (t : Tree) (h : F.hasName n = true) :
    appendMissing F (.cons n t G) = appendMissing F G := by
  simp [appendMissing, Forest.toList, List.filter, h]

theorem hasName_snoc : ∀ (F : Forest) (n : Str) (t : Tree) (k : Str),
    (snoc F n t).hasName k = (F.hasName k || n == k)
  | .nil, n, t, k => by simp [snoc, Forest.hasName]
  | .cons m u r, n, t, k => by simp [snoc, Forest.hasName, hasName_snoc r n t k, Bool.or_assoc]

theorem appendMissing_cons_absent (F G : Forest) (n : Str) (t : Tree) (h : F.hasName n = false)
    (hg : G.hasName n = false) : appendMissing F (.cons n t G) = appendMissing (snoc F n t) G := by
  apply toList_inj
  simp only [appendMissing, toList_ofList, Forest.toList, List.filter, h, Bool.not_false, toList_snoc,
    List.append_assoc, List.cons_append, List.nil_append]
  congr 2
  apply List.filter_congr
  intro e he
  have hne : (n == e.1) = false := by
    rw [Bool.eq_false_iff]
    intro hc
    have : n = e.1 := by simpa using hc
    have hm : e.1 ∈ G.toList.map (·.1) := List.mem_map.2 ⟨e, he, rfl⟩
    rw [mem_names_toList, ← this, hg] at hm
    cases hm
  simp [hasName_snoc, hne]

theorem get_snoc : ∀ (F : Forest) (n : Str) (t : Tree) (k : Str),
    (snoc F n t).get k = (F.get k).orElse (fun _ => if n == k then some t else none)
  | .nil, n, t, k => by simp [snoc, Forest.get]
  | .cons m u r, n, t, k => by
    simp only [snoc, Forest.get]
    by_cases h : (m == k) = true
    · simp [h]
    · simp [h, get_snoc r n t k]

theorem unfoldItems_snoc {u : ItemKind → Option Tree} : ∀ (E : List (Str × ItemKind)) (F : Forest) (n : Str)
    (k : ItemKind) (t : Tree), unfoldItems u E = some F → u k = some t →
    unfoldItems u (E ++ [(n, k)]) = some (snoc F n t)
  | [], F, n, k, t, hE, hk => by
    simp [unfoldItems] at hE; subst hE
    simp [unfoldItems, hk, snoc]
  | (m, ki) :: E, F, n, k, t, hE, hk => by
    obtain ⟨t0, fr, h1, h2, rfl⟩ := unfoldItems_cons m ki E F hE
    simp only [List.cons_append, unfoldItems, h1, unfoldItems_snoc E fr n k t h2 hk, snoc]

theorem amInsert_absent {β : Type} : ∀ (E : List (Str × β)) (n : Str) (k : β), amGet E n = none →
    amInsert E n k = E ++ [(n, k)]
  | [], n, k, _ => rfl
  | (m, v) :: E, n, k, h => by
    simp only [amGet] at h
    split at h
    · cases h
    · rename_i hne
      simp [amInsert, hne, amInsert_absent E n k h]

/-- unfolding a list of leaf kinds survives an extension of the collection -/
theorem Ext.unfoldItems_leaf {T T' : Types} (h : Ext T T') : ∀ (E : List (Str × ItemKind)) (n : Nat) (F : Forest),
    (∀ x ∈ E, LeafK x.2) → unfoldItems (T.unfoldKind n) E = some F → unfoldItems (T'.unfoldKind n) E = some F
  | [], n, F, _, hE => by simpa [unfoldItems] using hE
  | (m, ki) :: E, n, F, hl, hE => by
    obtain ⟨t0, fr, h1, h2, rfl⟩ := unfoldItems_cons m ki E F hE
    simp only [unfoldItems, h.unfoldLeaf (hl (m, ki) List.mem_cons_self) n t0 h1,
      Ext.unfoldItems_leaf h E n fr (fun x hx => hl x (List.mem_cons_of_mem _ hx)) h2]

/-! ### flat forests (every entry is compared by equality) and their merge -/

def eqF : Forest → Bool
  | .nil => true
  | .cons _ t r => isEqK t && eqF r

theorem eqF_get : ∀ (F : Forest) (k : Str) (t : Tree), eqF F = true → F.get k = some t → isEqK t = true
  | .nil, k, t, _, h => by simp [Forest.get] at h
  | .cons n u r, k, t, hc, h => by
    simp only [eqF, Bool.and_eq_true] at hc
    by_cases hk : n = k
    · subst hk; simp [Forest.get] at h; subst h; exact hc.1
    · simp [Forest.get, hk] at h; exact eqF_get r k t hc.2 h

/-- shared names carry equal trees -/
def Consistent (F G : Forest) : Prop := ∀ k tf tg, F.get k = some tf → G.get k = some tg → tf = tg

theorem meetShared_flat : ∀ (F G : Forest), eqF F = true → keysNd F = true → Consistent F G →
    meetShared F G = some F
  | .nil, G, _, _, _ => rfl
  | .cons n t r, G, he, hk, hc => by
    simp only [eqF, Bool.and_eq_true] at he
    simp only [keysNd, Bool.and_eq_true, Bool.not_eq_true'] at hk
    have hr : Consistent r G := by
      intro k tf tg hf hg
      have hne : n ≠ k := by
        rintro rfl
        have := Forest.get_hasName hf
        rw [hk.1] at this; cases this
      exact hc k tf tg (by simpa [Forest.get, hne] using hf) hg
    simp only [meetShared, meetShared_flat r G he.2 hk.2 hr]
    cases hg : G.get n with
    | none => rfl
    | some u =>
      have : t = u := hc n t u (Forest.get_cons_self n t r) hg
      subst this
      simp [meet_eqK t t he.1]

/-- on flat forests an inconsistent shared name makes the merge undefined -/
theorem meetShared_flat_none : ∀ (F G : Forest), eqF F = true → keysNd F = true → ¬ Consistent F G →
    meetShared F G = none
  | .nil, G, _, _, hc => by exact absurd (fun k tf tg hf => by simp [Forest.get] at hf) hc
  | .cons n t r, G, he, hk, hc => by
    simp only [eqF, Bool.and_eq_true] at he
    simp only [keysNd, Bool.and_eq_true, Bool.not_eq_true'] at hk
    simp only [meetShared]
    cases hg : G.get n with
    | none =>
      have hr : ¬ Consistent r G := by
        intro hr
        apply hc
        intro k tf tg hf hg'
        by_cases hne : n = k
        · subst hne; rw [hg] at hg'; cases hg'
        · exact hr k tf tg (by simpa [Forest.get, hne] using hf) hg'
      simp [meetShared_flat_none r G he.2 hk.2 hr]
    | some u =>
      by_cases htu : t = u
      · subst htu
        have hr : ¬ Consistent r G := by
          intro hr
          apply hc
          intro k tf tg hf hg'
          by_cases hne : n = k
          · subst hne
            simp [Forest.get] at hf; subst hf
            rw [hg] at hg'; cases hg'; rfl
          · exact hr k tf tg (by simpa [Forest.get, hne] using hf) hg'
        simp [meetShared_flat_none r G he.2 hk.2 hr]
      · have : (t == u) = false := by simpa using htu
        simp [meet_eqK t u he.1, this]

/-- **the specification's merge of two flat instance types** -/
theorem meet_flat (F G : Forest) (he : eqF F = true) (hk : keysNd F = true) (hc : Consistent F G) :
    meet (.instance F) (.instance G) = some (.instance (appendMissing F G)) := by
  simp [meet, meetShared_flat F G he hk hc]

theorem meet_flat_none (F G : Forest) (he : eqF F = true) (hk : keysNd F = true) (hc : ¬ Consistent F G) :
    meet (.instance F) (.instance G) = none := by
  simp [meet, meetShared_flat_none F G he hk hc]

theorem sub_instance_left_shape {X : Tree} {F : Forest} (h : sub X (.instance F) = true) : ∃ XF, X = .instance XF := by
  cases X <;> first | exact ⟨_, rfl⟩ | simp [sub] at h

/-- the merged flat instance type is a lower bound of both and the greatest one -/
theorem flat_merge_lower_left (F G : Forest) (hF : F.namesDistinct = true) (hG : keysNd G = true) :
    sub (.instance (appendMissing F G)) (.instance F) = true := by
  rw [sub_instance_iff_k _ _ (keysNd_appendMissing F G (keysNd_of_nd F hF) hG)]
  intro k tf hf
  refine ⟨tf, by simp [get_appendMissing, hf], sub_refl tf (Forest.nd_get F k tf hF hf)⟩

theorem flat_merge_lower_right (F G : Forest) (hF : keysNd F = true) (hG : G.namesDistinct = true)
    (hc : Consistent F G) : sub (.instance (appendMissing F G)) (.instance G) = true := by
  rw [sub_instance_iff_k _ _ (keysNd_appendMissing F G hF (keysNd_of_nd G hG))]
  intro k tg hg
  refine ⟨tg, ?_, sub_refl tg (Forest.nd_get G k tg hG hg)⟩
  rw [get_appendMissing]
  cases hf : F.get k with
  | none => simpa using hg
  | some tf => rw [hc k tf tg hf hg]; rfl

theorem flat_merge_greatest (F G : Forest) (X : Tree) (hX : X.namesDistinct = true)
    (h1 : sub X (.instance F) = true) (h2 : sub X (.instance G) = true) :
    sub X (.instance (appendMissing F G)) = true := by
  obtain ⟨XF, rfl⟩ := sub_instance_left_shape h1
  have hk : keysNd XF = true := keysNd_of_nd XF (by simpa [Tree.namesDistinct] using hX)
  rw [sub_instance_iff_k _ _ hk] at h1 h2 ⊢
  intro k t hk'
  rw [get_appendMissing] at hk'
  cases hf : F.get k with
  | none => rw [hf] at hk'; exact h2 k t (by simpa using hk')
  | some tf => rw [hf] at hk'; simp at hk'; subst hk'; exact h1 k tf hf

/-- the union of the export names -/
theorem flat_merge_names (F G : Forest) (k : Str) :
    (appendMissing F G).hasName k = (F.hasName k || G.hasName k) := by
  rw [Bool.eq_iff_iff, Forest.hasName_iff_get, Bool.or_eq_true, Forest.hasName_iff_get, Forest.hasName_iff_get,
    get_appendMissing]
  cases F.get k <;> simp

end Wac.AggP
