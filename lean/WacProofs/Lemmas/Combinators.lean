import WacProofs.Lemmas.Leaves
/-
  C12 proofs, layer 3: combinators.  `parse_optional` vs `opt`; the relational reading of the
  grammar's `many` (`Many`) and `p (',' p)* ','?` (`SepBy`, `mem_list1`, `mem_list0`); and — proved
  once, used for every bracketed list of the language — `parse_delimited` (the fuelled loop of
  `ast.rs`) against them, in both directions, including fuel sufficiency
  (`fuel > remaining tokens` or `fuel > number of items` is enough).
-/
namespace Wac.C12
open Wac Wac.Ast Wac.Lex Wac.Parse Wac.Spec.Grammar

/-! ### suffix order on states -/

/-- `st'` is `st` after consuming some items -/
def Suf (st' st : PState) : Prop := st'.toks <:+ st.toks

theorem Suf.refl (st : PState) : Suf st st := List.suffix_refl _
theorem Suf.trans {a b c : PState} (h1 : Suf a b) (h2 : Suf b c) : Suf a c := List.IsSuffix.trans h1 h2
theorem Suf.adv (st : PState) : Suf (adv st) st := by
  unfold Suf; rw [adv_toks]; exact List.tail_suffix _
theorem Suf.len {a b : PState} (h : Suf a b) : a.toks.length ≤ b.toks.length := List.IsSuffix.length_le h
theorem Suf.adv_left {a b : PState} (h : Suf a b) : Suf (Wac.C12.adv a) b := (Suf.adv a).trans h

/-! ### tokens of `abs st` -/

def litTok (k : Token) : STok := ⟨.lit, (litText k).toList⟩
def junk : STok := ⟨.lit, []⟩

theorem absTok_of_tok? {tk : LTok} {k : Token} (hk : isLit k = true) (h : tk.tok? = some k) :
    absTok tk = litTok k := by
  rw [tok?_eq_some] at h
  rw [absTok_ok h, classOf_none_of_isLit hk]; rfl

theorem head_abs_lit {k : Token} (hk : isLit k = true) (st : PState) :
    (abs st).head? = some (litTok k) ↔ nextTok st = some k := by
  have := mem_t_abs k hk st () (abs (adv st))
  rw [mem_t] at this
  constructor
  · intro h
    apply (this.mp _).1
    cases hs : st.toks with
    | nil => simp [abs_nil hs] at h
    | cons a l =>
      have e : abs st = absTok (deliver st.depth a) :: abs (adv st) := by
        unfold abs; rw [eff_cons hs]; simp
      rw [e] at h ⊢
      simp at h; rw [h]; rfl
  · intro h
    have := this.mpr ⟨h, rfl⟩
    rw [this]; rfl

theorem peekErr_false_of_head {st : PState} (h : (abs st).head? ≠ some junk) : peekErr st = false := by
  unfold peekErr
  cases hs : st.toks with
  | nil => rfl
  | cons a l =>
    simp only
    cases hr : a.res with
    | ok k => simp [tok?_ok hr]
    | error e =>
      exfalso; apply h
      have e' : abs st = absTok (deliver st.depth a) :: abs (adv st) := by
        unfold abs; rw [eff_cons hs]; simp
      have hd : deliver st.depth a = a := by simp [deliver, hr]
      rw [e', hd, absTok_error hr]; rfl

/-! ### `parse_optional` -/

theorem parseOptional_eq_ok {α} {st st' : PState} {k : Token} {cb : PState → PR α} {o : Option α} :
    parseOptional st k cb = .ok (o, st') ↔
      (nextTok st = some k ∧ ∃ a, cb (adv st) = .ok (a, st') ∧ o = some a) ∨
      (peekTok st ≠ some k ∧ peekErr st = false ∧ o = none ∧ st' = st) := by
  by_cases hn : nextTok st = some k
  · -- the expected token is delivered
    have hp := peekTok_of_nextTok hn
    obtain ⟨h1, h2, _⟩ := toks_of_nextTok hn
    have hr := tok?_eq_some.mp h2
    have hpt : parseToken st k = .ok (tokAt st, adv st) := parseToken_eq_ok.mpr ⟨hn, rfl, rfl⟩
    unfold parseOptional PState.peek
    rw [h1]
    simp only [List.head?_cons, hr, if_true, hpt]
    cases cb (adv st) with
    | error e => simp [hn]
    | ok v =>
      obtain ⟨a, s⟩ := v
      simp only [hn, hp, true_and, ne_eq, not_true_eq_false, false_and, or_false, Except.ok.injEq,
        Prod.mk.injEq]
      constructor
      · rintro ⟨rfl, rfl⟩; exact ⟨a, ⟨rfl, rfl⟩, rfl⟩
      · rintro ⟨a', ⟨rfl, rfl⟩, rfl⟩; exact ⟨rfl, rfl⟩
  · simp only [hn, false_and, false_or]
    unfold parseOptional peekErr PState.peek
    rw [peekTok_eq]
    cases hs : st.toks with
    | nil => simp [eq_comm]
    | cons a l =>
      simp only [List.head?_cons, Option.bind_some]
      cases hr : a.res with
      | error e => simp [tok?_error hr]
      | ok k' =>
        simp only [tok?_ok hr, Option.some.injEq]
        by_cases hk : k' = k
        · subst hk
          have hpt : ∀ r, parseToken st k' ≠ .ok r := by
            rintro ⟨tk, s⟩ h
            exact hn (parseToken_eq_ok.mp h).1
          cases hpr : parseToken st k' with
          | ok r => exact absurd hpr (hpt r)
          | error e => simp
        · have hk' : ¬ k = k' := fun h => hk h.symm
          simp [hk, hk', eq_comm]

/-! ### `many` -/

inductive Many {α} (p : SP α) : List α → List STok → List STok → Prop
  | nil (ts : List STok) : Many p [] ts ts
  | cons {a : α} {as : List α} {ts r1 r : List STok} :
      (a, r1) ∈ p ts → Many p as r1 r → Many p (a :: as) ts r

theorem mem_many {α} (p : SP α) (n : Nat) (xs : List α) (ts r : List STok) :
    (xs, r) ∈ many p n ts ↔ Many p xs ts r ∧ xs.length ≤ n := by
  induction n generalizing xs ts with
  | zero =>
    simp only [many, pure_apply, List.mem_singleton, Prod.mk.injEq]
    constructor
    · rintro ⟨rfl, rfl⟩; exact ⟨.nil _, by simp⟩
    · rintro ⟨h, hl⟩
      have : xs = [] := List.eq_nil_of_length_eq_zero (by omega)
      subst this
      cases h; exact ⟨rfl, rfl⟩
  | succ n ih =>
    simp only [many, alt_apply, bind_apply, pure_apply, List.mem_append, List.mem_flatMap,
      List.mem_singleton, Prod.mk.injEq, Prod.exists]
    constructor
    · rintro (⟨a, r1, h1, as, r2, h2, rfl, rfl⟩ | ⟨rfl, rfl⟩)
      · obtain ⟨hm, hl⟩ := (ih _ _).mp h2
        exact ⟨.cons h1 hm, by simp; omega⟩
      · exact ⟨.nil _, by simp⟩
    · rintro ⟨h, hl⟩
      cases h with
      | nil => right; exact ⟨rfl, rfl⟩
      | cons h1 hm =>
        left
        exact ⟨_, _, h1, _, _, (ih _ _).mpr ⟨hm, by simp at hl; omega⟩, rfl, rfl⟩

theorem Many.mono {α} {p q : SP α} (h : ∀ ts x, x ∈ p ts → x ∈ q ts) {xs ts r} (hm : Many p xs ts r) :
    Many q xs ts r := by
  induction hm with
  | nil => exact .nil _
  | cons h1 _ ih => exact .cons (h _ _ h1) ih


/-! ### `list1` / `list0`: `p (',' p)* ','?` -/

def comma : STok := ⟨.lit, [',']⟩

theorem comma_eq : comma = litTok .Comma := by decide

/-- `xs` derived as `p (c p)* c?` from `ts` leaving `r` -/
inductive SepBy {α} (p : SP α) (c : STok) : List α → List STok → List STok → Prop
  | one {a : α} {ts r : List STok} : (a, r) ∈ p ts → SepBy p c [a] ts r
  | oneTrail {a : α} {ts r : List STok} : (a, c :: r) ∈ p ts → SepBy p c [a] ts r
  | cons {a : α} {as : List α} {ts r1 r : List STok} :
      (a, c :: r1) ∈ p ts → SepBy p c as r1 r → SepBy p c (a :: as) ts r

theorem SepBy.ne_nil {α} {p : SP α} {c xs ts r} (h : SepBy p c xs ts r) : xs ≠ [] := by
  cases h <;> simp

theorem mem_commaThen {α} (p : SP α) (b : α) (ts r : List STok) :
    (b, r) ∈ (do t ","; p : SP α) ts ↔ ∃ r0, ts = comma :: r0 ∧ (b, r) ∈ p r0 := by
  simp only [bind_apply, List.mem_flatMap, Prod.exists, mem_t]
  constructor
  · rintro ⟨u, r0, h1, h2⟩; exact ⟨r0, h1, h2⟩
  · rintro ⟨r0, h1, h2⟩; exact ⟨(), r0, h1, h2⟩

theorem sepBy_of_many {α} {p : SP α} {a : α} {as : List α} {ts r1 r2 r : List STok}
    (h1 : (a, r1) ∈ p ts) (hm : Many (do t ","; p : SP α) as r1 r2)
    (ht : r = r2 ∨ r2 = comma :: r) : SepBy p comma (a :: as) ts r := by
  induction hm generalizing a ts with
  | nil =>
    rcases ht with rfl | rfl
    · exact .one h1
    · exact .oneTrail h1
  | cons hb _ ih =>
    obtain ⟨r0, rfl, hb'⟩ := (mem_commaThen _ _ _ _).mp hb
    exact .cons h1 (ih hb' ht)

theorem many_of_sepBy {α} {p : SP α} {xs : List α} {ts r : List STok} (h : SepBy p comma xs ts r) :
    ∃ a as r1 r2, xs = a :: as ∧ (a, r1) ∈ p ts ∧ Many (do t ","; p : SP α) as r1 r2 ∧
      (r = r2 ∨ r2 = comma :: r) := by
  induction h with
  | one h1 => exact ⟨_, [], _, _, rfl, h1, .nil _, .inl rfl⟩
  | oneTrail h1 => exact ⟨_, [], _, _, rfl, h1, .nil _, .inr rfl⟩
  | cons h1 _ ih =>
    obtain ⟨b, bs, r1b, r2, rfl, hb, hm, ht⟩ := ih
    exact ⟨_, _, _, r2, rfl, h1, .cons ((mem_commaThen _ _ _ _).mpr ⟨_, rfl, hb⟩) hm, ht⟩

theorem mem_list1 {α} (p : SP α) (n : Nat) (xs : List α) (ts r : List STok) :
    (xs, r) ∈ list1 p n ts ↔ SepBy p comma xs ts r ∧ xs.length ≤ n + 1 := by
  unfold list1
  simp only [bind_apply, List.mem_flatMap, Prod.exists, mem_many, opt_apply, pure_apply,
    List.mem_singleton, Prod.mk.injEq, List.mem_append, List.mem_map, mem_t]
  constructor
  · rintro ⟨a, r1, h1, as, r2, ⟨hm, hl⟩, o, r3, ho, rfl, rfl⟩
    refine ⟨sepBy_of_many h1 hm ?_, by simp; omega⟩
    rcases ho with ⟨u, r4, h, _, rfl⟩ | ⟨_, rfl⟩
    · right; rw [h]; rfl
    · left; rfl
  · rintro ⟨h, hl⟩
    obtain ⟨a, as, r1, r2, rfl, h1, hm, ht⟩ := many_of_sepBy h
    refine ⟨a, r1, h1, as, r2, ⟨hm, by simp at hl; omega⟩, ?_⟩
    rcases ht with rfl | rfl
    · exact ⟨none, _, .inr ⟨rfl, rfl⟩, rfl, rfl⟩
    · exact ⟨some (), _, .inl ⟨(), r, rfl, rfl, rfl⟩, rfl, rfl⟩

theorem mem_list0 {α} (p : SP α) (n : Nat) (xs : List α) (ts r : List STok) :
    (xs, r) ∈ list0 p n ts ↔ (SepBy p comma xs ts r ∧ xs.length ≤ n + 1) ∨ (xs = [] ∧ r = ts) := by
  simp [list0, mem_list1]

theorem abs_of_nextTok_lit {st : PState} {k : Token} (hk : isLit k = true) (h : nextTok st = some k) :
    abs st = litTok k :: abs (adv st) := by
  rw [abs_of_nextTok h, absTok_of_tok? hk (toks_of_nextTok h).2.1]

section Delimited
variable {α β : Type} (stop : Token) (peeks : List Token) (item : PState → PR α) (er : α → β) (p : SP β)

theorem parseDelimited_commas_sound (B : Nat)
    (hitem : ∀ st x st1, item st = .ok (x, st1) → Suf st1 st ∧ st1.toks.length < st.toks.length ∧
        (st.toks.length ≤ st1.toks.length + B → (er x, abs st1) ∈ p (abs st)))
    (fuel : Nat) (st : PState) (xs : List α) (st' : PState)
    (h : parseDelimited stop true peeks item fuel st = .ok (xs, st')) :
    Suf st' st ∧ peekTok st' = some stop ∧ xs.length + st'.toks.length ≤ st.toks.length ∧
    (st.toks.length ≤ st'.toks.length + B →
       (xs = [] ∧ st' = st) ∨ SepBy p comma (xs.map er) (abs st) (abs st')) := by
  induction fuel generalizing st xs st' with
  | zero => simp [parseDelimited] at h
  | succ fuel ih =>
    simp only [parseDelimited] at h
    split at h
    · rename_i hs
      cases h
      exact ⟨Suf.refl _, by simpa using hs, by simp, fun _ => .inl ⟨rfl, rfl⟩⟩
    · split at h
      · cases h
      · split at h
        · cases h
        · rename_i x st1 hx
          obtain ⟨hs1, hl1, hm1⟩ := hitem _ _ _ hx
          split at h
          · rename_i next hn
            split at h
            · rename_i hstop
              cases h
              subst hstop
              refine ⟨hs1, hn, by simp; omega, fun hB => .inr (.one (hm1 hB))⟩
            · simp only [if_true] at h
              split at h
              · cases h
              · rename_i tk st2 htk
                rw [parseToken_eq_ok] at htk
                obtain ⟨hc, _, rfl⟩ := htk
                split at h
                · cases h
                · rename_i xs' st'' hrec
                  cases h
                  obtain ⟨hs2, hp2, hl2, hm2⟩ := ih _ _ _ hrec
                  have hlen := len_of_nextTok hc
                  have habs := abs_of_nextTok_lit (k := .Comma) rfl hc
                  rw [← comma_eq] at habs
                  refine ⟨hs2.trans ((Suf.adv _).trans hs1), hp2, by simp; omega, fun hB => .inr ?_⟩
                  have hB1 : st.toks.length ≤ st1.toks.length + B := by
                    have := hs2.len; omega
                  have hB2 : (adv st1).toks.length ≤ st'.toks.length + B := by omega
                  have hx' := hm1 hB1
                  rw [habs] at hx'
                  rcases hm2 hB2 with ⟨rfl, rfl⟩ | hsep
                  · exact .oneTrail hx'
                  · exact .cons hx' hsep
          · cases h

theorem abs_adv_of_cons {st : PState} {k : Token} {r : List STok} (hk : isLit k = true)
    (h : abs st = litTok k :: r) : nextTok st = some k ∧ abs (adv st) = r := by
  have hp : nextTok st = some k := (head_abs_lit hk st).mp (by rw [h]; rfl)
  have := abs_of_nextTok_lit hk hp
  rw [this] at h
  exact ⟨hp, (List.cons.inj h).2⟩

theorem parseDelimited_commas_complete (hstop : isLit stop = true) (hne : stop ≠ .Comma)
    (hitem : ∀ st a r1, (a, r1) ∈ p (abs st) →
        (r1.head? = some comma ∨ r1.head? = some (litTok stop)) →
        ∃ x st1, item st = .ok (x, st1) ∧ er x = a ∧ abs st1 = r1 ∧
          st1.toks.length < st.toks.length ∧ peekIn st peeks = true ∧ peekTok st ≠ some stop)
    {xs : List β} {ts r : List STok} (h : SepBy p comma xs ts r)
    (st : PState) (hts : ts = abs st) (hr : r.head? = some (litTok stop)) (fuel : Nat)
    (hfuel : xs.length + 1 ≤ fuel ∨ st.toks.length + 1 ≤ fuel) :
    ∃ ys st', parseDelimited stop true peeks item fuel st = .ok (ys, st') ∧ ys.map er = xs ∧
      abs st' = r := by
  induction h generalizing st fuel with
  | one h1 =>
    subst hts
    obtain ⟨x, st1, hx, rfl, rfl, hl, hin, hns⟩ := hitem _ _ _ h1 (.inr hr)
    have hp1 : nextTok st1 = some stop := (head_abs_lit hstop st1).mp hr
    obtain ⟨f, rfl⟩ : ∃ f, fuel = f + 1 := ⟨fuel - 1, by omega⟩
    refine ⟨[x], st1, ?_, rfl, rfl⟩
    have hnis : peekIs st stop = false := (peekIs_false_iff _ _).mpr hns
    simp [parseDelimited, hnis, hin, hx, hp1]
  | oneTrail h1 =>
    subst hts
    obtain ⟨x, st1, hx, rfl, habs, hl, hin, hns⟩ := hitem _ _ _ h1 (.inl rfl)
    rw [comma_eq] at habs
    obtain ⟨hp1, habs2⟩ := abs_adv_of_cons (k := .Comma) rfl habs
    have hp2 : nextTok (adv st1) = some stop := (head_abs_lit hstop _).mp (by rw [habs2]; exact hr)
    have hl1 := len_of_nextTok hp1
    obtain ⟨f, rfl⟩ : ∃ f, fuel = f + 2 := ⟨fuel - 2, by simp at hfuel; omega⟩
    refine ⟨[x], adv st1, ?_, rfl, habs2⟩
    have hnis : peekIs st stop = false := (peekIs_false_iff _ _).mpr hns
    have hpt : parseToken st1 .Comma = .ok (tokAt st1, adv st1) := parseToken_eq_ok.mpr ⟨hp1, rfl, rfl⟩
    have hne' : ¬ Token.Comma = stop := fun h => hne h.symm
    have his2 : peekIs (adv st1) stop = true := (peekIs_iff _ _).mpr (peekTok_of_nextTok hp2)
    simp [parseDelimited, hnis, hin, hx, hp1, hne', hpt, his2]
  | cons h1 _ ih =>
    subst hts
    obtain ⟨x, st1, hx, rfl, habs, hl, hin, hns⟩ := hitem _ _ _ h1 (.inl rfl)
    rw [comma_eq] at habs
    obtain ⟨hp1, habs2⟩ := abs_adv_of_cons (k := .Comma) rfl habs
    have hl1 := len_of_nextTok hp1
    obtain ⟨f, rfl⟩ : ∃ f, fuel = f + 1 := ⟨fuel - 1, by omega⟩
    obtain ⟨ys, st', hrec, hys, hst'⟩ := ih (adv st1) habs2.symm hr f (by simp at hfuel; omega)
    refine ⟨x :: ys, st', ?_, by simp [hys], hst'⟩
    have hnis : peekIs st stop = false := (peekIs_false_iff _ _).mpr hns
    have hpt : parseToken st1 .Comma = .ok (tokAt st1, adv st1) := parseToken_eq_ok.mpr ⟨hp1, rfl, rfl⟩
    have hne' : ¬ Token.Comma = stop := fun h => hne h.symm
    simp [parseDelimited, hnis, hin, hx, hp1, hne', hpt, hrec]

/-- the empty list: `stop` right away -/
theorem parseDelimited_nil (withCommas : Bool) (st : PState) (fuel : Nat) (h : nextTok st = some stop) :
    parseDelimited stop withCommas peeks item (fuel + 1) st = .ok ([], st) := by
  have : peekIs st stop = true := (peekIs_iff _ _).mpr (peekTok_of_nextTok h)
  simp [parseDelimited, this]
end Delimited


section Delimited2
variable {α β : Type} (stop : Token) (peeks : List Token) (item : PState → PR α) (er : α → β) (p : SP β)

theorem parseDelimited_nocommas_sound (B : Nat)
    (hitem : ∀ st x st1, item st = .ok (x, st1) → Suf st1 st ∧ st1.toks.length < st.toks.length ∧
        (st.toks.length ≤ st1.toks.length + B → (er x, abs st1) ∈ p (abs st)))
    (fuel : Nat) (st : PState) (xs : List α) (st' : PState)
    (h : parseDelimited stop false peeks item fuel st = .ok (xs, st')) :
    Suf st' st ∧ peekTok st' = some stop ∧ xs.length + st'.toks.length ≤ st.toks.length ∧
    (st.toks.length ≤ st'.toks.length + B → Many p (xs.map er) (abs st) (abs st')) := by
  induction fuel generalizing st xs st' with
  | zero => simp [parseDelimited] at h
  | succ fuel ih =>
    simp only [parseDelimited] at h
    split at h
    · rename_i hs
      cases h
      exact ⟨Suf.refl _, by simpa using hs, by simp, fun _ => .nil _⟩
    · split at h
      · cases h
      · split at h
        · cases h
        · rename_i x st1 hx
          obtain ⟨hs1, hl1, hm1⟩ := hitem _ _ _ hx
          split at h
          · rename_i next hn
            split at h
            · rename_i hstop
              cases h
              subst hstop
              refine ⟨hs1, hn, by simp; omega, fun hB => .cons (hm1 hB) (.nil _)⟩
            · simp only [Bool.false_eq_true, if_false] at h
              split at h
              · cases h
              · rename_i xs' st'' hrec
                cases h
                obtain ⟨hs2, hp2, hl2, hm2⟩ := ih _ _ _ hrec
                refine ⟨hs2.trans hs1, hp2, by simp; omega, fun hB => ?_⟩
                have hB1 : st.toks.length ≤ st1.toks.length + B := by
                  have := hs2.len; omega
                have hB2 : st1.toks.length ≤ st'.toks.length + B := by omega
                exact .cons (hm1 hB1) (hm2 hB2)
          · cases h

theorem parseDelimited_nocommas_complete (hstop : isLit stop = true)
    (hitem : ∀ st a r1, (a, r1) ∈ p (abs st) →
        ∃ x st1, item st = .ok (x, st1) ∧ er x = a ∧ abs st1 = r1 ∧
          st1.toks.length < st.toks.length ∧ peekIn st peeks = true ∧ peekTok st ≠ some stop)
    {xs : List β} {ts r : List STok} (h : Many p xs ts r)
    (st : PState) (hts : ts = abs st) (hr : r.head? = some (litTok stop)) (fuel : Nat)
    (hfuel : xs.length + 1 ≤ fuel ∨ st.toks.length + 1 ≤ fuel) :
    ∃ ys st', parseDelimited stop false peeks item fuel st = .ok (ys, st') ∧ ys.map er = xs ∧
      abs st' = r := by
  induction h generalizing st fuel with
  | nil =>
    subst hts
    obtain ⟨f, rfl⟩ : ∃ f, fuel = f + 1 := ⟨fuel - 1, by omega⟩
    exact ⟨[], st, parseDelimited_nil _ _ _ _ _ _ ((head_abs_lit hstop st).mp hr), rfl, rfl⟩
  | cons h1 hm ih =>
    subst hts
    obtain ⟨x, st1, hx, rfl, rfl, hl, hin, hns⟩ := hitem _ _ _ h1
    have hnis : peekIs st stop = false := (peekIs_false_iff _ _).mpr hns
    obtain ⟨f, rfl⟩ : ∃ f, fuel = f + 1 := ⟨fuel - 1, by omega⟩
    cases hm with
    | nil =>
      have hp1 : nextTok st1 = some stop := (head_abs_lit hstop st1).mp hr
      refine ⟨[x], st1, ?_, rfl, rfl⟩
      simp [parseDelimited, hnis, hin, hx, hp1]
    | cons h2 hm2 =>
      obtain ⟨_, _, _, _, _, _, hin1, hns1⟩ := hitem _ _ _ h2
      obtain ⟨k, hk, _⟩ := (peekIn_iff _ _).mp hin1
      have hkne : ¬ k = stop := fun h => hns1 (h ▸ hk)
      obtain ⟨ys, st', hrec, hys, hst'⟩ := ih st1 rfl hr f (by simp at hfuel ⊢; omega)
      refine ⟨x :: ys, st', ?_, by simp [hys], hst'⟩
      simp [parseDelimited, hnis, hin, hx, hk, hkne, hrec]
end Delimited2


/-! ### the shape of a soundness statement -/

/-- `x` parsed from `st` leaving `st'` is sound for the recogniser family `g` (indexed by the
grammar's fuel) with slack `c`: at least one item was consumed, and `(er x, abs st')` is a
derivation of `g gf` from `abs st` for every fuel `gf` that is at least the number of consumed
items plus `c`. -/
def Sound {α β : Type} (er : α → β) (g : Nat → SP β) (c : Nat) (st : PState) (x : α) (st' : PState) :
    Prop :=
  Suf st' st ∧ st'.toks.length < st.toks.length ∧
  ∀ gf, st.toks.length + c ≤ st'.toks.length + gf → (er x, abs st') ∈ g gf (abs st)

/-- structural facts about `parse_delimited` that do not depend on the grammar -/
theorem parseDelimited_struct {α : Type} (stop : Token) (withCommas : Bool) (peeks : List Token)
    (item : PState → PR α)
    (hitem : ∀ st x st1, item st = .ok (x, st1) → Suf st1 st ∧ st1.toks.length < st.toks.length)
    (fuel : Nat) (st : PState) (xs : List α) (st' : PState)
    (h : parseDelimited stop withCommas peeks item fuel st = .ok (xs, st')) :
    Suf st' st ∧ peekTok st' = some stop ∧ xs.length + st'.toks.length ≤ st.toks.length := by
  cases withCommas with
  | true =>
    obtain ⟨a, b, c, _⟩ := parseDelimited_commas_sound stop peeks item id (fun _ => []) 0
      (fun st x st1 hx => by
        obtain ⟨a, b⟩ := hitem st x st1 hx
        exact ⟨a, b, fun h => by omega⟩) fuel st xs st' h
    exact ⟨a, b, c⟩
  | false =>
    obtain ⟨a, b, c, _⟩ := parseDelimited_nocommas_sound stop peeks item id (fun _ => []) 0
      (fun st x st1 hx => by
        obtain ⟨a, b⟩ := hitem st x st1 hx
        exact ⟨a, b, fun h => by omega⟩) fuel st xs st' h
    exact ⟨a, b, c⟩


section DelimitedInv
variable {α β : Type} (stop : Token) (peeks : List Token) (item : PState → PR α) (er : α → β) (p : SP β)
variable (Inv : PState → Prop) (hInv : ∀ st st', Inv st → Suf st' st → Inv st')
include hInv

/-- `parseDelimited_nocommas_sound` for items that are only sound on states satisfying an
invariant that is inherited by suffixes (well-formed package-path tokens) -/
theorem parseDelimited_nocommas_sound_inv (B : Nat)
    (hitem : ∀ st x st1, Inv st → item st = .ok (x, st1) → Suf st1 st ∧ st1.toks.length < st.toks.length ∧
        (st.toks.length ≤ st1.toks.length + B → (er x, abs st1) ∈ p (abs st)))
    (fuel : Nat) (st : PState) (xs : List α) (st' : PState) (hst : Inv st)
    (h : parseDelimited stop false peeks item fuel st = .ok (xs, st')) :
    Suf st' st ∧ peekTok st' = some stop ∧ xs.length + st'.toks.length ≤ st.toks.length ∧
    (st.toks.length ≤ st'.toks.length + B → Many p (xs.map er) (abs st) (abs st')) := by
  induction fuel generalizing st xs st' with
  | zero => simp [parseDelimited] at h
  | succ fuel ih =>
    simp only [parseDelimited] at h
    split at h
    · rename_i hs
      cases h
      exact ⟨Suf.refl _, by simpa using hs, by simp, fun _ => .nil _⟩
    · split at h
      · cases h
      · split at h
        · cases h
        · rename_i x st1 hx
          obtain ⟨hs1, hl1, hm1⟩ := hitem _ _ _ hst hx
          split at h
          · rename_i next hn
            split at h
            · rename_i hstop
              cases h
              subst hstop
              refine ⟨hs1, hn, by simp; omega, fun hB => .cons (hm1 hB) (.nil _)⟩
            · simp only [Bool.false_eq_true, if_false] at h
              split at h
              · cases h
              · rename_i xs' st'' hrec
                cases h
                obtain ⟨hs2, hp2, hl2, hm2⟩ := ih _ _ _ (hInv _ _ hst hs1) hrec
                refine ⟨hs2.trans hs1, hp2, by simp; omega, fun hB => ?_⟩
                have hB1 : st.toks.length ≤ st1.toks.length + B := by
                  have := hs2.len; omega
                have hB2 : st1.toks.length ≤ st'.toks.length + B := by omega
                exact .cons (hm1 hB1) (hm2 hB2)
          · cases h

theorem parseDelimited_nocommas_complete_inv (hstop : isLit stop = true)
    (hitem : ∀ st a r1, Inv st → (a, r1) ∈ p (abs st) →
        ∃ x st1, item st = .ok (x, st1) ∧ er x = a ∧ abs st1 = r1 ∧ Suf st1 st ∧
          st1.toks.length < st.toks.length ∧ peekIn st peeks = true ∧ peekTok st ≠ some stop)
    {xs : List β} {ts r : List STok} (h : Many p xs ts r)
    (st : PState) (hst : Inv st) (hts : ts = abs st) (hr : r.head? = some (litTok stop)) (fuel : Nat)
    (hfuel : xs.length + 1 ≤ fuel ∨ st.toks.length + 1 ≤ fuel) :
    ∃ ys st', parseDelimited stop false peeks item fuel st = .ok (ys, st') ∧ ys.map er = xs ∧
      abs st' = r ∧ Suf st' st := by
  induction h generalizing st fuel with
  | nil =>
    subst hts
    obtain ⟨f, rfl⟩ : ∃ f, fuel = f + 1 := ⟨fuel - 1, by omega⟩
    exact ⟨[], st, parseDelimited_nil _ _ _ _ _ _ ((head_abs_lit hstop st).mp hr), rfl, rfl, Suf.refl _⟩
  | cons h1 hm ih =>
    subst hts
    obtain ⟨x, st1, hx, rfl, rfl, hs1, hl, hin, hns⟩ := hitem _ _ _ hst h1
    have hnis : peekIs st stop = false := (peekIs_false_iff _ _).mpr hns
    obtain ⟨f, rfl⟩ : ∃ f, fuel = f + 1 := ⟨fuel - 1, by omega⟩
    cases hm with
    | nil =>
      have hp1 : nextTok st1 = some stop := (head_abs_lit hstop st1).mp hr
      refine ⟨[x], st1, ?_, rfl, rfl, hs1⟩
      simp [parseDelimited, hnis, hin, hx, hp1]
    | cons h2 hm2 =>
      obtain ⟨_, _, _, _, _, _, _, hin1, hns1⟩ := hitem _ _ _ (hInv _ _ hst hs1) h2
      obtain ⟨k, hk, _⟩ := (peekIn_iff _ _).mp hin1
      have hkne : ¬ k = stop := fun h => hns1 (h ▸ hk)
      obtain ⟨ys, st', hrec, hys, hst', hs2⟩ := ih st1 (hInv _ _ hst hs1) rfl hr f (by simp at hfuel ⊢; omega)
      refine ⟨x :: ys, st', ?_, by simp [hys], hst', hs2.trans hs1⟩
      simp [parseDelimited, hnis, hin, hx, hk, hkne, hrec]
end DelimitedInv

end Wac.C12
