import WacProofs.Lemmas.PrinterTokOK
import WacProofs.Lemmas.PrinterLexRegex
/-
  C13: every token the lexer model returns has a text that is, on its own, a whole token of that
  kind (`tokenize_tokOK`).

  (1) truncation: the recognisers are greedy scanners, so cutting the input at (or after) the end
      of the match does not change the match (`Trunc`);
  (2) one step of `lexStep` (`lexStep_tokOK`);
  (3) the stream `lexAll` (`lexAll_tokOK`).
-/
namespace Wac.Lemmas.PrinterWF
open Wac Wac.Ast Wac.Lex Wac.Parse Wac.Lemmas.PrinterLex

/-! ### (1) truncation -/

/-- cutting the input at or after the end of the match does not change the match -/
def Trunc (m : Str → Nat) : Prop := ∀ s n, m s ≤ n → m (s.take n) = m s

theorem takeWhile_take (p : Char → Bool) (s : Str) :
    ∀ n, (s.takeWhile p).length ≤ n → (s.take n).takeWhile p = s.takeWhile p := by
  induction s with
  | nil => intro n _; simp
  | cons c r ih =>
    intro n h
    cases n with
    | zero =>
      simp only [List.takeWhile_cons] at h
      split at h
      · simp at h
      · rename_i hc; simp [hc]
    | succ n =>
      simp only [List.take_succ_cons, List.takeWhile_cons] at h ⊢
      split
      · rename_i hc
        simp only [hc, if_true, List.length_cons] at h
        rw [ih n (by omega)]
      · rfl

theorem trunc_run (p : Char → Bool) : Trunc (fun s => (s.takeWhile p).length) := by
  intro s n h
  simp only [] at h ⊢
  rw [takeWhile_take p s n h]

theorem trunc_semverRun : Trunc semverRun := trunc_run isSemverChar

theorem trunc_wordTailLen (u : Bool) : Trunc (wordTailLen u) := by
  intro s
  induction s with
  | nil => intro n _; simp
  | cons c r ih =>
    intro n h
    simp only [wordTailLen] at h
    cases hq : ((if u = true then isUpper c else isLower c) || isDigit c) with
    | false =>
      have h0 : wordTailLen u (c :: r) = 0 := by simp only [wordTailLen, hq]; rfl
      rw [h0]
      cases n with
      | zero => rfl
      | succ n => simp only [List.take_succ_cons, wordTailLen, hq]; rfl
    | true =>
      simp only [hq, if_true] at h
      cases n with
      | zero => omega
      | succ n =>
        simp only [List.take_succ_cons, wordTailLen, hq, if_true]
        rw [ih n (by omega)]

theorem trunc_wordLen : Trunc wordLen := by
  intro s n h
  cases s with
  | nil => simp
  | cons c r =>
    simp only [wordLen] at h
    cases hl : isLower c with
    | true =>
      simp only [hl, if_true] at h
      cases n with
      | zero => omega
      | succ n =>
        simp only [List.take_succ_cons, wordLen, hl, if_true]
        rw [trunc_wordTailLen false r n (by omega)]
    | false =>
      cases hu : isUpper c with
      | true =>
        simp only [hl, hu, if_true, Bool.false_eq_true, if_false] at h
        cases n with
        | zero => omega
        | succ n =>
          simp only [List.take_succ_cons, wordLen, hl, hu, if_true, Bool.false_eq_true, if_false]
          rw [trunc_wordTailLen true r n (by omega)]
      | false =>
        have h0 : wordLen (c :: r) = 0 := by simp only [wordLen, hl, hu]; rfl
        rw [h0]
        cases n with
        | zero => rfl
        | succ n => simp only [List.take_succ_cons, wordLen, hl, hu]; rfl

/-- the fuel of a separated-repetition scanner is irrelevant once it covers the input -/
theorem sepLen_fuel (sep : Char) (m : Str → Nat) (hm : ∀ s, m s ≤ s.length) (f f' : Nat) (a : Str)
    (h : a.length ≤ f) (h' : a.length ≤ f') : sepLen sep m f a = sepLen sep m f' a := by
  have := sepLen_append sep m [] hm (fun a => by rw [List.append_nil]) (fun f => sepLen_nil sep m f) f f' a h h'
  rwa [List.append_nil] at this

theorem trunc_sepLen (sep : Char) (m : Str → Nat) (hm : Trunc m) :
    ∀ f, Trunc (sepLen sep m f) := by
  intro f
  induction f with
  | zero => intro s n _; rfl
  | succ f ih =>
    intro s n h
    cases s with
    | nil => simp
    | cons c r =>
      cases n with
      | zero =>
        have h0 : sepLen sep m (f + 1) (c :: r) = 0 := by omega
        rw [h0]; rfl
      | succ n =>
        simp only [List.take_succ_cons, sepLen] at h ⊢
        split
        · rename_i hc
          simp only [hc, if_true] at h
          by_cases h0 : m r = 0
          · simp only [h0, if_true, hm r n (by omega)]
          · simp only [h0, if_false] at h
            have h1 : m (r.take n) = m r := hm r n (by omega)
            simp only [h1, h0, if_false, List.drop_take]
            rw [ih (r.drop (m r)) (n - m r) (by omega)]
        · rfl

/-- the shape in which the repetition scanners are called: on the rest of the input after `i`
characters, with the length of the whole input as fuel -/
theorem sepLen_take_drop (sep : Char) (m : Str → Nat) (hm : ∀ s, m s ≤ s.length) (ht : Trunc m)
    (s : Str) (i n : Nat) (h : i + sepLen sep m s.length (s.drop i) ≤ n) :
    sepLen sep m (s.take n).length ((s.take n).drop i) = sepLen sep m s.length (s.drop i) := by
  rw [List.drop_take,
    sepLen_fuel sep m hm (s.take n).length s.length _
      (by simp only [List.length_take, List.length_drop]; omega)
      (by simp only [List.length_take, List.length_drop]; omega)]
  exact trunc_sepLen sep m ht s.length (s.drop i) (n - i) (by omega)

theorem idCore_take (p : Nat) (s : Str) (n : Nat) (h : idCore p s ≤ p + n) :
    idCore p (s.take n) = idCore p s := by
  unfold idCore at h ⊢
  by_cases h0 : wordLen s = 0
  · simp only [h0, if_true, trunc_wordLen s n (by omega)]
  · simp only [h0, if_false] at h
    have h1 : wordLen (s.take n) = wordLen s := trunc_wordLen s n (by omega)
    rw [dashWordsLen_eq] at h ⊢
    simp only [h1, h0, if_false]
    rw [sepLen_take_drop '-' wordLen wordLen_le trunc_wordLen s (wordLen s) n (by omega)]

theorem trunc_idLen : Trunc idLen := by
  intro s n h
  cases s with
  | nil => simp
  | cons c r =>
    cases n with
    | zero =>
      have h0 : idLen (c :: r) = 0 := by omega
      rw [h0]; rfl
    | succ n =>
      by_cases hc : c = '%'
      · subst hc
        rw [idLen_pct] at h
        rw [List.take_succ_cons, idLen_pct, idLen_pct, idCore_take 1 r n (by omega)]
      · rw [idLen_cons c r hc] at h
        rw [List.take_succ_cons, idLen_cons c _ hc, idLen_cons c r hc, ← List.take_succ_cons,
          idCore_take 0 (c :: r) (n + 1) (by omega)]

/-- for a composite recogniser that can fail after a partial match only the non-zero case is
(easily) true -/
theorem packageNameLen_take (s : Str) (n : Nat) (h0 : packageNameLen s ≠ 0) (h : packageNameLen s ≤ n) :
    packageNameLen (s.take n) = packageNameLen s := by
  unfold packageNameLen at h0 h ⊢
  by_cases hi : idLen s = 0
  · simp only [hi, if_true] at h0; exact absurd rfl h0
  · simp only [hi, if_false] at h0 h
    by_cases hm : colonIdsLen s.length (s.drop (idLen s)) = 0
    · simp only [hm, if_true] at h0; exact absurd rfl h0
    · simp only [hm, if_false] at h
      have h1 : idLen (s.take n) = idLen s := trunc_idLen s n (by omega)
      rw [colonIdsLen_eq] at h hm ⊢
      simp only [h1, hi, if_false]
      rw [sepLen_take_drop ':' idLen idLen_le trunc_idLen s (idLen s) n (by omega)]

theorem trunc_semverLen : Trunc semverLen := by
  intro s n h
  unfold semverLen at h ⊢
  by_cases hd : (s.takeWhile isDigit).length = 0
  · simp only [hd, if_true, trunc_run isDigit s n (by simp only []; omega)]
  · simp only [hd, if_false] at h
    have h1 : ((s.take n).takeWhile isDigit).length = (s.takeWhile isDigit).length :=
      trunc_run isDigit s n (by simp only []; omega)
    rw [dotChunksLen_eq] at h ⊢
    simp only [h1, hd, if_false]
    rw [sepLen_take_drop '.' semverRun semverRun_le trunc_semverRun s _ n (by omega)]

theorem trunc_atVersionLen : Trunc atVersionLen := by
  intro s n h
  cases s with
  | nil => simp
  | cons c r =>
    cases n with
    | zero =>
      have h0 : atVersionLen (c :: r) = 0 := by omega
      rw [h0]; rfl
    | succ n =>
      by_cases hc : c = '@'
      · subst hc
        rw [atVersionLen_at] at h
        rw [List.take_succ_cons, atVersionLen_at, atVersionLen_at]
        by_cases h0 : semverLen r = 0
        · simp only [h0, if_true, trunc_semverLen r n (by omega)]
        · simp only [h0, if_false] at h
          rw [trunc_semverLen r n (by omega)]
      · rw [List.take_succ_cons, atVersionLen_cons_ne c _ hc, atVersionLen_cons_ne c r hc]

theorem packageNameTokLen_take (s : Str) (n : Nat) (h0 : packageNameTokLen s ≠ 0)
    (h : packageNameTokLen s ≤ n) : packageNameTokLen (s.take n) = packageNameTokLen s := by
  have hn := packageNameTokLen_ne_zero h0
  unfold packageNameTokLen at h ⊢
  simp only [hn, if_false] at h
  have h1 : packageNameLen (s.take n) = packageNameLen s := packageNameLen_take s n hn (by omega)
  simp only [h1, hn, if_false, List.drop_take]
  rw [trunc_atVersionLen _ _ (by omega)]

theorem packagePathTokLen_take (s : Str) (n : Nat) (h0 : packagePathTokLen s ≠ 0)
    (h : packagePathTokLen s ≤ n) : packagePathTokLen (s.take n) = packagePathTokLen s := by
  have hn := packagePathTokLen_ne_zero h0
  unfold packagePathTokLen at h0 h ⊢
  simp only [hn, if_false] at h0 h
  by_cases hm : slashIdsLen s.length (s.drop (packageNameLen s)) = 0
  · simp only [hm, if_true] at h0; exact absurd rfl h0
  · simp only [hm, if_false] at h
    have h1 : packageNameLen (s.take n) = packageNameLen s := packageNameLen_take s n hn (by omega)
    rw [slashIdsLen_eq] at h hm ⊢
    simp only [h1, hn, if_false]
    rw [sepLen_take_drop '/' idLen idLen_le trunc_idLen s (packageNameLen s) n (by omega)]
    simp only [hm, if_false, List.drop_take]
    rw [trunc_atVersionLen _ _ (by omega)]

/-! ### (2) one step -/

/-- the kinds of token whose text `TokOK` constrains -/
def regexKind (k : Token) : Bool := k == .Ident || k == .String || k == .PackageName || k == .PackagePath

theorem tokOK_of_not_regexKind (k : Token) (h : regexKind k = false) (sp : Span) (text : Str)
    (docs : List DocComment) : TokOK ⟨.ok k, sp, text, docs⟩ := by
  cases k <;> first | trivial | (exact absurd h (by decide))

theorem tokOK_error (e : LexError) (sp : Span) (text : Str) (docs : List DocComment) :
    TokOK ⟨.error e, sp, text, docs⟩ := trivial

theorem keywordTable_kinds : ∀ e ∈ keywordTableExplicit, regexKind e.2 = false := by decide
theorem symbolTable_kinds : ∀ e ∈ symbolTableExplicit, regexKind e.2 = false := by decide

theorem lookupKeyword_kind {s : Str} {k : Token} (h : lookupKeyword s = some k) : regexKind k = false := by
  unfold lookupKeyword at h
  rw [keywordTable_eq] at h
  cases hf : keywordTableExplicit.find? (·.1 == s) with
  | none => rw [hf] at h; cases h
  | some e =>
    rw [hf] at h
    simp only [Option.map_some, Option.some.injEq] at h
    rw [← h]
    exact keywordTable_kinds e (List.mem_of_find?_eq_some hf)

theorem foldl_symbol_mem (s : Str) (tbl : List (Str × Token)) :
    ∀ (init : Option (Token × Nat)) (t : Token) (n : Nat),
      tbl.foldl (fun best (e : Str × Token) =>
        if e.1.isPrefixOf s && e.1.length > (best.map (·.2)).getD 0 then some (e.2, e.1.length) else best) init
        = some (t, n) →
      init = some (t, n) ∨ ∃ e ∈ tbl, e.2 = t := by
  induction tbl with
  | nil => intro init t n h; exact Or.inl h
  | cons e tbl ih =>
    intro init t n h
    rw [List.foldl_cons] at h
    rcases ih _ t n h with h1 | ⟨e', he', h2⟩
    · split at h1
      · simp only [Option.some.injEq, Prod.mk.injEq] at h1
        exact Or.inr ⟨e, List.mem_cons_self, h1.1⟩
      · exact Or.inl h1
    · exact Or.inr ⟨e', List.mem_cons_of_mem _ he', h2⟩

theorem matchSymbol_kind {s : Str} {t : Token} {n : Nat} (h : matchSymbol s = some (t, n)) :
    regexKind t = false := by
  unfold matchSymbol at h
  rw [symbolTable_eq] at h
  rcases foldl_symbol_mem s symbolTableExplicit none t n h with h1 | ⟨e, he, h2⟩
  · cases h1
  · rw [← h2]; exact symbolTable_kinds e he

theorem take_ne_nil {s : Str} {n : Nat} (h0 : n ≠ 0) (h : n ≤ s.length) : s.take n ≠ [] := by
  intro he
  have := List.length_take_of_le h
  rw [he] at this
  simp only [List.length_nil] at this
  omega

theorem takeWhile_quote_contains (r : Str) : (r.takeWhile (· != '"')).contains '"' = false := by
  induction r with
  | nil => rfl
  | cons c r ih =>
    simp only [List.takeWhile_cons]
    split
    · rename_i hc
      simp only [bne_iff_ne, ne_eq] at hc
      simp only [List.contains_cons, ih, Bool.or_false, beq_eq_false_iff_ne, ne_eq]
      exact fun h => hc h.symm
    · rfl

theorem take_takeWhile_quote (r : Str) (h : (r.takeWhile (· != '"')).length < r.length) :
    r.take ((r.takeWhile (· != '"')).length + 1) = r.takeWhile (· != '"') ++ ['"'] := by
  induction r with
  | nil => simp at h
  | cons c r ih =>
    simp only [List.takeWhile_cons] at h ⊢
    split
    · rename_i hc
      simp only [hc, if_true, List.length_cons, Nat.add_lt_add_iff_right] at h
      simp only [List.length_cons, List.take_succ_cons, List.cons_append, ih h]
    · rename_i hc
      simp only [bne_iff_ne, ne_eq, Decidable.not_not] at hc
      subst hc
      rfl

/-- the regex / keyword / symbol branch of `lexStep` -/
theorem lexRegex_tokOK (s : Str) (res : Except LexError Token) (n : Nat) (h : lexRegex s = .tok res n)
    (sp : Span) (docs : List DocComment) :
    TokOK ⟨res, sp, s.take (if n = 0 then 1 else n), docs⟩ := by
  unfold lexRegex at h
  simp only [] at h
  by_cases hpp : packagePathTokLen s > 0
  · simp only [hpp, if_true] at h
    cases h
    have hle := packagePathTokLen_le s
    have hne : packagePathTokLen s ≠ 0 := by omega
    simp only [hne, if_false]
    show _ ∧ _
    refine ⟨take_ne_nil hne hle, ?_⟩
    rw [packagePathTokLen_take s _ hne (Nat.le_refl _), List.length_take_of_le hle]
  · simp only [hpp, if_false] at h
    by_cases hpn : packageNameTokLen s > 0
    · simp only [hpn, if_true] at h
      cases h
      have hle := packageNameTokLen_le s
      have hne : packageNameTokLen s ≠ 0 := by omega
      simp only [hne, if_false]
      show _ ∧ _
      refine ⟨take_ne_nil hne hle, ?_⟩
      rw [packageNameTokLen_take s _ hne (Nat.le_refl _), List.length_take_of_le hle]
    · simp only [hpn, if_false] at h
      by_cases hid : idLen s > 0
      · simp only [hid, if_true] at h
        cases hk : lookupKeyword (s.take (idLen s)) with
        | some kw =>
          simp only [hk] at h
          cases h
          exact tokOK_of_not_regexKind kw (lookupKeyword_kind hk) _ _ _
        | none =>
          simp only [hk] at h
          cases h
          have hle := idLen_le s
          have hne : idLen s ≠ 0 := by omega
          simp only [hne, if_false]
          show _ ∧ _ ∧ _
          refine ⟨take_ne_nil hne hle, ?_, hk⟩
          rw [trunc_idLen s _ (Nat.le_refl _), List.length_take_of_le hle]
      · simp only [hid, if_false] at h
        cases hm : matchSymbol s with
        | some tn =>
          obtain ⟨t, m⟩ := tn
          simp only [hm] at h
          cases h
          exact tokOK_of_not_regexKind t (matchSymbol_kind hm) _ _ _
        | none =>
          simp only [hm] at h
          cases h
          exact tokOK_error _ _ _ _

theorem lexStep_slash (r : Str) : lexStep ('/' :: r) =
    if r.head? == some '/' then .skip (('/' :: r).takeWhile (· != '\n')).length
    else if r.head? == some '*' then
      (match skipBlock 0 (r.drop 1) with
      | some rest => .skip (('/' :: r).length - rest.length)
      | none => .tok (.error .UnterminatedComment) ('/' :: r).length)
    else lexRegex ('/' :: r) := by
  unfold lexStep lexRegex
  simp only [(by decide : isSkipChar '/' = false), (by decide : ('/' == '"') = false),
    beq_self_eq_true, Bool.true_and, Bool.false_eq_true, if_false]
  rfl

/-- the text `lexAll` stores for a token returned by `lexStep` is a whole token of its kind -/
theorem lexStep_tokOK (s : Str) (res : Except LexError Token) (n : Nat) (h : lexStep s = .tok res n)
    (sp : Span) (docs : List DocComment) :
    TokOK ⟨res, sp, s.take (if n = 0 then 1 else n), docs⟩ := by
  cases s with
  | nil => unfold lexStep at h; cases h
  | cons c r =>
    by_cases h1 : isSkipChar c = true
    · unfold lexStep at h; simp only [h1, if_true] at h; cases h
    · by_cases h2 : c = '/'
      · subst h2
        rw [lexStep_slash] at h
        split at h
        · cases h
        · split at h
          · split at h
            · cases h
            · cases h; exact tokOK_error _ _ _ _
          · exact lexRegex_tokOK _ res n h sp docs
      · by_cases h3 : c = '"'
        · subst h3
          unfold lexStep at h
          simp only [h1, if_false, (by decide : ('"' == '/') = false), Bool.false_and,
            Bool.false_eq_true, beq_self_eq_true, if_true] at h
          split at h
          · rename_i hlt
            cases h
            rw [if_neg (by omega)]
            show ∃ v : Str, _ ∧ _
            refine ⟨r.takeWhile (· != '"'), ?_, takeWhile_quote_contains r⟩
            rw [show (r.takeWhile (· != '"')).length + 2 = ((r.takeWhile (· != '"')).length + 1) + 1 from rfl,
              List.take_succ_cons, take_takeWhile_quote r hlt]
          · cases h; exact tokOK_error _ _ _ _
        · rw [lexStep_eq_lexRegex c r (by simpa using h1) h2 h3] at h
          exact lexRegex_tokOK _ res n h sp docs

/-! ### (3) the stream -/

theorem lexAll_tokOK : ∀ (fuel pos : Nat) (s : Str) (prevPos : Nat) (prev : Str),
    ∀ t ∈ lexAll fuel pos s prevPos prev, TokOK t := by
  intro fuel
  induction fuel with
  | zero => intro pos s pp prev t ht; simp [lexAll] at ht
  | succ fuel ih =>
    intro pos s pp prev t ht
    unfold lexAll at ht
    cases hs : lexStep s with
    | eof => simp only [hs] at ht; cases ht
    | skip n => simp only [hs] at ht; exact ih _ _ _ _ t ht
    | tok res n =>
      simp only [hs, List.mem_cons] at ht
      rcases ht with rfl | ht
      · exact lexStep_tokOK s res n hs _ _
      · exact ih _ _ _ _ t ht

/-- every token of the token stream of a source text is a whole token of its kind -/
theorem tokenize_tokOK (src : Str) : ∀ t ∈ tokenize src, TokOK t :=
  lexAll_tokOK _ _ _ _ _

theorem init_toksOK (src : Str) : ToksOK (PState.init src) := tokenize_tokOK src

end Wac.Lemmas.PrinterWF
