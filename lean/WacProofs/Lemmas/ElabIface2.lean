import WacProofs.Lemmas.ElabUse
/-
  C05 `elab_denotes`, part 10: interface bodies with *all* kinds of items: `use`, value-type
  declarations, `resource` declarations, functions.
-/
namespace Wac.Elab
open Wac Wac.Spec.Wit Wac.Decode

variable {ρ : Nat → Res}

/-- one item of `interface_items` -/
def ifaceStep (st : St) (i : Item) (itf : Interface) : M (St × Interface) :=
  match i with
  | .use path items =>
    match useType st path items itf.uses itf.exports with
    | .ok (st, uses, exports) => .ok (st, { itf with uses := uses, exports := exports })
    | .error e => .error e
  | .func n sg =>
    match funcType st sg.params sg.result .free none with
    | .ok (st, f) =>
      if (alGet itf.exports n).isSome then .error "DuplicateInterfaceExport"
      else .ok (st, { itf with exports := alInsert itf.exports n (.func f) })
    | .error e => .error e
  | decl =>
    match itemTypeDecl st decl itf.exports with
    | .ok (st, exports) => .ok (st, { itf with exports := exports })
    | .error e => .error e

theorem interfaceItems_cons (st : St) (i : Item) (r : List Item) (itf : Interface) :
    interfaceItems st (i :: r) itf =
      match ifaceStep st i itf with
      | .ok (st1, itf1) => interfaceItems st1 r itf1
      | .error e => .error e := by
  cases i with
  | use path items =>
    simp only [interfaceItems, ifaceStep]
    rcases useType st path items itf.uses itf.exports with _ | ⟨st2, u, e⟩ <;> rfl
  | func n sg =>
    simp only [interfaceItems, ifaceStep]
    rcases funcType st sg.params sg.result .free none with _ | ⟨st2, f⟩
    · rfl
    · simp only
      split <;> rfl
  | record n fs =>
    simp only [interfaceItems, ifaceStep]
    rcases itemTypeDecl st (.record n fs) itf.exports with _ | ⟨st2, e⟩ <;> rfl
  | variant n fs =>
    simp only [interfaceItems, ifaceStep]
    rcases itemTypeDecl st (.variant n fs) itf.exports with _ | ⟨st2, e⟩ <;> rfl
  | enum n fs =>
    simp only [interfaceItems, ifaceStep]
    rcases itemTypeDecl st (.enum n fs) itf.exports with _ | ⟨st2, e⟩ <;> rfl
  | flags n fs =>
    simp only [interfaceItems, ifaceStep]
    rcases itemTypeDecl st (.flags n fs) itf.exports with _ | ⟨st2, e⟩ <;> rfl
  | alias n fs =>
    simp only [interfaceItems, ifaceStep]
    rcases itemTypeDecl st (.alias n fs) itf.exports with _ | ⟨st2, e⟩ <;> rfl
  | resource n fs =>
    simp only [interfaceItems, ifaceStep]
    rcases itemTypeDecl st (.resource n fs) itf.exports with _ | ⟨st2, e⟩ <;> rfl

/-- the value-type declarations do not declare resources -/
theorem denoteItem_next_value {container : Str} {ifaces : List (Str × List (Str × Tree))} {s s' : Scope} {i : Item}
    {out : List (Str × Tree)} (hvd : isValueDecl i = true) (h : denoteItem container ifaces s i = some (s', out)) :
    s'.next = s.next := by
  cases i with
  | record n fs =>
    simp only [denoteItem] at h
    obtain ⟨_, _, h2⟩ := Option.map_eq_some_iff.mp h
    cases h2; rfl
  | variant n cs =>
    simp only [denoteItem] at h
    obtain ⟨_, _, h2⟩ := Option.map_eq_some_iff.mp h
    cases h2; rfl
  | enum n cs => simp only [denoteItem] at h; cases h; rfl
  | flags n cs => simp only [denoteItem] at h; cases h; rfl
  | alias n t =>
    cases t with
    | id m =>
      simp only [denoteItem] at h
      split at h <;> cases h <;> rfl
    | prim p => simp only [denoteItem] at h; obtain ⟨_, _, h2⟩ := Option.map_eq_some_iff.mp h; cases h2; rfl
    | list t1 => simp only [denoteItem] at h; obtain ⟨_, _, h2⟩ := Option.map_eq_some_iff.mp h; cases h2; rfl
    | option t1 => simp only [denoteItem] at h; obtain ⟨_, _, h2⟩ := Option.map_eq_some_iff.mp h; cases h2; rfl
    | result a b => simp only [denoteItem] at h; obtain ⟨_, _, h2⟩ := Option.map_eq_some_iff.mp h; cases h2; rfl
    | tuple ts => simp only [denoteItem] at h; obtain ⟨_, _, h2⟩ := Option.map_eq_some_iff.mp h; cases h2; rfl
    | borrow m => simp only [denoteItem] at h; obtain ⟨_, _, h2⟩ := Option.map_eq_some_iff.mp h; cases h2; rfl
  | use _ _ => simp [isValueDecl] at hvd
  | resource _ _ => simp [isValueDecl] at hvd
  | func _ _ => simp [isValueDecl] at hvd

/-- what one item guarantees -/
def ItemStep (st st1 : St) (itf itf1 : Interface) (i : Item) : Prop :=
  Grow st.types st1.types ∧ st1.root = st.root ∧ itf1.id = itf.id ∧
  ∀ (container : Str) (ifaces : List (Str × List (Str × Tree))) (s s1 : Scope) (out : List (Str × Tree)),
    denoteItem container ifaces s i = some (s1, out) →
    ∃ newR : List Nat, s1.next = s.next + newR.length ∧ newR.Pairwise (· < ·) ∧
      (∀ x ∈ newR, st.types.resources.length ≤ x ∧ x < st1.types.resources.length) ∧
      ∀ (ρ : Nat → Res) (RL : List Nat) (acc : List (Str × Tree)), RL.length = s.next →
        ConsE ρ (RL ++ newR) st1.types →
        RootSim ρ st.types st.root ifaces → Sim ρ st.types st.scope s.binds →
        ExpRel ρ st.types itf.exports acc → ((acc ++ out).map (·.1)).Nodup →
        Sim ρ st1.types st1.scope s1.binds ∧ ExpRel ρ st1.types itf1.exports (acc ++ out)

theorem ifaceStep_ok {st st1 : St} {itf itf1 : Interface} {i : Item}
    (h : ifaceStep st i itf = .ok (st1, itf1)) : ItemStep st st1 itf itf1 i := by
  have valueCase : ∀ (hvd : isValueDecl i = true) (exports : List (Str × ItemKind)),
      itemTypeDecl st i itf.exports = .ok (st1, exports) → itf1 = { itf with exports := exports } →
      ItemStep st st1 itf itf1 i := by
    intro hvd exports hd hitf
    subst hitf
    have F := fun (ρ : Nat → Res) => itemTypeDecl_ok (ρ := ρ) hvd hd
    have g1 := (F (fun _ => default)).1
    refine ⟨g1, (F (fun _ => default)).2.1, rfl, ?_⟩
    intro container ifaces s s1 out hden
    refine ⟨[], by simp [denoteItem_next_value hvd hden], List.Pairwise.nil, by simp, ?_⟩
    intro ρ RL acc _ _ _ hsim hexp hnd
    have k1 := (F ρ).2.2
    have hfresh : ∀ x ∈ out, alGet itf.exports x.1 = none := by
      intro x hx
      apply alGet_none_of_not_mem
      rw [hexp.names]
      intro hm
      simp only [List.map_append] at hnd
      rw [List.nodup_append] at hnd
      exact hnd.2.2 _ hm _ (List.mem_map_of_mem hx) rfl
    have hk := k1 container ifaces s s1 out hsim hden hfresh
    obtain ⟨ks, hks, hexpks⟩ := hk.exp
    refine ⟨hk.sim, ?_⟩
    show ExpRel ρ st1.types exports (acc ++ out)
    rw [hks]
    exact All2.append2 (hexp.mono g1) hexpks
  cases i with
  | use path items =>
    simp only [ifaceStep] at h
    split at h
    · rename_i st2 uses exports hu
      cases h
      have F := fun (ρ : Nat → Res) => useType_ok (ρ := ρ) hu
      have ht := (F (fun _ => default)).1
      have hr := (F (fun _ => default)).2.1
      refine ⟨by rw [ht]; exact Grow.refl _, hr, rfl, ?_⟩
      intro container ifaces s s1 out hden
      refine ⟨[], ?_, List.Pairwise.nil, by simp, ?_⟩
      · -- `use` declares no resource: read off `useType_ok` under trivial hypotheses is not possible;
        -- the specification fold keeps `next`
        simp only [denoteItem] at hden
        split at hden
        · cases hden
        · rename_i ex hex
          have key : ∀ (its : List (Str × Option Str)) (a b : Scope × List (Str × Tree)),
              its.foldlM (useStep ex) a = some b → b.1.next = a.1.next := by
            intro its
            induction its with
            | nil => intro a b hh; simp only [List.foldlM_nil, Option.pure_def, Option.some.injEq] at hh; rw [hh]
            | cons x xs ihx =>
              intro a b hh
              simp only [List.foldlM_cons, Option.bind_eq_bind] at hh
              obtain ⟨c, hc, hcb⟩ := Option.bind_eq_some_iff.mp hh
              rw [ihx c b hcb]
              unfold useStep at hc
              split at hc <;> first | (cases hc; rfl) | cases hc
          have := key items (s, []) (s1, out) hden
          simpa using this
      · intro ρ RL acc _ _ hrs hsim hexp _
        obtain ⟨h1, h2, _⟩ := (F ρ).2.2 container ifaces s s1 out acc hrs hsim hexp hden
        exact ⟨h1, h2⟩
    · cases h
  | func n sg =>
    simp only [ifaceStep] at h
    split at h
    · rename_i st2 f hf
      split at h
      · cases h
      · rename_i hfreshE
        cases h
        have F := fun (ρ : Nat → Res) => funcType_ok (ρ := ρ) hf
        obtain ⟨g1, sc1, rt1, _⟩ := F (fun _ => default)
        refine ⟨g1, rt1, rfl, ?_⟩
        intro container ifaces s s1 out hden
        simp only [denoteItem] at hden
        obtain ⟨t, ht, hso⟩ := Option.map_eq_some_iff.mp hden
        cases hso
        refine ⟨[], by simp, List.Pairwise.nil, by simp, ?_⟩
        intro ρ RL acc _ _ _ hsim hexp _
        have hfr := (F ρ).2.2.2 s hsim [] none t rfl (ForcedOk_free _ _ _) ht
        have hins : alInsert itf.exports n (.func f) = itf.exports ++ [(n, .func f)] :=
          alInsert_fresh _ _ _ (alGet_none_not_mem _ _ (by simpa using hfreshE))
        refine ⟨by rw [sc1]; exact hsim.mono g1, ?_⟩
        show ExpRel ρ st1.types (alInsert itf.exports n (.func f)) (acc ++ [(n, t)])
        rw [hins]
        exact All2.append (hexp.mono g1) ⟨rfl, HK_func hfr, fun _ hk => by cases hk⟩
    · cases h
  | resource n items =>
    simp only [ifaceStep, itemTypeDecl] at h
    split at h
    · rename_i st2 exports hd
      cases h
      have F := fun (ρ : Nat → Res) => resourceDecl_ok (ρ := ρ) hd
      obtain ⟨g1, rt1, hlen, k0⟩ := F (fun _ => default)
      refine ⟨g1, rt1, rfl, ?_⟩
      intro container ifaces s s1 out hden
      obtain ⟨hnext, _⟩ := k0 container ifaces s s1 out hden
      refine ⟨[st.types.resources.length], by simp [hnext], List.pairwise_singleton _ _,
        by intro x hx; simp at hx; subst hx; exact ⟨Nat.le_refl _, hlen⟩, ?_⟩
      intro ρ RL acc hRL hcons _ hsim hexp hnd
      exact ((F ρ).2.2.2 container ifaces s s1 out hden).2 RL hRL hcons hsim acc hexp hnd
    · cases h
  | record n fs =>
    simp only [ifaceStep] at h
    split at h
    · rename_i st2 exports hd
      cases h
      exact valueCase rfl exports hd rfl
    · cases h
  | variant n fs =>
    simp only [ifaceStep] at h
    split at h
    · rename_i st2 exports hd
      cases h
      exact valueCase rfl exports hd rfl
    · cases h
  | enum n fs =>
    simp only [ifaceStep] at h
    split at h
    · rename_i st2 exports hd
      cases h
      exact valueCase rfl exports hd rfl
    · cases h
  | flags n fs =>
    simp only [ifaceStep] at h
    split at h
    · rename_i st2 exports hd
      cases h
      exact valueCase rfl exports hd rfl
    · cases h
  | alias n fs =>
    simp only [ifaceStep] at h
    split at h
    · rename_i st2 exports hd
      cases h
      exact valueCase rfl exports hd rfl
    · cases h

end Wac.Elab
