import WacModel.Spec.GraphAbs
import WacProofs.Lemmas.GraphInvDetach
import WacProofs.Lemmas.GraphNoPanic
/-
  C06 refinement, basic facts: the edge-derived components of `abs` as membership statements
  about the edge list of a consistent graph, extensionality of `abs`, the allocator's choice.
-/
namespace Wac.Graph
open Wac Wac.HashSites

/-! ### `upd` -/

theorem upd_self {κ β : Type} [DecidableEq κ] (f : κ → β) (k : κ) (v : β) : upd f k v k = v := by
  simp [upd]

theorem upd_other {κ β : Type} [DecidableEq κ] (f : κ → β) {k x : κ} (v : β) (h : x ≠ k) : upd f k v x = f x := by
  simp [upd, h]

/-! ### argument edges -/

theorem argOfE_cons (e : Edge) (r : List Edge) (i k : Nat) :
    argOfE (e :: r) i k = if e.dst = i ∧ e.kind = .arg k then some e.src else argOfE r i k := rfl

theorem aliasOfE_cons_alias {e : Edge} {j : Nat} (hk : e.kind = .alias j) (r : List Edge) (t : Nat) :
    aliasOfE (e :: r) t = if e.dst = t then some (e.src, j) else aliasOfE r t := by
  rw [aliasOfE]; simp only [hk]

theorem aliasOfE_cons_nonalias {e : Edge} (hk : e.kind.isAlias = false) (r : List Edge) (t : Nat) :
    aliasOfE (e :: r) t = aliasOfE r t := by
  rw [aliasOfE]
  cases hq : e.kind with
  | alias j => rw [hq] at hk; cases hk
  | arg j => rfl
  | dep => rfl

theorem argOfE_mem : ∀ {es : List Edge} {i k s : Nat}, argOfE es i k = some s → (⟨s, i, .arg k⟩ : Edge) ∈ es
  | [], _, _, _, h => by simp [argOfE] at h
  | e :: r, i, k, s, h => by
    unfold argOfE at h
    split at h
    · rename_i hc
      simp only [Option.some.injEq] at h
      have : e = ⟨s, i, .arg k⟩ := by
        cases e; simp only at hc h; obtain ⟨h1, h2⟩ := hc; subst h1; subst h2; subst h; rfl
      rw [this]; exact List.mem_cons_self ..
    · exact List.mem_cons_of_mem _ (argOfE_mem h)

theorem argOfE_none : ∀ {es : List Edge} {i k : Nat}, argOfE es i k = none →
    ∀ e ∈ es, ¬ (e.dst = i ∧ e.kind = .arg k)
  | [], _, _, _, _, he => by cases he
  | e :: r, i, k, h, e', he' => by
    unfold argOfE at h
    split at h
    · cases h
    · rename_i hc
      rcases List.mem_cons.mp he' with rfl | he'
      · exact hc
      · exact argOfE_none h e' he'

theorem argOfE_iff {es : List Edge} (nd : (es.filterMap Edge.argKey).Nodup) {i k s : Nat} :
    argOfE es i k = some s ↔ (⟨s, i, .arg k⟩ : Edge) ∈ es := by
  refine ⟨argOfE_mem, fun hm => ?_⟩
  cases hq : argOfE es i k with
  | none => exact absurd ⟨rfl, rfl⟩ (argOfE_none hq _ hm)
  | some s' =>
    have hm' := argOfE_mem hq
    have := argKey_inj nd hm hm' (k := (i, k)) rfl rfl
    cases this; rfl

theorem argOfE_isSome {es : List Edge} {i k : Nat} :
    (argOfE es i k).isSome = true ↔ ∃ e ∈ es, e.dst = i ∧ e.kind = .arg k := by
  constructor
  · intro h
    cases hq : argOfE es i k with
    | none => rw [hq] at h; cases h
    | some s => exact ⟨_, argOfE_mem hq, rfl, rfl⟩
  · rintro ⟨e, he, hc⟩
    cases hq : argOfE es i k with
    | none => exact absurd hc (argOfE_none hq e he)
    | some s => rfl

/-- edges that are not argument edges are invisible to `argOfE` -/
theorem argOfE_append_nonarg {ds es : List Edge} (h : ∀ e ∈ ds, e.kind.isArg = false) (i k : Nat) :
    argOfE (ds ++ es) i k = argOfE es i k := by
  induction ds with
  | nil => rfl
  | cons d r ih =>
    have hd := h d (List.mem_cons_self ..)
    simp only [List.cons_append]
    have : ¬ (d.dst = i ∧ d.kind = .arg k) := by
      rintro ⟨_, hk⟩; rw [hk] at hd; cases hd
    rw [argOfE_cons, if_neg this]
    exact ih (fun e he => h e (List.mem_cons_of_mem _ he))

/-! ### alias edges -/

theorem aliasOfE_mem : ∀ {es : List Edge} {t s j : Nat}, aliasOfE es t = some (s, j) →
    (⟨s, t, .alias j⟩ : Edge) ∈ es
  | [], _, _, _, h => by simp [aliasOfE] at h
  | e :: r, t, s, j, h => by
    unfold aliasOfE at h
    split at h
    · rename_i j' hk
      split at h
      · rename_i hd
        simp only [Option.some.injEq, Prod.mk.injEq] at h
        have : e = ⟨s, t, .alias j⟩ := by
          cases e; simp only at hk hd h; obtain ⟨h1, h2⟩ := h; subst h1; subst h2; subst hd; subst hk; rfl
        rw [this]; exact List.mem_cons_self ..
      · exact List.mem_cons_of_mem _ (aliasOfE_mem h)
    · exact List.mem_cons_of_mem _ (aliasOfE_mem h)

theorem aliasOfE_none : ∀ {es : List Edge} {t : Nat}, aliasOfE es t = none →
    ∀ e ∈ es, e.dst = t → e.kind.isAlias = false
  | [], _, _, _, he, _ => by cases he
  | e :: r, t, h, e', he', hd' => by
    unfold aliasOfE at h
    split at h
    · rename_i j hk
      split at h
      · cases h
      · rename_i hd
        rcases List.mem_cons.mp he' with rfl | he'
        · exact absurd hd' hd
        · exact aliasOfE_none h e' he' hd'
    · rename_i hk
      rcases List.mem_cons.mp he' with rfl | he'
      · cases hkk : e'.kind with
        | alias j => exact absurd hkk (hk j)
        | arg j => rfl
        | dep => rfl
      · exact aliasOfE_none h e' he' hd'

/-- on a consistent graph an alias node has one incoming edge: any two edges into the target of
    an alias edge coincide -/
theorem Inv.aliasIn_unique {ctx : Ctx} {g : Graph} (h : Inv ctx g) {e e' : Edge} (he : e ∈ g.edges)
    (he' : e' ∈ g.edges) (hk : e.kind.isAlias = true) (hd : e'.dst = e.dst) : e' = e := by
  obtain ⟨s, _, d, hdn, hkk⟩ := h.edges e he
  rw [Option.mem_def] at hdn
  cases hek : e.kind with
  | alias j =>
    rw [hek] at hkk
    simp only at hkk
    have hal : d.kind = .alias := by
      have := hkk.1
      unfold Node.isAlias at this
      cases hq : d.kind <;> simp [hq] at this ⊢
    have h2 := (h.node hdn).2.1
    rw [hal] at h2
    simp only at h2
    obtain ⟨e0, hl⟩ := List.length_eq_one_iff.mp h2
    have m1 : e ∈ g.inEdges e.dst := by
      unfold Graph.inEdges; rw [List.mem_filter]; exact ⟨he, by simp⟩
    have m2 : e' ∈ g.inEdges e.dst := by
      unfold Graph.inEdges; rw [List.mem_filter]; exact ⟨he', by simp [hd]⟩
    rw [hl] at m1 m2
    simp only [List.mem_cons, List.not_mem_nil, or_false] at m1 m2
    rw [m1, m2]
  | arg j => rw [hek] at hk; cases hk
  | dep => rw [hek] at hk; cases hk

theorem Inv.aliasOfE_iff {ctx : Ctx} {g : Graph} (h : Inv ctx g) {t s j : Nat} :
    aliasOfE g.edges t = some (s, j) ↔ (⟨s, t, .alias j⟩ : Edge) ∈ g.edges := by
  refine ⟨aliasOfE_mem, fun hm => ?_⟩
  cases hq : aliasOfE g.edges t with
  | none => exact absurd (aliasOfE_none hq _ hm rfl) (by simp [EdgeKind.isAlias])
  | some p =>
    obtain ⟨s', j'⟩ := p
    have hm' := aliasOfE_mem hq
    have := h.aliasIn_unique hm hm' rfl rfl
    cases this; rfl

/-- edges that are not alias edges are invisible to `aliasOfE` -/
theorem aliasOfE_append_nonalias {ds es : List Edge} (h : ∀ e ∈ ds, e.kind.isAlias = false) (t : Nat) :
    aliasOfE (ds ++ es) t = aliasOfE es t := by
  induction ds with
  | nil => rfl
  | cons d r ih =>
    have hd := h d (List.mem_cons_self ..)
    simp only [List.cons_append]
    rw [aliasOfE_cons_nonalias hd]
    exact ih (fun e he => h e (List.mem_cons_of_mem _ he))

/-! ### dependency edges -/

theorem hasDep_iff {g : Graph} {a b : Nat} : g.hasDep a b = true ↔ (⟨a, b, .dep⟩ : Edge) ∈ g.edges := by
  unfold Graph.hasDep
  rw [List.any_eq_true]
  constructor
  · rintro ⟨e, he, hc⟩
    simp only [Bool.and_eq_true, beq_iff_eq] at hc
    have : e = ⟨a, b, .dep⟩ := by
      cases e; simp only at hc; obtain ⟨⟨h1, h2⟩, h3⟩ := hc; subst h1; subst h2; subst h3; rfl
    rw [← this]; exact he
  · intro he
    exact ⟨_, he, by simp⟩

theorem hasDep_congr {g g' : Graph} (h : g'.edges = g.edges) : g'.hasDep = g.hasDep := by
  funext a b; unfold Graph.hasDep; rw [h]

/-! ### maps -/

theorem alGet_iff_mem {κ β : Type} [DecidableEq κ] {l : List (κ × β)} (nd : (l.map (·.1)).Nodup) {k : κ} {v : β} :
    alGet l k = some v ↔ (k, v) ∈ l :=
  ⟨alGet_eq_some_mem, fun hm => alGet_of_mem _ nd (k, v) hm⟩

theorem option_ext_iff {α : Type} {a b : Option α} (h : ∀ x, a = some x ↔ b = some x) : a = b := by
  cases a with
  | none =>
    cases b with
    | none => rfl
    | some y => exact absurd ((h y).mpr rfl) (by simp)
  | some x => exact ((h x).mp rfl).symm

theorem bool_ext_iff {a b : Bool} (h : a = true ↔ b = true) : a = b := by
  cases a <;> cases b <;> simp_all

/-! ### extensionality of `abs` -/

theorem Abs.ext' {a b : Abs} (h1 : a.cap = b.cap) (h2 : a.node = b.node) (h3 : a.arg = b.arg)
    (h4 : a.aliasOf = b.aliasOf) (h5 : a.dep = b.dep) (h6 : a.exports = b.exports) (h7 : a.imports = b.imports)
    (h8 : a.defined = b.defined) (h9 : a.pkg = b.pkg) (h10 : a.pkgByKey = b.pkgByKey) : a = b := by
  cases a; cases b
  simp only at h1 h2 h3 h4 h5 h6 h7 h8 h9 h10
  subst h1; subst h2; subst h3; subst h4; subst h5; subst h6; subst h7; subst h8; subst h9; subst h10
  rfl

/-- to show that a consistent graph abstracts to `a`, compare item by item -/
theorem abs_eq_of {ctx : Ctx} {g' : Graph} {a : Abs} (h' : Inv ctx g')
    (hcap : g'.nodes.length = a.cap)
    (hnode : ∀ m, (g'.node? m).map Node.abs = a.node m)
    (harg : ∀ i k s, (⟨s, i, .arg k⟩ : Edge) ∈ g'.edges ↔ a.arg i k = some s)
    (halias : ∀ t s j, (⟨s, t, .alias j⟩ : Edge) ∈ g'.edges ↔ a.aliasOf t = some (s, j))
    (hdep : ∀ x y, (⟨x, y, .dep⟩ : Edge) ∈ g'.edges ↔ a.dep x y = true)
    (hexp : ∀ nm n, (nm, n) ∈ g'.exports ↔ a.exports nm = some n)
    (himp : ∀ nm n, (nm, n) ∈ g'.imports ↔ a.imports nm = some n)
    (hdef : ∀ ty n, (ty, n) ∈ g'.defined ↔ a.defined ty = some n)
    (hpkg : ∀ id, (g'.pkgOf id).toOption = a.pkg id)
    (hkey : ∀ k, alGet g'.pkgMap k = a.pkgByKey k) : abs g' = a := by
  cases a with
  | mk cap node arg aliasOf dep exports imports defined pkg pkgByKey =>
    simp only at hcap hnode harg halias hdep hexp himp hdef hpkg hkey
    unfold abs
    simp only [Abs.mk.injEq]
    refine ⟨hcap, funext hnode, ?_, ?_, ?_, ?_, ?_, ?_, funext hpkg, funext hkey⟩
    · funext i k
      exact option_ext_iff fun s => by rw [argOfE_iff h'.argUnique, harg]
    · funext t
      exact option_ext_iff fun p => by obtain ⟨s, j⟩ := p; rw [h'.aliasOfE_iff, halias]
    · funext x y
      exact bool_ext_iff (by rw [hasDep_iff, hdep])
    · funext nm
      exact option_ext_iff fun n => by rw [alGet_iff_mem h'.exportsKeys, hexp]
    · funext nm
      exact option_ext_iff fun n => by rw [alGet_iff_mem h'.importsKeys, himp]
    · funext ty
      exact option_ext_iff fun n => by rw [alGet_iff_mem h'.definedKeys, hdef]

/-- the items of `abs g` as membership statements about a consistent `g` -/
theorem Inv.abs_arg {ctx : Ctx} {g : Graph} (h : Inv ctx g) {i k s : Nat} :
    (abs g).arg i k = some s ↔ (⟨s, i, .arg k⟩ : Edge) ∈ g.edges := argOfE_iff h.argUnique

theorem Inv.abs_alias {ctx : Ctx} {g : Graph} (h : Inv ctx g) {t s j : Nat} :
    (abs g).aliasOf t = some (s, j) ↔ (⟨s, t, .alias j⟩ : Edge) ∈ g.edges := h.aliasOfE_iff

theorem abs_dep {g : Graph} {x y : Nat} : (abs g).dep x y = true ↔ (⟨x, y, .dep⟩ : Edge) ∈ g.edges := hasDep_iff

theorem Inv.abs_exports {ctx : Ctx} {g : Graph} (h : Inv ctx g) {nm : Str} {n : Nat} :
    (abs g).exports nm = some n ↔ (nm, n) ∈ g.exports := alGet_iff_mem h.exportsKeys

theorem Inv.abs_imports {ctx : Ctx} {g : Graph} (h : Inv ctx g) {nm : Str} {n : Nat} :
    (abs g).imports nm = some n ↔ (nm, n) ∈ g.imports := alGet_iff_mem h.importsKeys

theorem Inv.abs_defined {ctx : Ctx} {g : Graph} (h : Inv ctx g) {ty : Ty} {n : Nat} :
    (abs g).defined ty = some n ↔ (ty, n) ∈ g.defined := alGet_iff_mem h.definedKeys

/-! ### nodes -/

theorem abs_node_some {g : Graph} {n : Nat} {x : Node} (h : g.node? n = some x) : (abs g).node n = some x.abs := by
  show (g.node? n).map Node.abs = _; rw [h]; rfl

theorem abs_node_none {g : Graph} {n : Nat} (h : g.node? n = none) : (abs g).node n = none := by
  show (g.node? n).map Node.abs = _; rw [h]; rfl

theorem abs_node_eq_some {g : Graph} {n : Nat} {y : ANode} (h : (abs g).node n = some y) :
    ∃ x, g.node? n = some x ∧ x.abs = y := by
  have : (g.node? n).map Node.abs = some y := h
  cases hq : g.node? n with
  | none => rw [hq] at this; cases this
  | some x => rw [hq] at this; exact ⟨x, rfl, Option.some.inj this⟩

theorem abs_isInst (x : Node) : x.abs.isInst = x.isInst := by
  unfold Node.abs ANode.isInst Node.isInst NodeKind.abs
  cases x.kind <;> rfl

theorem abs_isDef (x : Node) : x.abs.isDef = x.isDef := by
  unfold Node.abs ANode.isDef Node.isDef NodeKind.abs
  cases x.kind <;> rfl

theorem setSat_abs (x : Node) (s : List Nat) : (setSat x s).abs = x.abs := by
  unfold setSat
  cases hk : x.kind <;> simp [Node.abs, NodeKind.abs, hk]

/-! ### the allocator's choice -/

/-- `add_node` returns the identifier `Graph.fresh` announces; the new capacity -/
theorem addNode_fresh (g : Graph) (nd : Node) :
    (g.addNode nd).2 = g.fresh.node := by
  unfold Graph.addNode Graph.fresh
  cases g.freeNodes <;> rfl

theorem addNode_len {g : Graph} (f : FreeInv g) (nd : Node) :
    (g.addNode nd).1.nodes.length = max g.nodes.length (g.fresh.node + 1) := by
  unfold Graph.addNode Graph.fresh
  cases hfree : g.freeNodes with
  | nil => simp
  | cons i r =>
    have := (f.vacant i (by rw [hfree]; exact List.mem_cons_self ..)).1
    simp only [List.length_set]
    omega

/-- the identifiers the allocators choose are vacant -/
theorem fresh_vacant {ctx : Ctx} {g : Graph} (h : Inv ctx g) :
    (abs g).node g.fresh.node = none ∧ (abs g).pkg g.fresh.pkg = none := by
  constructor
  · apply abs_node_none
    unfold Graph.fresh
    cases hfree : g.freeNodes with
    | nil => exact node?_of_ge (Nat.le_refl _)
    | cons i r => exact (h.freeNodesVacant i (by rw [hfree]; exact List.mem_cons_self ..)).2
  · show (g.pkgOf g.fresh.pkg).toOption = none
    unfold Graph.fresh
    cases hfree : g.freePkgs with
    | nil =>
      simp only
      unfold Graph.pkgOf
      simp [Except.toOption]
    | cons i r =>
      simp only
      have hi : i ∈ g.freePkgs := by rw [hfree]; exact List.mem_cons_self ..
      have hlt := h.freePkgsRange i hi
      have hslot : g.pkgs[i]? = some g.pkgs[i] := by simp [hlt]
      have hok := h.slot hslot
      unfold Graph.pkgOf
      rw [hslot]
      simp only [ne_eq, not_true_eq_false, ↓reduceIte]
      unfold SlotOk at hok
      cases hp : (g.pkgs[i]).pkg with
      | none => rfl
      | some pd =>
        rw [hp] at hok
        exact absurd hi hok.2

/-- the abstraction after `add_node` and nothing else -/
theorem abs_added {g g1 : Graph} {idx : Nat} {nd : Node} (a : Added g g1 idx nd)
    (hlen : g1.nodes.length = max g.nodes.length (idx + 1)) :
    abs g1 = (abs g).addNode idx nd.abs := by
  unfold abs Abs.addNode
  simp only [Abs.mk.injEq]
  refine ⟨hlen, ?_, by rw [a.edges], by rw [a.edges], hasDep_congr a.edges, by rw [a.exports], by rw [a.imports],
    by rw [a.defined], ?_, by rw [a.pkgMap]⟩
  · funext m
    rw [a.node m]
    unfold upd
    by_cases hm : m = idx <;> simp [hm]
  · funext id
    rw [pkgOf_congr a.pkgs]

end Wac.Graph
