import WacProofs.Lemmas.AggTotal
/-
  C09 general theorems, part 13: `merge_interface` on flat interfaces never panics and fails
  exactly when a shared export name carries different types (`¬ Consistent F G`).
-/
namespace Wac.AggP
open Wac Wac.Spec

/-- the loop over the source exports is total: it succeeds, or stops with an error at an
inconsistent shared name -/
theorem flat_loop_total {W : Colls} {types : Types} {e u : Nat} {f : Str × ItemKind → AggM Unit}
    {C : AggState → Prop}
    (hstep : ∀ (n : Str) (sk : ItemKind) (s s' : AggState) (F : Forest) (ts : Tree),
      TState W e s F → LeafK sk → types.unfoldKind types.fuel sk = some ts → ts.namesDistinct = true →
      f (n, sk) s = .ok ((), s') →
      MStep u e s s' ∧ ((F.hasName n = true ∧ TState W e s' F ∧ ∀ tf, F.get n = some tf → tf = ts) ∨
        (F.hasName n = false ∧ TState W e s' (snoc F n ts))))
    (hC : ∀ s s', C s → MStep u e s s' → C s')
    (htot : ∀ (n : Str) (sk : ItemKind) (s : AggState) (F : Forest) (ts : Tree),
      TState W e s F → C s → LeafK sk → types.unfoldKind types.fuel sk = some ts → ts.namesDistinct = true →
      (∃ s', f (n, sk) s = .ok ((), s')) ∨
        (∃ m tf, f (n, sk) s = .error (.err m) ∧ F.get n = some tf ∧ tf ≠ ts)) :
    ∀ (Q : List (Str × ItemKind)) (G : Forest) (s : AggState) (F : Forest), TState W e s F → C s →
      (∀ x, x ∈ Q → LeafK x.2) → unfoldItems (types.unfoldKind types.fuel) Q = some G → G.namesDistinct = true →
      (∃ s', forMList f Q s = .ok ((), s')) ∨ (∃ m, forMList f Q s = .error (.err m) ∧ ¬ Consistent F G)
  | [], G, s, F, _, _, _, _, _ => .inl ⟨s, rfl⟩
  | (n, sk) :: Q, G, s, F, hT, hc, hl, hG, hnd => by
    obtain ⟨ts, G', hts, hG', rfl⟩ := unfoldItems_cons n sk Q G hG
    simp only [Forest.namesDistinct, Bool.and_eq_true, Bool.not_eq_true'] at hnd
    obtain ⟨⟨hn', htsnd⟩, hG'nd⟩ := hnd
    have hlQ : ∀ x, x ∈ Q → LeafK x.2 := fun x hx => hl x (List.mem_cons_of_mem _ hx)
    rcases htot n sk s F ts hT hc (hl (n, sk) List.mem_cons_self) hts htsnd with ⟨s1, h1⟩ | ⟨m, tf, h1, hf, hne⟩
    · obtain ⟨hm1, hcase⟩ := hstep n sk s s1 F ts hT (hl (n, sk) List.mem_cons_self) hts htsnd h1
      have hc1 := hC s s1 hc hm1
      rcases hcase with ⟨hhas, hT1, _⟩ | ⟨hhas, hT1⟩
      · rcases flat_loop_total hstep hC htot Q G' s1 F hT1 hc1 hlQ hG' hG'nd with ⟨s2, h2⟩ | ⟨m, h2, hnc⟩
        · exact .inl ⟨s2, by simp only [forMList, run_bind, h1, h2]⟩
        · refine .inr ⟨m, by simp only [forMList, run_bind, h1, h2], fun hcons => hnc ?_⟩
          intro k tf tg hf hg
          have hk : n ≠ k := by
            rintro rfl
            rw [(Forest.hasName_false_iff G' n).1 hn'] at hg; cases hg
          exact hcons k tf tg hf (by simpa [Forest.get, hk] using hg)
      · rcases flat_loop_total hstep hC htot Q G' s1 (snoc F n ts) hT1 hc1 hlQ hG' hG'nd with ⟨s2, h2⟩ | ⟨m, h2, hnc⟩
        · exact .inl ⟨s2, by simp only [forMList, run_bind, h1, h2]⟩
        · refine .inr ⟨m, by simp only [forMList, run_bind, h1, h2], fun hcons => hnc ?_⟩
          intro k tf tg hf hg
          have hk : n ≠ k := by
            rintro rfl
            rw [(Forest.hasName_false_iff G' n).1 hn'] at hg; cases hg
          rw [get_snoc] at hf
          cases hfk : F.get k with
          | some t0 =>
            rw [hfk] at hf
            simp only [Option.orElse_some, Option.some.injEq] at hf
            subst hf
            exact hcons k t0 tg hfk (by simpa [Forest.get, hk] using hg)
          | none =>
            rw [hfk] at hf
            have : (n == k) = false := by simpa using hk
            simp [this] at hf
    · refine .inr ⟨m, by simp only [forMList, run_bind, h1], fun hcons => hne ?_⟩
      exact hcons n tf ts hf (Forest.get_cons_self n ts G')

section total
variable {W : Colls} {types : Types} (hW : W.mem types) (hs : Sane types) {e : Nat}
include hW hs

/-- one iteration of the loop is total -/
theorem mergeExport_total (fuel : Nat) (n : Str) (sk : ItemKind) (s0 : AggState) (F0 : Forest) (ts : Tree)
    (hT0 : TState W e s0 F0) (hcfg : s0.cfg.remapReplaced = true) (hfuel : 2 * types.fuel + 1 ≤ fuel)
    (lk : LeafK sk) (hts : types.unfoldKind types.fuel sk = some ts) (htsnd : ts.namesDistinct = true) :
    (∃ s1, mergeExportBody fuel e types (n, sk) s0 = .ok ((), s1)) ∨
      (∃ m tf, mergeExportBody fuel e types (n, sk) s0 = .error (.err m) ∧ F0.get n = some tf ∧ tf ≠ ts) := by
  obtain ⟨ti, hti, hflat⟩ := hT0.itf
  simp only [mergeExportBody, run_bind, run_getAgg, hti, run_pure, run_get]
  cases hget : amGet ti.exports n with
  | none =>
    obtain ⟨k', s2, hr, _, _⟩ := remapKind_leaf_total hW hs types.fuel fuel sk lk ts s0 ⟨hT0.ainv.rinv, hcfg⟩ hts hfuel
    left
    simp only [run_pure, Bool.not_false, ↓reduceIte, run_bind, hr, run_modifyTypes]
    exact ⟨_, rfl⟩
  | some tk =>
    obtain ⟨r, c', hr, _, _, hne, tf, hFn, hiff⟩ := keepExport_spec hW hs hT0 hti hget lk hts htsnd
    have ltk : LeafK tk := hflat.leaf _ (alGet_mem _ _ _ (by rw [← amGet_eq_alGet]; exact hget))
    cases tk with
    | func f0 =>
      simp only [run_bind, hr]
      cases r with
      | ok =>
        left
        simp only [run_bind, run_modifyAgg, run_pure, Bool.not_true, Bool.false_eq_true, ↓reduceIte]
        exact ⟨_, rfl⟩
      | err m0 =>
        obtain ⟨m', hm'⟩ := hne (by simp)
        right
        refine ⟨(s!"mismatched type for export `{strS n}`" ++ ": " ++ m'), tf, ?_, hFn, fun h => by have := hiff.2 h.symm; cases this⟩
        simp only [run_bind, run_getAgg, withCtx, hm']
      | panic m0 =>
        obtain ⟨m', hm'⟩ := hne (by simp)
        right
        refine ⟨(s!"mismatched type for export `{strS n}`" ++ ": " ++ m'), tf, ?_, hFn, fun h => by have := hiff.2 h.symm; cases this⟩
        simp only [run_bind, run_getAgg, withCtx, hm']
    | value v0 =>
      simp only [run_bind, hr]
      cases r with
      | ok =>
        left
        simp only [run_bind, run_modifyAgg, run_pure, Bool.not_true, Bool.false_eq_true, ↓reduceIte]
        exact ⟨_, rfl⟩
      | err m0 =>
        obtain ⟨m', hm'⟩ := hne (by simp)
        right
        refine ⟨(s!"mismatched type for export `{strS n}`" ++ ": " ++ m'), tf, ?_, hFn, fun h => by have := hiff.2 h.symm; cases this⟩
        simp only [run_bind, run_getAgg, withCtx, hm']
      | panic m0 =>
        obtain ⟨m', hm'⟩ := hne (by simp)
        right
        refine ⟨(s!"mismatched type for export `{strS n}`" ++ ": " ++ m'), tf, ?_, hFn, fun h => by have := hiff.2 h.symm; cases this⟩
        simp only [run_bind, run_getAgg, withCtx, hm']
    | type ty =>
      cases ty with
      | func f0 =>
        simp only [run_bind, hr]
        cases r with
        | ok =>
          left
          simp only [run_bind, run_modifyAgg, run_pure, Bool.not_true, Bool.false_eq_true, ↓reduceIte]
          exact ⟨_, rfl⟩
        | err m0 =>
          obtain ⟨m', hm'⟩ := hne (by simp)
          right
          refine ⟨(s!"mismatched type for export `{strS n}`" ++ ": " ++ m'), tf, ?_, hFn, fun h => by have := hiff.2 h.symm; cases this⟩
          simp only [run_bind, run_getAgg, withCtx, hm']
        | panic m0 =>
          obtain ⟨m', hm'⟩ := hne (by simp)
          right
          refine ⟨(s!"mismatched type for export `{strS n}`" ++ ": " ++ m'), tf, ?_, hFn, fun h => by have := hiff.2 h.symm; cases this⟩
          simp only [run_bind, run_getAgg, withCtx, hm']
      | value v0 =>
        simp only [run_bind, hr]
        cases r with
        | ok =>
          left
          simp only [run_bind, run_modifyAgg, run_pure, Bool.not_true, Bool.false_eq_true, ↓reduceIte]
          exact ⟨_, rfl⟩
        | err m0 =>
          obtain ⟨m', hm'⟩ := hne (by simp)
          right
          refine ⟨(s!"mismatched type for export `{strS n}`" ++ ": " ++ m'), tf, ?_, hFn, fun h => by have := hiff.2 h.symm; cases this⟩
          simp only [run_bind, run_getAgg, withCtx, hm']
        | panic m0 =>
          obtain ⟨m', hm'⟩ := hne (by simp)
          right
          refine ⟨(s!"mismatched type for export `{strS n}`" ++ ": " ++ m'), tf, ?_, hFn, fun h => by have := hiff.2 h.symm; cases this⟩
          simp only [run_bind, run_getAgg, withCtx, hm']
      | _ => cases ltk
    | _ => cases ltk

/-- **`merge_interface` on flat interfaces is total**: with enough fuel it returns `Ok`, or an
error exactly because a shared export name carries different types; it never panics -/
theorem mergeInterface_flat_total (fuel id : Nat) (s : AggState) (F G : Forest) (si : Interface)
    (hT : TState W e s F) (hcfg : s.cfg.remapReplaced = true) (hfuel : 2 * types.fuel + 2 ≤ fuel)
    (hsi : types.interfaces[id]? = some si) (huses : si.uses = [])
    (hleaf : ∀ x, x ∈ si.exports → LeafK x.2)
    (hG : unfoldItems (types.unfoldKind types.fuel) si.exports = some G) (hGnd : G.namesDistinct = true) :
    (∃ s', mergeInterface fuel e types id s = .ok ((), s')) ∨
      (∃ m, mergeInterface fuel e types id s = .error (.err m) ∧ ¬ Consistent F G) := by
  obtain ⟨fuel', rfl⟩ : ∃ f', fuel = f' + 1 := ⟨fuel - 1, by omega⟩
  rw [mergeInterface_succ]
  simp only [hsi, run_bind, run_pure, huses, mergeUsedTypes, forMList]
  exact flat_loop_total (u := types.uid) (C := fun s => s.cfg.remapReplaced = true)
    (fun n sk s0 s1 F0 ts hT0 lk hts htsnd hb => mergeExport_step hW hs fuel' n sk s0 s1 F0 ts hT0 lk hts htsnd hb)
    (fun s s' hc hm => by rw [hm.cfg]; exact hc)
    (fun n sk s0 F0 ts hT0 hc lk hts htsnd => mergeExport_total hW hs fuel' n sk s0 F0 ts hT0 hc (by omega) lk hts htsnd)
    si.exports G s F hT hcfg hleaf hG hGnd

end total

end Wac.AggP
