import WacModel.Toposort
/-
  `toposort`: when it succeeds its result lists every live node exactly once (pass 1) and every
  predecessor of a node comes earlier in it (pass 2 is a checker for exactly that).
-/
namespace Wac

theorem mem_pushUndiscovered (disc ns stack : List Nat) (n : Nat) :
    n ∈ pushUndiscovered disc ns stack ↔ n ∈ stack ∨ (n ∈ ns ∧ n ∉ disc) := by
  unfold pushUndiscovered
  induction ns generalizing stack with
  | nil => simp
  | cons m ms ih =>
    simp only [List.foldl_cons]
    rw [ih]
    by_cases hm : disc.contains m = true
    · simp only [hm, ↓reduceIte, List.mem_cons]
      have hmd : m ∈ disc := by simpa using hm
      constructor
      · rintro (h | ⟨h1, h2⟩)
        · exact Or.inl h
        · exact Or.inr ⟨Or.inr h1, h2⟩
      · rintro (h | ⟨h1 | h1, h2⟩)
        · exact Or.inl h
        · subst h1; exact absurd hmd h2
        · exact Or.inr ⟨h1, h2⟩
    · have hmd : m ∉ disc := by simpa using hm
      simp only [hm, Bool.false_eq_true, ↓reduceIte, List.mem_cons]
      constructor
      · rintro ((h | h) | ⟨h1, h2⟩)
        · subst h; exact Or.inr ⟨Or.inl rfl, hmd⟩
        · exact Or.inl h
        · exact Or.inr ⟨Or.inr h1, h2⟩
      · rintro (h | ⟨h1 | h1, h2⟩)
        · exact Or.inl (Or.inr h)
        · exact Or.inl (Or.inl h1)
        · exact Or.inr ⟨h1, h2⟩

/-- pass-1 invariant -/
structure TInv (st : DfsSt) : Prop where
  pending : ∀ n ∈ st.discovered, n ∈ st.finished ∨ n ∈ st.stack
  fin : st.finished = st.out
  nodup : st.out.Nodup

theorem topoInner_ok (g : GraphVal) (fuel : Nat) {st st' : DfsSt} (hi : TInv st)
    (h : topoInner g fuel st = some (.ok st')) :
    TInv st' ∧ st'.stack = [] ∧ (∀ n ∈ st.stack, n ∈ st'.discovered) ∧ (∀ n ∈ st.discovered, n ∈ st'.discovered) := by
  induction fuel generalizing st with
  | zero => simp [topoInner] at h
  | succ fuel ih =>
    unfold topoInner at h
    cases hs : st.stack with
    | nil =>
      simp only [hs] at h
      injection h with h
      injection h with h
      subst h
      exact ⟨hi, hs, by simp [hs], fun n hn => hn⟩
    | cons nx rest =>
      simp only [hs] at h
      by_cases hd : st.discovered.contains nx = true
      · have hdm : nx ∈ st.discovered := by simpa using hd
        simp only [hd, Bool.not_true, Bool.false_eq_true, ↓reduceIte] at h
        by_cases hf : st.finished.contains nx = true
        · simp only [hf, ↓reduceIte] at h
          have hfm : nx ∈ st.finished := by simpa using hf
          have hi1 : TInv { st with stack := rest } := by
            refine ⟨?_, hi.fin, hi.nodup⟩
            intro n hn
            rcases hi.pending n hn with h1 | h1
            · exact Or.inl h1
            · rw [hs] at h1
              rcases List.mem_cons.mp h1 with e | e
              · subst e; exact Or.inl hfm
              · exact Or.inr e
          obtain ⟨h1, h2, h3, h4⟩ := ih hi1 h
          refine ⟨h1, h2, ?_, h4⟩
          intro n hn
          rcases List.mem_cons.mp hn with e | e
          · subst e; exact h4 _ hdm
          · exact h3 n e
        · simp only [hf, Bool.false_eq_true, ↓reduceIte] at h
          have hfm : nx ∉ st.finished := by simpa using hf
          have hi1 : TInv { st with stack := rest, finished := nx :: st.finished, out := nx :: st.out } := by
            refine ⟨?_, by simp [hi.fin], ?_⟩
            · intro n hn
              rcases hi.pending n hn with h1 | h1
              · exact Or.inl (List.mem_cons_of_mem _ h1)
              · rw [hs] at h1
                rcases List.mem_cons.mp h1 with e | e
                · subst e; exact Or.inl (List.mem_cons_self ..)
                · exact Or.inr e
            · simp only [List.nodup_cons]
              exact ⟨by rw [← hi.fin]; exact hfm, hi.nodup⟩
          obtain ⟨h1, h2, h3, h4⟩ := ih hi1 h
          refine ⟨h1, h2, ?_, h4⟩
          intro n hn
          rcases List.mem_cons.mp hn with e | e
          · subst e; exact h4 _ hdm
          · exact h3 n e
      · have hdm : nx ∉ st.discovered := by simpa using hd
        simp only [hd, Bool.not_false, ↓reduceIte] at h
        by_cases hself : (g.succs nx).contains nx = true
        · have hm : nx ∈ g.succs nx := by simpa using hself
          simp [hm] at h
        · simp only [hself, Bool.false_eq_true, ↓reduceIte] at h
          generalize hst1 : DfsSt.mk (pushUndiscovered (nx :: st.discovered) (g.succs nx) (nx :: rest))
            (nx :: st.discovered) st.finished st.out = st1 at h
          have hi1 : TInv st1 := by
            subst hst1
            refine ⟨?_, hi.fin, hi.nodup⟩
            intro n hn
            simp only [mem_pushUndiscovered]
            rcases List.mem_cons.mp hn with e | e
            · subst e; exact Or.inr (Or.inl (List.mem_cons_self ..))
            · rcases hi.pending n e with h1 | h1
              · exact Or.inl h1
              · exact Or.inr (Or.inl (by rw [← hs]; exact h1))
          obtain ⟨h1, h2, h3, h4⟩ := ih hi1 h
          subst hst1
          refine ⟨h1, h2, ?_, fun n hn => h4 n (List.mem_cons_of_mem _ hn)⟩
          intro n hn
          apply h3
          simp only [mem_pushUndiscovered]
          exact Or.inl hn

theorem topoOuter_ok (g : GraphVal) (fuel : Nat) (ids : List Nat) {st st' : DfsSt} (hi : TInv st) (hs : st.stack = [])
    (h : topoOuter g fuel ids st = some (.ok st')) :
    TInv st' ∧ st'.stack = [] ∧ (∀ n ∈ ids, n ∈ st'.discovered) ∧ (∀ n ∈ st.discovered, n ∈ st'.discovered) := by
  induction ids generalizing st with
  | nil =>
    simp only [topoOuter] at h
    injection h with h
    injection h with h
    subst h
    exact ⟨hi, hs, by simp, fun n hn => hn⟩
  | cons i is ih =>
    simp only [topoOuter] at h
    by_cases hd : st.discovered.contains i = true
    · simp only [hd, ↓reduceIte] at h
      obtain ⟨h1, h2, h3, h4⟩ := ih hi hs h
      refine ⟨h1, h2, ?_, h4⟩
      intro n hn
      rcases List.mem_cons.mp hn with e | e
      · subst e; exact h4 _ (by simpa using hd)
      · exact h3 n e
    · simp only [hd, Bool.false_eq_true, ↓reduceIte] at h
      cases hin : topoInner g fuel { st with stack := i :: st.stack } with
      | none => simp [hin] at h
      | some r =>
        cases r with
        | error n => simp [hin] at h
        | ok st1 =>
          simp only [hin] at h
          have hi0 : TInv { st with stack := i :: st.stack } := by
            refine ⟨?_, hi.fin, hi.nodup⟩
            intro n hn
            rcases hi.pending n hn with h1 | h1
            · exact Or.inl h1
            · exact Or.inr (List.mem_cons_of_mem _ h1)
          obtain ⟨g1, g2, g3, g4⟩ := topoInner_ok g fuel hi0 hin
          obtain ⟨h1, h2, h3, h4⟩ := ih g1 g2 h
          refine ⟨h1, h2, ?_, fun n hn => h4 n (g4 n hn)⟩
          intro n hn
          rcases List.mem_cons.mp hn with e | e
          · subst e; exact h4 _ (g3 _ (List.mem_cons_self ..))
          · exact h3 n e

/-- pass 1: every live node is in the result, once -/
theorem toposort_complete {g : GraphVal} {order : List Nat} (h : toposort g = .ok order) :
    order.Nodup ∧ ∀ n ∈ g.ids, n ∈ order := by
  unfold toposort at h
  simp only at h
  cases ho : topoOuter g (2 * (g.nodes.length + edgeCount g) + 2) g.ids.reverse {} with
  | none => simp [ho] at h
  | some r =>
    cases r with
    | error n => simp [ho] at h
    | ok st =>
      simp only [ho] at h
      cases hc : cycleCheck g st.out [] with
      | some j => simp [hc] at h
      | none =>
        simp only [hc] at h
        injection h with h
        subst h
        have hi0 : TInv {} := ⟨by simp, rfl, by simp⟩
        obtain ⟨h1, h2, h3, _⟩ := topoOuter_ok g _ g.ids.reverse hi0 rfl ho
        refine ⟨h1.nodup, ?_⟩
        intro n hn
        have hd := h3 n (by simpa using hn)
        rcases h1.pending n hd with e | e
        · rw [← h1.fin]; exact e
        · rw [h2] at e; simp at e

/-! ### pass 2 -/

theorem dfsNext_none_iff (g : GraphVal) (disc stack : List Nat) :
    dfsNext g disc stack = none ↔ ∀ n ∈ stack, n ∈ disc := by
  induction stack with
  | nil => simp [dfsNext]
  | cons n rest ih =>
    simp only [dfsNext]
    by_cases hd : disc.contains n = true
    · have hm : n ∈ disc := by simpa using hd
      simp only [hd, ↓reduceIte, ih, List.mem_cons, forall_eq_or_imp, hm, true_and]
    · have hm : n ∉ disc := by simpa using hd
      simp [hd, hm]

/-- every predecessor of `n` is among `before` or is `n` itself -/
def PredsIn (g : GraphVal) (before : List Nat) (n : Nat) : Prop :=
  ∀ p ∈ g.preds n, p = n ∨ p ∈ before

theorem cycleCheck_ok (g : GraphVal) (order disc : List Nat) (hnd : ∀ n ∈ order, n ∉ disc) (hno : order.Nodup)
    (h : cycleCheck g order disc = none) :
    ∀ pre n post, order = pre ++ n :: post → ∀ p ∈ g.preds n, p = n ∨ p ∈ disc ∨ p ∈ pre := by
  induction order generalizing disc with
  | nil => intro pre n post e; simp at e
  | cons i is ih =>
    simp only [List.nodup_cons] at hno
    have hid : i ∉ disc := hnd i (List.mem_cons_self ..)
    have hdc : disc.contains i = false := by simpa using hid
    simp only [cycleCheck, dfsNext, hdc, Bool.false_eq_true, ↓reduceIte] at h
    cases h2 : dfsNext g (i :: disc) (pushUndiscovered (i :: disc) (g.preds i) []) with
    | some r => simp [h2] at h
    | none =>
      simp only [h2] at h
      have hall := (dfsNext_none_iff _ _ _).mp h2
      intro pre n post e
      cases pre with
      | nil =>
        simp only [List.nil_append, List.cons.injEq] at e
        obtain ⟨e1, _⟩ := e
        subst e1
        intro p hp
        by_cases hpd : p ∈ i :: disc
        · rcases List.mem_cons.mp hpd with e' | e'
          · exact Or.inl e'
          · exact Or.inr (Or.inl e')
        · have : p ∈ pushUndiscovered (i :: disc) (g.preds i) [] := by
            rw [mem_pushUndiscovered]; exact Or.inr ⟨hp, hpd⟩
          exact absurd (hall p this) hpd
      | cons a pre =>
        simp only [List.cons_append, List.cons.injEq] at e
        obtain ⟨e1, e2⟩ := e
        subst e1
        have hnd' : ∀ m ∈ is, m ∉ i :: disc := by
          intro m hm hmd
          rcases List.mem_cons.mp hmd with e' | e'
          · subst e'; exact hno.1 hm
          · exact hnd m (List.mem_cons_of_mem _ hm) e'
        intro p hp
        rcases ih (i :: disc) hnd' hno.2 h pre n post e2 p hp with h1 | h1 | h1
        · exact Or.inl h1
        · rcases List.mem_cons.mp h1 with e' | e'
          · exact Or.inr (Or.inr (by rw [e']; exact List.mem_cons_self ..))
          · exact Or.inr (Or.inl e')
        · exact Or.inr (Or.inr (List.mem_cons_of_mem _ h1))

/-- pass 2: every predecessor (source of an incoming edge) of a node comes earlier in the result -/
theorem toposort_preds_before {g : GraphVal} {order : List Nat} (h : toposort g = .ok order) :
    ∀ pre n post, order = pre ++ n :: post → ∀ p ∈ g.preds n, p = n ∨ p ∈ pre := by
  have hnd := (toposort_complete h).1
  unfold toposort at h
  simp only at h
  cases ho : topoOuter g (2 * (g.nodes.length + edgeCount g) + 2) g.ids.reverse {} with
  | none => simp [ho] at h
  | some r =>
    cases r with
    | error n => simp [ho] at h
    | ok st =>
      simp only [ho] at h
      cases hc : cycleCheck g st.out [] with
      | some j => simp [hc] at h
      | none =>
        simp only [hc] at h
        injection h with h
        subst h
        intro pre n post e p hp
        rcases cycleCheck_ok g st.out [] (by simp) hnd hc pre n post e p hp with h1 | h1 | h1
        · exact Or.inl h1
        · simp at h1
        · exact Or.inr h1

end Wac
