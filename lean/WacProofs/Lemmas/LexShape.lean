import WacModel.Lexer
import WacModel.Parser
import WacProofs.Lemmas.Leaves
import WacProofs.Lemmas.TokenAbs
/-
  C12 proofs: the lexical shape of the tokens the lexer model produces.

  * `lexStep_tok` / `mem_tokenize`: every item of `tokenize src` is produced by one of the
    token-producing branches of `lexStep` (`TokCase`), and its text is the matched prefix;
  * the generated keyword / symbol tables contain none of the four token classes
    (`keywordTable_kinds`, `symbolTable_kinds`), so a class token comes from its own branch;
  * `tokenize_pathShape`: the text of a `PackagePath` token contains a `/`, and its first `/`
    precedes its first `@` (`pathShape`, what `parsePackagePath` relies on);
  * `tokenize_text_ne_nil`, `tokenize_ident_text`, `tokenize_ident_shape`, `tokenize_string_text`,
    `tokenize_string_ends`: the analogous facts for all tokens, identifiers and strings.
-/
namespace Wac.C12
open Wac Wac.Lex Wac.Parse

/-! ### the characters of the matched prefix of the `id`-based recognisers -/

/-- predicates that hold of every character an `id` can contain -/
structure IdChars (P : Char → Prop) : Prop where
  lower : ∀ c, isLower c = true → P c
  upper : ∀ c, isUpper c = true → P c
  digit : ∀ c, isDigit c = true → P c
  dash : P '-'
  pct : P '%'

theorem mem_take_add {α} {l : List α} {i j : Nat} {c : α} :
    c ∈ l.take (i + j) ↔ c ∈ l.take i ∨ c ∈ (l.drop i).take j := by
  rw [List.take_add, List.mem_append]

theorem mem_take_one_add {α} {a : α} {l : List α} {i : Nat} {c : α} :
    c ∈ (a :: l).take (1 + i) ↔ c = a ∨ c ∈ l.take i := by
  rw [Nat.add_comm, List.take_succ_cons, List.mem_cons]

theorem wordTailLen_all {P} (h : IdChars P) (u : Bool) (s : Str) :
    ∀ c ∈ s.take (wordTailLen u s), P c := by
  induction s with
  | nil => simp [wordTailLen]
  | cons a r ih =>
    simp only [wordTailLen]
    by_cases hc : ((if u = true then isUpper a else isLower a) || isDigit a) = true
    · rw [if_pos hc]
      intro c hc'
      rw [List.take_succ_cons, List.mem_cons] at hc'
      rcases hc' with rfl | hc'
      · rw [Bool.or_eq_true] at hc
        rcases hc with hc | hc
        · cases u
          · exact h.lower _ (by simpa using hc)
          · exact h.upper _ (by simpa using hc)
        · exact h.digit _ hc
      · exact ih c hc'
    · rw [if_neg hc]; simp

theorem wordLen_all {P} (h : IdChars P) (s : Str) : ∀ c ∈ s.take (wordLen s), P c := by
  cases s with
  | nil => simp [wordLen]
  | cons a r =>
    simp only [wordLen]
    by_cases hl : isLower a = true
    · rw [if_pos hl]
      intro c hc'
      rw [List.take_succ_cons, List.mem_cons] at hc'
      rcases hc' with rfl | hc'
      · exact h.lower _ hl
      · exact wordTailLen_all h _ _ _ hc'
    · rw [if_neg hl]
      by_cases hu : isUpper a = true
      · rw [if_pos hu]
        intro c hc'
        rw [List.take_succ_cons, List.mem_cons] at hc'
        rcases hc' with rfl | hc'
        · exact h.upper _ hu
        · exact wordTailLen_all h _ _ _ hc'
      · rw [if_neg hu]; simp

theorem dashWordsLen_all {P} (h : IdChars P) (fuel : Nat) (s : Str) :
    ∀ c ∈ s.take (dashWordsLen fuel s), P c := by
  induction fuel generalizing s with
  | zero => simp [dashWordsLen]
  | succ f ih =>
    unfold dashWordsLen
    split
    · rename_i r
      dsimp only
      split
      · simp
      · intro c hc
        rw [Nat.add_assoc, mem_take_one_add, mem_take_add] at hc
        rcases hc with rfl | hc | hc
        · exact h.dash
        · exact wordLen_all h _ _ hc
        · exact ih _ _ hc
    · simp

theorem idLen_pct (r : Str) : idLen ('%' :: r) =
    if wordLen r = 0 then 0 else 1 + wordLen r + dashWordsLen r.length (r.drop (wordLen r)) := rfl

theorem idLen_eq (s : Str) :
    (∃ r, s = '%' :: r) ∨
    idLen s = if wordLen s = 0 then 0 else wordLen s + dashWordsLen s.length (s.drop (wordLen s)) := by
  by_cases h : ∃ r, s = '%' :: r
  · exact .inl h
  · right
    unfold idLen
    split
    rename_i p s' heq
    split at heq
    · exact absurd ⟨_, rfl⟩ h
    · cases heq
      simp

theorem idLen_all {P} (h : IdChars P) (s : Str) : ∀ c ∈ s.take (idLen s), P c := by
  rcases idLen_eq s with ⟨r, rfl⟩ | he
  · rw [idLen_pct]
    split
    · simp
    · intro c hc
      rw [Nat.add_assoc, mem_take_one_add, mem_take_add] at hc
      rcases hc with rfl | hc | hc
      · exact h.pct
      · exact wordLen_all h _ _ hc
      · exact dashWordsLen_all h _ _ _ hc
  · rw [he]
    split
    · simp
    · intro c hc
      rw [mem_take_add] at hc
      rcases hc with hc | hc
      · exact wordLen_all h _ _ hc
      · exact dashWordsLen_all h _ _ _ hc

theorem colonIdsLen_all {P} (h : IdChars P) (hcol : P ':') (fuel : Nat) (s : Str) :
    ∀ c ∈ s.take (colonIdsLen fuel s), P c := by
  induction fuel generalizing s with
  | zero => simp [colonIdsLen]
  | succ f ih =>
    unfold colonIdsLen
    split
    · rename_i r
      dsimp only
      split
      · simp
      · intro c hc
        rw [Nat.add_assoc, mem_take_one_add, mem_take_add] at hc
        rcases hc with rfl | hc | hc
        · exact hcol
        · exact idLen_all h _ _ hc
        · exact ih _ _ hc
    · simp

theorem slashIdsLen_all {P} (h : IdChars P) (hsl : P '/') (fuel : Nat) (s : Str) :
    ∀ c ∈ s.take (slashIdsLen fuel s), P c := by
  induction fuel generalizing s with
  | zero => simp [slashIdsLen]
  | succ f ih =>
    unfold slashIdsLen
    split
    · rename_i r
      dsimp only
      split
      · simp
      · intro c hc
        rw [Nat.add_assoc, mem_take_one_add, mem_take_add] at hc
        rcases hc with rfl | hc | hc
        · exact hsl
        · exact idLen_all h _ _ hc
        · exact ih _ _ hc
    · simp

theorem slashIdsLen_pos {fuel : Nat} {s : Str} (h : 0 < slashIdsLen fuel s) :
    ∃ r, s = '/' :: r := by
  cases fuel with
  | zero => simp [slashIdsLen] at h
  | succ f =>
    unfold slashIdsLen at h
    split at h
    · exact ⟨_, rfl⟩
    · simp at h

theorem packageNameLen_all {P} (h : IdChars P) (hcol : P ':') (s : Str) :
    ∀ c ∈ s.take (packageNameLen s), P c := by
  unfold packageNameLen
  dsimp only
  split
  · simp
  · split
    · simp
    · intro c hc
      rw [mem_take_add] at hc
      rcases hc with hc | hc
      · exact idLen_all h _ _ hc
      · exact colonIdsLen_all h hcol _ _ _ hc


theorem idChars_ne_slash : IdChars (fun c => c ≠ '/') where
  lower := by intro c hc he; subst he; revert hc; decide
  upper := by intro c hc he; subst he; revert hc; decide
  digit := by intro c hc he; subst he; revert hc; decide
  dash := by decide
  pct := by decide

theorem idChars_ne_at : IdChars (fun c => c ≠ '@') where
  lower := by intro c hc he; subst he; revert hc; decide
  upper := by intro c hc he; subst he; revert hc; decide
  digit := by intro c hc he; subst he; revert hc; decide
  dash := by decide
  pct := by decide

theorem pathShape_of_parts (s : Str) (n m a : Nat) (r : Str)
    (h1 : ∀ c ∈ s.take n, c ≠ '/') (h1' : ∀ c ∈ s.take n, c ≠ '@')
    (h2 : s.drop n = '/' :: r) (hm : 0 < m)
    (h3 : ∀ c ∈ (s.drop n).take m, c ≠ '@') : pathShape (s.take (n + m + a)) := by
  have hlen : n < s.length := by
    have := congrArg List.length h2
    rw [List.length_drop, List.length_cons] at this
    omega
  refine ⟨n, ?_, ?_⟩
  · have ht : s.take (n + m + a) = s.take n ++ '/' :: r.take (m - 1 + a) := by
      obtain ⟨k, rfl⟩ : ∃ k, m = k + 1 := ⟨m - 1, by omega⟩
      rw [Nat.add_assoc, List.take_add, h2,
        show k + 1 + a = (k + 1 - 1 + a) + 1 by omega, List.take_succ_cons]
    rw [findIdx_eq_some, ht, List.takeWhile_append_of_pos (by
        intro c hc; simpa using h1 c hc), List.takeWhile_cons_of_neg (by simp)]
    simp only [List.append_nil, List.length_take, List.length_append, List.length_cons]
    omega
  · intro j hj
    rw [findIdx_eq_some, List.take_add, List.takeWhile_append_of_pos (by
        intro c hc
        rw [mem_take_add] at hc
        rcases hc with hc | hc
        · simpa using h1' c hc
        · simpa using h3 c hc)] at hj
    have := hj.1
    simp only [List.length_take, List.length_append] at this
    omega

theorem packagePath_shape (s : Str) (h : 0 < packagePathTokLen s) :
    pathShape (s.take (packagePathTokLen s)) := by
  by_cases hn : packageNameLen s = 0
  · simp [packagePathTokLen, hn] at h
  by_cases hm : slashIdsLen s.length (s.drop (packageNameLen s)) = 0
  · simp [packagePathTokLen, hn, hm] at h
  have e : packagePathTokLen s = packageNameLen s + slashIdsLen s.length (s.drop (packageNameLen s))
      + atVersionLen (s.drop (packageNameLen s + slashIdsLen s.length (s.drop (packageNameLen s)))) := by
    simp [packagePathTokLen, hn, hm]
  rw [e]
  obtain ⟨r, hr⟩ := slashIdsLen_pos (Nat.pos_of_ne_zero hm)
  exact pathShape_of_parts s _ _ _ r
    (packageNameLen_all idChars_ne_slash (by decide) s)
    (packageNameLen_all idChars_ne_at (by decide) s)
    hr (Nat.pos_of_ne_zero hm)
    (slashIdsLen_all idChars_ne_at (by decide) _ _)

/-! ### the generated tables -/

theorem keywordTable_kinds :
    ∀ e ∈ keywordTable, e.2 ≠ .PackagePath ∧ e.2 ≠ .String ∧ e.2 ≠ .Ident ∧ e.2 ≠ .PackageName := by
  decide

theorem symbolTable_kinds :
    ∀ e ∈ symbolTable, e.2 ≠ .PackagePath ∧ e.2 ≠ .String ∧ e.2 ≠ .Ident ∧ e.2 ≠ .PackageName := by
  decide

theorem lookupKeyword_mem {s : Str} {kw : Token} (h : lookupKeyword s = some kw) :
    ∃ e ∈ keywordTable, e.2 = kw := by
  unfold lookupKeyword at h
  rw [Option.map_eq_some_iff] at h
  obtain ⟨e, he, rfl⟩ := h
  exact ⟨e, List.mem_of_find?_eq_some he, rfl⟩

theorem foldl_symbol_mem (s : Str) (tbl : List (Str × Token)) (init : Option (Token × Nat))
    (t : Token) (n : Nat)
    (h : tbl.foldl (fun best (e : Str × Token) =>
      if e.1.isPrefixOf s && e.1.length > (best.map (·.2)).getD 0 then some (e.2, e.1.length) else best)
      init = some (t, n)) :
    init = some (t, n) ∨ ∃ e ∈ tbl, e.2 = t := by
  induction tbl generalizing init with
  | nil => exact .inl h
  | cons e l ih =>
    rw [List.foldl_cons] at h
    rcases ih _ h with h' | ⟨e', he', rfl⟩
    · split at h'
      · cases h'
        exact .inr ⟨e, List.mem_cons_self, rfl⟩
      · exact .inl h'
    · exact .inr ⟨e', List.mem_cons_of_mem _ he', rfl⟩

theorem matchSymbol_mem {s : Str} {t : Token} {n : Nat} (h : matchSymbol s = some (t, n)) :
    ∃ e ∈ symbolTable, e.2 = t := by
  rcases foldl_symbol_mem s symbolTable none t n h with h' | h'
  · cases h'
  · exact h'

/-! ### the token stream -/

/-- the branches of `lexStep` that produce a token -/
inductive TokCase (s : Str) : Except LexError Token → Nat → Prop
  | unterminatedComment : TokCase s (.error .UnterminatedComment) s.length
  | string (r : Str) : s = '"' :: r → (r.takeWhile (· != '"')).length < r.length →
      TokCase s (.ok .String) ((r.takeWhile (· != '"')).length + 2)
  | unterminatedString : TokCase s (.error .UnterminatedString) 1
  | packagePath : 0 < packagePathTokLen s → TokCase s (.ok .PackagePath) (packagePathTokLen s)
  | packageName : 0 < packageNameTokLen s → TokCase s (.ok .PackageName) (packageNameTokLen s)
  | keyword (kw : Token) : 0 < idLen s → lookupKeyword (s.take (idLen s)) = some kw →
      TokCase s (.ok kw) (idLen s)
  | ident : 0 < idLen s → TokCase s (.ok .Ident) (idLen s)
  | symbol (t : Token) (n : Nat) : matchSymbol s = some (t, n) → TokCase s (.ok t) n
  | unexpected : TokCase s (.error .UnexpectedToken) 1

theorem lexStep_tok {s : Str} {res : Except LexError Token} {n : Nat}
    (h : lexStep s = .tok res n) : s ≠ [] ∧ TokCase s res n := by
  unfold lexStep at h
  split at h
  · cases h
  · rename_i c r
    refine ⟨List.cons_ne_nil _ _, ?_⟩
    split at h
    · cases h
    split at h
    · cases h
    split at h
    · split at h
      · cases h
      · cases h; exact .unterminatedComment
    split at h
    · rename_i hq
      have hq : c = '"' := by simpa using hq
      subst hq
      dsimp only at h
      split at h
      · cases h; exact .string r rfl (by assumption)
      · cases h; exact .unterminatedString
    dsimp only at h
    split at h
    · cases h; exact .packagePath (by assumption)
    split at h
    · cases h; exact .packageName (by assumption)
    split at h
    · split at h
      · cases h; exact .keyword _ (by assumption) (by assumption)
      · cases h; exact .ident (by assumption)
    · split at h
      · cases h; exact .symbol _ _ (by assumption)
      · cases h; exact .unexpected

theorem mem_lexAll {fuel pos : Nat} {s : Str} {prevPos : Nat} {prev : Str} {tk : LTok}
    (h : tk ∈ lexAll fuel pos s prevPos prev) :
    ∃ s' n, lexStep s' = .tok tk.res n ∧ tk.text = s'.take (if n = 0 then 1 else n) := by
  induction fuel generalizing pos s prevPos prev with
  | zero => simp [lexAll] at h
  | succ f ih =>
    unfold lexAll at h
    split at h
    · simp at h
    · exact ih h
    · rename_i res n hs
      dsimp only at h
      rw [List.mem_cons] at h
      rcases h with rfl | h
      · exact ⟨s, n, hs, rfl⟩
      · exact ih h

theorem mem_tokenize {src : Str} {tk : LTok} (h : tk ∈ tokenize src) :
    ∃ s n, s ≠ [] ∧ TokCase s tk.res n ∧ tk.text = s.take (if n = 0 then 1 else n) := by
  obtain ⟨s, n, hs, ht⟩ := mem_lexAll h
  exact ⟨s, n, (lexStep_tok hs).1, (lexStep_tok hs).2, ht⟩


/-! ### the main statements -/

theorem tokCase_packagePath {s : Str} {n : Nat} (h : TokCase s (.ok .PackagePath) n) :
    n = packagePathTokLen s ∧ 0 < n := by
  cases h with
  | packagePath hp => exact ⟨rfl, hp⟩
  | keyword _ _ hk =>
    obtain ⟨e, he, h2⟩ := lookupKeyword_mem hk
    exact absurd h2 (keywordTable_kinds e he).1
  | symbol _ _ hm =>
    obtain ⟨e, he, h2⟩ := matchSymbol_mem hm
    exact absurd h2 (symbolTable_kinds e he).1

/-- (b) a `PackagePath` token is only produced by the package-path branch of `lexStep` -/
theorem lexStep_packagePath {s : Str} {n : Nat} (h : lexStep s = .tok (.ok .PackagePath) n) :
    n = packagePathTokLen s ∧ 0 < n :=
  tokCase_packagePath (lexStep_tok h).2

/-- the text of every package-path token has the shape `parsePackagePath` relies on -/
theorem tokenize_pathShape (src : Str) :
    ∀ tk ∈ Wac.Lex.tokenize src, tk.res = .ok .PackagePath → pathShape tk.text := by
  intro tk htk hres
  obtain ⟨s, n, _, hc, ht⟩ := mem_tokenize htk
  rw [hres] at hc
  obtain ⟨rfl, hp⟩ := tokCase_packagePath hc
  rw [ht, if_neg (by omega)]
  exact packagePath_shape s hp

/-- no item of the token stream has an empty text -/
theorem tokenize_text_ne_nil (src : Str) : ∀ tk ∈ Wac.Lex.tokenize src, tk.text ≠ [] := by
  intro tk htk
  obtain ⟨s, n, hs, _, ht⟩ := mem_tokenize htk
  rw [ht]
  cases s with
  | nil => exact absurd rfl hs
  | cons a r =>
    obtain ⟨k, hk⟩ : ∃ k, (if n = 0 then 1 else n) = k + 1 := by
      split
      · exact ⟨0, rfl⟩
      · exact ⟨n - 1, by omega⟩
    rw [hk, List.take_succ_cons]
    exact List.cons_ne_nil _ _

theorem tokenize_ident_text (src : Str) :
    ∀ tk ∈ Wac.Lex.tokenize src, tk.res = .ok .Ident → tk.text ≠ [] :=
  fun tk htk _ => tokenize_text_ne_nil src tk htk

theorem tokCase_ident {s : Str} {n : Nat} (h : TokCase s (.ok .Ident) n) :
    n = idLen s ∧ 0 < n := by
  cases h with
  | ident hp => exact ⟨rfl, hp⟩
  | keyword _ hp hk =>
    obtain ⟨e, he, h2⟩ := lookupKeyword_mem hk
    exact absurd h2 (keywordTable_kinds e he).2.2.1
  | symbol _ _ hm =>
    obtain ⟨e, he, h2⟩ := matchSymbol_mem hm
    exact absurd h2 (symbolTable_kinds e he).2.2.1

/-- the text of an identifier token is a non-empty `id` match -/
theorem tokenize_ident_shape (src : Str) :
    ∀ tk ∈ Wac.Lex.tokenize src, tk.res = .ok .Ident →
      ∃ s, 0 < idLen s ∧ tk.text = s.take (idLen s) := by
  intro tk htk hres
  obtain ⟨s, n, _, hc, ht⟩ := mem_tokenize htk
  rw [hres] at hc
  obtain ⟨rfl, hp⟩ := tokCase_ident hc
  rw [if_neg (by omega)] at ht
  exact ⟨s, hp, ht⟩

theorem take_takeWhile_succ {α} (p : α → Bool) (l : List α)
    (h : (l.takeWhile p).length < l.length) :
    ∃ d, p d = false ∧ l.take ((l.takeWhile p).length + 1) = l.takeWhile p ++ [d] := by
  induction l with
  | nil => simp at h
  | cons a l ih =>
    by_cases hp : p a = true
    · simp only [List.takeWhile_cons_of_pos hp, List.length_cons, List.take_succ_cons] at h ⊢
      obtain ⟨d, hd, e⟩ := ih (by omega)
      exact ⟨d, hd, by rw [e]; rfl⟩
    · simp only [List.takeWhile_cons_of_neg hp, List.length_nil, List.nil_append]
      exact ⟨a, by simpa using hp, by simp⟩

theorem mem_takeWhile_pos {α} {p : α → Bool} {l : List α} {c : α} (h : c ∈ l.takeWhile p) :
    p c = true := by
  induction l with
  | nil => simp at h
  | cons a l ih =>
    by_cases hp : p a = true
    · rw [List.takeWhile_cons_of_pos hp, List.mem_cons] at h
      rcases h with rfl | h
      · exact hp
      · exact ih h
    · rw [List.takeWhile_cons_of_neg hp] at h
      simp at h

theorem tokCase_string {s : Str} {n : Nat} (h : TokCase s (.ok .String) n) :
    ∃ r, s = '"' :: r ∧ (r.takeWhile (· != '"')).length < r.length ∧
      n = (r.takeWhile (· != '"')).length + 2 := by
  cases h with
  | string r hs hl => exact ⟨r, hs, hl, rfl⟩
  | keyword _ hp hk =>
    obtain ⟨e, he, h2⟩ := lookupKeyword_mem hk
    exact absurd h2 (keywordTable_kinds e he).2.1
  | symbol _ _ hm =>
    obtain ⟨e, he, h2⟩ := matchSymbol_mem hm
    exact absurd h2 (symbolTable_kinds e he).2.1

/-- the text of a string token: an opening quote, a body without quotes, a closing quote -/
theorem tokenize_string_text (src : Str) :
    ∀ tk ∈ Wac.Lex.tokenize src, tk.res = .ok .String →
      ∃ body, tk.text = '"' :: (body ++ ['"']) ∧ ∀ c ∈ body, c ≠ '"' := by
  intro tk htk hres
  obtain ⟨s, n, _, hc, ht⟩ := mem_tokenize htk
  rw [hres] at hc
  obtain ⟨r, rfl, hl, rfl⟩ := tokCase_string hc
  obtain ⟨d, hd, e⟩ := take_takeWhile_succ _ r hl
  have hd : d = '"' := by simpa using hd
  subst hd
  refine ⟨r.takeWhile (· != '"'), ?_, ?_⟩
  · rw [ht, if_neg (by omega), List.take_succ_cons, e]
  · intro c hc
    simpa using (mem_takeWhile_pos hc)

/-- a string token starts and ends with `"` and has at least two characters -/
theorem tokenize_string_ends (src : Str) :
    ∀ tk ∈ Wac.Lex.tokenize src, tk.res = .ok .String →
      tk.text.head? = some '"' ∧ tk.text.getLast? = some '"' ∧ 2 ≤ tk.text.length := by
  intro tk htk hres
  obtain ⟨body, e, _⟩ := tokenize_string_text src tk htk hres
  rw [e]
  refine ⟨rfl, ?_, by simp⟩
  rw [← List.cons_append, List.getLast?_append]
  rfl

end Wac.C12
