import WacProofs.Lemmas.AggRemap
/-
  C09 general theorems, part 4: the shared `SubtypeChecker` inside the aggregator.  The memo is
  keyed by ids of the aggregator's own collection, which grows (and whose interfaces are mutated in
  place); on the fragment the aggregator only ever asks about *leaf* kinds (functions, values), whose
  trees are stable under that growth, so the memo stays sound (`CInv`).  `chkSubtype_leaf`: on leaf
  kinds the check decides `subNames`, never panics and keeps `CInv`.
-/
namespace Wac.AggP
open Wac Wac.Spec Wac.Props.C07

/-- the family `W ∪ {T}`: the contributors' collections plus the aggregator's current collection -/
def collsWith (W : Colls) (T : Types) (hfresh : ∀ C, W.mem C → C.uid ≠ T.uid) : Colls where
  mem s := W.mem s ∨ s = T
  inj s t hs ht h := by
    rcases hs with hs | rfl <;> rcases ht with ht | rfl
    · exact W.inj s t hs ht h
    · exact absurd h (hfresh s hs)
    · exact absurd h.symm (hfresh t ht)
    · rfl

/-- a memo key is fine for the aggregator's collection `T`: a leaf kind, and when it may denote a
kind of `T` it unfolds there -/
def KeyOK (T : Types) (g : GKind) : Prop :=
  LeafK g.kind ∧ (g.uid = T.uid → ∃ n t, T.unfoldKind n g.kind = some t)

/-- invariant of the checker memo inside the aggregator -/
structure CInv (W : Colls) (T : Types) (cache : List (GKind × GKind)) : Prop where
  fresh : ∀ C, W.mem C → C.uid ≠ T.uid
  sound : MemoSound (collsWith W T fresh) cache
  keys : ∀ e, e ∈ cache → KeyOK T e.1 ∧ KeyOK T e.2

theorem cinv_nil (W : Colls) (T : Types) (hfresh : ∀ C, W.mem C → C.uid ≠ T.uid) : CInv W T [] :=
  ⟨hfresh, memoSound_nil _, fun _ h => by cases h⟩

theorem gkind_uid (T : Types) (k : ItemKind) : (GKind.mk' T k).uid = if k.hasId then T.uid else 0 := rfl

/-- the memo stays sound when the aggregator's collection is extended (whatever happens to its
interfaces): all keys are leaf kinds that already unfold -/
theorem CInv.ext {W : Colls} {T T' : Types} {cache : List (GKind × GKind)} (h : CInv W T cache) (he : Ext T T') :
    CInv W T' cache := by
  have hfresh' : ∀ C, W.mem C → C.uid ≠ T'.uid := fun C hC => by rw [he.uid]; exact h.fresh C hC
  have hkeys : ∀ e, e ∈ cache → KeyOK T' e.1 ∧ KeyOK T' e.2 := by
    intro e hmem
    obtain ⟨⟨l1, u1⟩, ⟨l2, u2⟩⟩ := h.keys e hmem
    refine ⟨⟨l1, fun hu => ?_⟩, ⟨l2, fun hu => ?_⟩⟩
    · obtain ⟨n, t, ht⟩ := u1 (by rw [hu, he.uid]); exact ⟨n, t, he.unfoldLeaf l1 n t ht⟩
    · obtain ⟨n, t, ht⟩ := u2 (by rw [hu, he.uid]); exact ⟨n, t, he.unfoldLeaf l2 n t ht⟩
  refine ⟨hfresh', ?_, hkeys⟩
  -- transfer an unfolding in T' of a key back to T
  have back : ∀ (g : GKind) (a : ItemKind), KeyOK T g → g = GKind.mk' T' a → ∀ n ta,
      T'.unfoldKind n a = some ta → ∃ m, T.unfoldKind m a = some ta := by
    intro g a hk hg n ta hta
    subst hg
    obtain ⟨l, u⟩ := hk
    by_cases hid : a.hasId = true
    · obtain ⟨m, t, ht⟩ := u (by simp [gkind_uid, hid, he.uid])
      have := unfoldKind_det T' (he.unfoldLeaf l m t ht) hta
      subst this; exact ⟨m, ht⟩
    · have hid' : a.hasId = false := by simpa using hid
      cases a with
      | value v =>
        cases v with
        | prim p =>
          cases n with
          | zero => simp [Types.unfoldKind] at hta
          | succ n =>
            cases n with
            | zero => simp [Types.unfoldKind, Types.unfoldVT] at hta
            | succ n =>
              refine ⟨n + 2, ?_⟩
              simpa [Types.unfoldKind, Types.unfoldVT] using hta
        | _ => simp [ItemKind.hasId] at hid'
      | func _ => simp [ItemKind.hasId] at hid'
      | type ty =>
        cases ty with
        | value v =>
          cases v with
          | prim p =>
            cases n with
            | zero => simp [Types.unfoldKind] at hta
            | succ n =>
              cases n with
              | zero => simp [Types.unfoldKind, Types.unfoldVT] at hta
              | succ n =>
                refine ⟨n + 2, ?_⟩
                simpa [Types.unfoldKind, Types.unfoldVT] using hta
          | _ => simp [ItemKind.hasId] at hid'
        | func _ => simp [ItemKind.hasId] at hid'
        | _ => cases l
      | _ => cases l
  intro at_ a bt b hat hbt hmem n ta tb hta htb
  obtain ⟨k1, k2⟩ := h.keys _ hmem
  have keq : ∀ k, GKind.mk' T' k = GKind.mk' T k := fun k => by simp [GKind.mk', he.uid]
  rcases hat with hat | rfl <;> rcases hbt with hbt | rfl
  · exact h.sound at_ a bt b (.inl hat) (.inl hbt) hmem n ta tb hta htb
  · obtain ⟨m, hm⟩ := back _ b k2 rfl n tb htb
    rw [keq] at hmem
    exact h.sound at_ a T b (.inl hat) (.inr rfl) hmem (max n m) ta tb
      (unfoldKind_mono _ (Nat.le_max_left _ _) _ _ hta) (unfoldKind_mono _ (Nat.le_max_right _ _) _ _ hm)
  · obtain ⟨m, hm⟩ := back _ a k1 rfl n ta hta
    rw [keq] at hmem
    exact h.sound T a bt b (.inr rfl) (.inl hbt) hmem (max n m) ta tb
      (unfoldKind_mono _ (Nat.le_max_right _ _) _ _ hm) (unfoldKind_mono _ (Nat.le_max_left _ _) _ _ htb)
  · obtain ⟨m, hm⟩ := back _ a k1 rfl n ta hta
    obtain ⟨m', hm'⟩ := back _ b k2 rfl n tb htb
    rw [keq, keq] at hmem
    exact h.sound T a T b (.inr rfl) (.inr rfl) hmem (max m m') ta tb
      (unfoldKind_mono _ (Nat.le_max_left _ _) _ _ hm) (unfoldKind_mono _ (Nat.le_max_right _ _) _ _ hm')

/-- a change of the aggregator's collection that keeps uid and value-level arenas (e.g. setting an
interface) is an extension -/
theorem ext_of_eq {T T' : Types} (hu : T'.uid = T.uid) (hd : T'.defined = T.defined) (hf : T'.funcs = T.funcs)
    (hr : T'.resources = T.resources) : Ext T T' :=
  ⟨hu, ⟨[], by simp [hd]⟩, ⟨[], by simp [hf]⟩, hr⟩

/-! ### `is_subtype` on leaf kinds touches the memo only at the queried key -/

theorem inner_leaf_state (fwd bwd : Checker → ItemKind → ItemKind → R × Checker) (n : Nat) (c : Checker)
    (at_ : Types) (a : ItemKind) (bt : Types) (b : ItemKind) (hl : LeafK a ∨ LeafK b) :
    (isSubtypeInner fwd bwd n c at_ a bt b).2 = c := by
  rcases hl with hl | hl
  · cases a with
    | func _ => cases b <;> rfl
    | value _ => cases b <;> rfl
    | type ta =>
      cases ta with
      | func _ => cases b <;> first | rfl | (rename_i t; cases t <;> rfl)
      | value _ => cases b <;> first | rfl | (rename_i t; cases t <;> rfl)
      | _ => cases hl
    | _ => cases hl
  · cases b with
    | func _ => cases a <;> first | rfl | (rename_i t; cases t <;> rfl)
    | value _ => cases a <;> first | rfl | (rename_i t; cases t <;> rfl)
    | type tb =>
      cases tb with
      | func _ => cases a <;> first | rfl | (rename_i t; cases t <;> rfl)
      | value _ => cases a <;> first | rfl | (rename_i t; cases t <;> rfl)
      | _ => cases hl
    | _ => cases hl

theorem isSubtype_leaf_state (n : Nat) (c : Checker) (at_ : Types) (a : ItemKind) (bt : Types) (b : ItemKind)
    (hl : LeafK a ∨ LeafK b) :
    (isSubtype n c at_ a bt b).2 = c ∨
      ((isSubtype n c at_ a bt b).1 = .ok ∧
        (isSubtype n c at_ a bt b).2 = { c with cache := (GKind.mk' at_ a, GKind.mk' bt b) :: c.cache }) := by
  cases n with
  | zero => left; rfl
  | succ n =>
    simp only [isSubtype]
    split
    · left; rfl
    · have hst := inner_leaf_state (fun c x y => isSubtype n c at_ x bt y) (fun c y x => isSubtype n c bt y at_ x)
        n c at_ a bt b hl
      cases hr : isSubtypeInner (fun c x y => isSubtype n c at_ x bt y) (fun c y x => isSubtype n c bt y at_ x)
          n c at_ a bt b with
      | mk r c' =>
        rw [hr] at hst
        simp only at hst
        subst hst
        cases r with
        | ok => right; exact ⟨rfl, rfl⟩
        | err m => left; rfl
        | panic m => left; rfl

/-! ### the aggregator's check on leaf kinds -/

theorem leaf_prim_unfolds (T : Types) {a : ItemKind} (hl : LeafK a) (hid : a.hasId = false) :
    ∃ n t, T.unfoldKind n a = some t := by
  cases a with
  | value v =>
    cases v with
    | prim p => exact ⟨2, .value (.prim p), by simp [Types.unfoldKind, Types.unfoldVT]⟩
    | _ => simp [ItemKind.hasId] at hid
  | func _ => simp [ItemKind.hasId] at hid
  | type ty =>
    cases ty with
    | value v =>
      cases v with
      | prim p => exact ⟨2, .type (.prim p), by simp [Types.unfoldKind, Types.unfoldVT]⟩
      | _ => simp [ItemKind.hasId] at hid
    | func _ => simp [ItemKind.hasId] at hid
    | _ => cases hl
  | _ => cases hl

theorem Types.fuel_ge (T : Types) : T.defined.length + 2 ≤ T.fuel := by
  simp only [Types.fuel]; omega

theorem run_chkSubtype (at_ : Types) (a : ItemKind) (bt : Types) (b : ItemKind) (s : AggState) :
    chkSubtype at_ a bt b s =
      match isSubtype (checkFuel at_ bt) s.chk at_ a bt b with
      | (.panic m, _) => .error (.panic m)
      | (r, c') => .ok (r, { s with chk := c' }) := by
  unfold chkSubtype
  simp only [run_bind, run_get]
  cases h : isSubtype (checkFuel at_ bt) s.chk at_ a bt b with
  | mk r c' => cases r <;> rfl

/-- **the checker inside the aggregator, on leaf kinds**: for kinds of collections of `W ∪ {T}` that
unfold (within `checkFuel`) to trees with distinct names, `chkSubtype` returns a verdict that is
`Ok` exactly when the name-only views are in the subtype relation, never panics, changes only
the checker, and keeps the memo invariant -/
theorem chkSubtype_leaf {W : Colls} {T : Types} (s : AggState) (hc : CInv W T s.chk.cache)
    (at_ bt : Types) (hat : W.mem at_ ∨ at_ = T) (hbt : W.mem bt ∨ bt = T) (a b : ItemKind)
    (la : LeafK a) (lb : LeafK b) (ta tb : Tree)
    (ha : at_.unfoldKind (checkFuel at_ bt) a = some ta) (hb : bt.unfoldKind (checkFuel at_ bt) b = some tb)
    (hnda : ta.namesDistinct = true) (hndb : tb.namesDistinct = true) :
    ∃ r c', chkSubtype at_ a bt b s = .ok (r, { s with chk := c' }) ∧ (r = .ok ↔ subNames ta tb = true) ∧
      (∀ m, r ≠ .panic m) ∧ CInv W T c'.cache := by
  have hspec := check_iff_subNames' (collsWith W T hc.fresh) (checkFuel at_ bt) s.chk at_ bt a b ta tb hat hbt
    hc.sound ha hb hnda hndb
  obtain ⟨hiff, hnp, hms, _⟩ := hspec
  have hstate := isSubtype_leaf_state (checkFuel at_ bt) s.chk at_ a bt b (.inl la)
  have key_ok : ∀ (X : Types) (x : ItemKind) (n : Nat) (tx : Tree), (W.mem X ∨ X = T) → LeafK x →
      X.unfoldKind n x = some tx → KeyOK T (GKind.mk' X x) := by
    intro X x n tx hX lx hx
    refine ⟨lx, fun hu => ?_⟩
    rcases hX with hX | rfl
    · by_cases hid : x.hasId = true
      · simp only [gkind_uid, hid, ↓reduceIte] at hu
        exact absurd hu (hc.fresh X hX)
      · show ∃ n t, T.unfoldKind n x = some t
        exact leaf_prim_unfolds T lx (by simpa using hid)
    · exact ⟨n, tx, hx⟩
  cases hr : isSubtype (checkFuel at_ bt) s.chk at_ a bt b with
  | mk r c' =>
    rw [hr] at hiff hnp hms hstate
    simp only at hiff hnp hms hstate
    have hcinv : CInv W T c'.cache := by
      refine ⟨hc.fresh, hms, ?_⟩
      rcases hstate with rfl | ⟨_, rfl⟩
      · exact hc.keys
      · intro e he
        simp only [List.mem_cons] at he
        rcases he with rfl | he
        · exact ⟨key_ok at_ a _ ta hat la ha, key_ok bt b _ tb hbt lb hb⟩
        · exact hc.keys e he
    refine ⟨r, c', ?_, hiff, hnp, hcinv⟩
    rw [run_chkSubtype, hr]
    cases r with
    | ok => rfl
    | err m => rfl
    | panic m => exact absurd rfl (hnp m)

end Wac.AggP
