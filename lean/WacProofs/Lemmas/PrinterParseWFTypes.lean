import WacProofs.Lemmas.PrinterParseWFBase
/-
  C13, "every tree the parser model returns is well-formed": types (`parseType`, by induction on
  the fuel), named types, result lists, function types.
-/
namespace Wac.Lemmas.PrinterWF
open Wac Wac.Ast Wac.Lex Wac.Parse

theorem wfTys_cons (t : Ty) (r : List Ty) : wfTys (t :: r) = (t.wf && wfTys r) := by rfl
theorem wfTys_nil : wfTys [] = true := by rfl
theorem Ty.wf_Tuple (ts : List Ty) (sp : Span) : (Ty.Tuple ts sp).wf = (!ts.isEmpty && wfTys ts) := by rfl
theorem Ty.wf_List (t : Ty) (sp : Span) : (Ty.List t sp).wf = t.wf := by rfl
theorem Ty.wf_Option (t : Ty) (sp : Span) : (Ty.Option t sp).wf = t.wf := by rfl
theorem Ty.wf_Borrow (id : Ident) (sp : Span) : (Ty.Borrow id sp).wf = id.wf := by rfl
theorem Ty.wf_Ident (id : Ident) : (Ty.Ident id).wf = id.wf := by rfl

theorem wfTys_of_forall (ts : List Ty) (h : ∀ t ∈ ts, t.wf = true) : wfTys ts = true := by
  induction ts with
  | nil => rfl
  | cons t r ih =>
    rw [wfTys_cons, h t (List.mem_cons_self ..), ih (fun x hx => h x (List.mem_cons_of_mem _ hx))]
    rfl

theorem Ty.wf_Result (ok err : Option Ty) (sp : Span)
    (hok : ∀ t, ok = some t → t.wf = true) (herr : ∀ t, err = some t → t.wf = true) :
    (Ty.Result ok err sp).wf = true := by
  cases ok with
  | none =>
    cases err with
    | none => rfl
    | some e => exact herr e rfl
  | some o =>
    cases err with
    | none => exact hok o rfl
    | some e =>
      show (o.wf && e.wf) = true
      rw [hok o rfl, herr e rfl]; rfl

theorem prim_post {st : PState} (hst : ToksOK st) (mk : Span → Ty) (hmk : ∀ sp, (mk sp).wf = true) :
    Post (match st.next with
      | (some t, st') => (.ok (mk t.span, st') : PR Ty)
      | (none, _) => .error (.Panic "Type: next().unwrap()")) (fun t => t.wf = true) := by
  have hn := ToksOK_next hst
  revert hn
  cases st.next with
  | mk o st' =>
    intro hn
    cases o with
    | none => exact Post_error
    | some t => exact Post_ok (hmk _) hn

/-- `_` or a type (the two positions of `result<…>`) -/
theorem underscoreOrType_post (fuel : Nat)
    (ih : ∀ {st : PState}, ToksOK st → Post (parseType fuel st) (fun t => t.wf = true))
    {st : PState} (hst : ToksOK st) :
    Post (if peekIs st .Underscore then (.ok (none, st.next.2) : PR (Option Ty))
      else if peekIn st typePeeks then do
        let (t, st) ← parseType fuel st
        .ok (some t, st)
      else .error (lookaheadError st (.Underscore :: typePeeks)))
      (fun o => ∀ t, o = some t → t.wf = true) := by
  split
  · exact Post_ok (fun t h => by cases h) (ToksOK_next hst)
  · split
    · pbind ih hst => t st1 ht hst1
      exact Post_ok (fun t' h => by cases h; exact ht) hst1
    · exact Post_error

theorem parseType_post : ∀ (fuel : Nat) {st : PState}, ToksOK st →
    Post (parseType fuel st) (fun t => t.wf = true) := by
  intro fuel
  induction fuel with
  | zero => intro st _; unfold parseType; exact Post_error
  | succ fuel ih =>
    intro st hst
    unfold parseType
    dsimp only
    split
    iterate 13 exact prim_post hst _ (fun _ => rfl)
    · -- tuple
      pbind parseToken_post _ hst => kw st1 _ hst1
      pbind parseToken_post _ hst1 => _ st2 _ hst2
      split
      · exact Post_error
      · pbind parseDelimited_post _ _ _ (fun _ h => ih h) fuel hst2 => tys st3 htys hst3
        split
        · exact Post_error
        · rename_i hne
          pbind parseToken_post _ hst3 => close st4 _ hst4
          refine Post_ok ?_ hst4
          rw [Ty.wf_Tuple, wfTys_of_forall _ htys]
          simpa using hne
    · pbind parseToken_post _ hst => kw st1 _ hst1
      pbind parseToken_post _ hst1 => _ st2 _ hst2
      pbind ih hst2 => ty st3 hty hst3
      pbind parseToken_post _ hst3 => close st4 _ hst4
      exact Post_ok (by rw [Ty.wf_List]; exact hty) hst4
    · pbind parseToken_post _ hst => kw st1 _ hst1
      pbind parseToken_post _ hst1 => _ st2 _ hst2
      pbind ih hst2 => ty st3 hty hst3
      pbind parseToken_post _ hst3 => close st4 _ hst4
      exact Post_ok (by rw [Ty.wf_Option]; exact hty) hst4
    · -- result
      pbind parseToken_post _ hst => kw st1 _ hst1
      refine Post_bind (parseOptional_post _ hst1 (P := fun r : Option Ty × Option Ty × Span =>
          (∀ t, r.1 = some t → t.wf = true) ∧ (∀ t, r.2.1 = some t → t.wf = true)) ?_) ?_
      · intro sa hsa
        pbind underscoreOrType_post fuel ih hsa => ok sb hok hsb
        pbind parseOptional_post _ hsb (fun sc hsc => underscoreOrType_post fuel ih hsc) => err sc herr hsc
        pbind parseToken_post _ hsc => close sd _ hsd
        refine Post_ok ⟨hok, ?_⟩ hsd
        intro t ht
        cases err with
        | none => cases ht
        | some e => exact herr e rfl t ht
      · intro r st2 hr hst2
        dsimp only
        split
        · rename_i ok err span
          obtain ⟨h1, h2⟩ := hr (ok, err, span) rfl
          exact Post_ok (Ty.wf_Result _ _ _ h1 h2) hst2
        · exact Post_ok rfl hst2
    · pbind parseToken_post _ hst => kw st1 _ hst1
      pbind parseToken_post _ hst1 => _ st2 _ hst2
      pbind parseIdent_post hst2 => id st3 hid hst3
      pbind parseToken_post _ hst3 => close st4 _ hst4
      exact Post_ok (by rw [Ty.wf_Borrow]; exact hid) hst4
    · pbind parseIdent_post hst => id st3 hid hst3
      exact Post_ok (by rw [Ty.wf_Ident]; exact hid) hst3
    · exact Post_error

theorem parseNamedType_post (fuel : Nat) {st : PState} (hst : ToksOK st) :
    Post (parseNamedType fuel st) (fun n => n.wf = true) := by
  unfold parseNamedType
  pbind parseIdent_post hst => id st1 hid hst1
  pbind parseToken_post _ hst1 => _ st2 _ hst2
  pbind parseType_post fuel hst2 => ty st3 hty hst3
  exact Post_ok (by simp [NamedType.wf, hid, hty]) hst3

theorem parseResultList_post (fuel : Nat) {st : PState} (hst : ToksOK st) :
    Post (parseResultList fuel st) (fun r => r.wf = true) := by
  unfold parseResultList
  split
  · pbind parseType_post fuel hst => ty st1 hty hst1
    exact Post_ok (by simpa [ResultList.wf] using hty) hst1
  · exact Post_error

theorem parseFuncType_post (fuel : Nat) {st : PState} (hst : ToksOK st) :
    Post (parseFuncType fuel st) (fun f => f.wf = true) := by
  unfold parseFuncType
  pbind parseToken_post _ hst => _ st1 _ hst1
  pbind parseToken_post _ hst1 => _ st2 _ hst2
  pbind parseDelimited_post _ _ _ (fun _ h => parseNamedType_post fuel h) fuel hst2 => ps st3 hps hst3
  pbind parseToken_post _ hst3 => _ st4 _ hst4
  pbind parseOptional_post _ hst4 (fun _ h => parseResultList_post fuel h) => rs st5 hrs hst5
  refine Post_ok ?_ hst5
  cases rs with
  | none => simpa [FuncType.wf, List.all_eq_true, ResultList.wf] using hps
  | some r => simpa [FuncType.wf, List.all_eq_true, hrs r rfl] using hps

theorem parseFuncTypeRef_post (fuel : Nat) {st : PState} (hst : ToksOK st) :
    Post (parseFuncTypeRef fuel st) (fun f => f.wf = true) := by
  unfold parseFuncTypeRef
  split
  · pbind parseFuncType_post fuel hst => f st1 hf hst1
    exact Post_ok (by simpa [FuncTypeRef.wf] using hf) hst1
  · pbind parseIdent_post hst => id st1 hid hst1
    exact Post_ok (by simpa [FuncTypeRef.wf] using hid) hst1
  · exact Post_error

end Wac.Lemmas.PrinterWF
