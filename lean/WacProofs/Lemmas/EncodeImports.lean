import WacProofs.Lemmas.EncodeTail
/-
  `encode_imports`: after it, every aggregated import name is realised by the import item of
  that name, every instantiation's recorded implicit arguments are its unsatisfied imports
  realised by the imports of their canonical names, and every explicit import node is realised
  by the import of its canonical name — i.e. the loop invariant `NodeInv` holds initially.
-/
namespace Wac
open Wac.Spec

/-! ### association lists keyed by names -/

theorem amGet_cons' {β} (e : Str × β) (m : List (Str × β)) (k : Str) :
    amGet (e :: m) k = if e.1 = k then some e.2 else amGet m k := by
  obtain ⟨a, b⟩ := e
  by_cases h : a = k
  · simp [amGet, h]
  · have : (a == k) = false := by simpa using h
    simp [amGet, this, h]

theorem amGet_amInsert' {β} (m : List (Str × β)) (k k' : Str) (v : β) :
    amGet (amInsert m k v) k' = if k = k' then some v else amGet m k' := by
  induction m with
  | nil => simp [amInsert, amGet_cons', amGet]
  | cons e m ih =>
    obtain ⟨a, b⟩ := e
    by_cases h : a = k
    · subst h
      simp only [amInsert, beq_self_eq_true, ↓reduceIte, amGet_cons']
      by_cases h2 : a = k' <;> simp [h2]
    · have hb : (a == k) = false := by simpa using h
      simp only [amInsert, hb, Bool.false_eq_true, ↓reduceIte, amGet_cons', ih]
      by_cases h2 : a = k'
      · subst h2
        have : ¬ k = a := fun e => h e.symm
        simp [this]
      · simp [h2]

theorem amGet_mem {β} {m : List (Str × β)} {k : Str} {v : β} (h : amGet m k = some v) : (k, v) ∈ m := by
  induction m with
  | nil => simp [amGet] at h
  | cons e m ih =>
    rw [amGet_cons'] at h
    by_cases he : e.1 = k
    · simp only [he, ↓reduceIte, Option.some.injEq] at h
      obtain ⟨a, b⟩ := e
      simp only at he h
      subst he h
      simp
    · simp only [he, ↓reduceIte] at h
      exact List.mem_cons_of_mem _ (ih h)

theorem amGet_of_mem_nodup {β} {m : List (Str × β)} (hnd : (m.map (·.1)).Nodup) {k : Str} {v : β}
    (h : (k, v) ∈ m) : amGet m k = some v := by
  induction m with
  | nil => simp at h
  | cons e m ih =>
    simp only [List.map_cons, List.nodup_cons] at hnd
    rw [amGet_cons']
    rcases List.mem_cons.mp h with e1 | e1
    · subst e1; simp
    · have : e.1 ≠ k := fun eq => hnd.1 (eq ▸ List.mem_map_of_mem (f := (·.1)) e1)
      simp [this, ih hnd.2 e1]

/-! ### emitting the imports -/

/-- every recorded interface instance is the import of that interface -/
def InstInv (st : EncSt) : Prop :=
  ∀ id idx, amGet st.instances id = some idx → Has (G st) .instance idx (.imp id)

/-- nothing but imports and opaque types was emitted between `st` and `st'` -/
structure ImpFrame (st st' : EncSt) : Prop where
  sync : Sync st'
  ext : Ext (G st) (G st')
  nodeIdx : st'.nodeIdx = st.nodeIdx
  pkgs : st'.pkgs = st.pkgs
  implicit : st'.implicit = st.implicit
  insts : (G st').w.insts = (G st).w.insts
  aliases : (G st').w.aliases = (G st).w.aliases
  exports : (G st').w.exports = (G st).w.exports
  comps : (G st').w.comps = (G st).w.comps
  names : (G st').w.names = (G st).w.names

theorem ImpFrame.refl {st : EncSt} (hs : Sync st) : ImpFrame st st :=
  ⟨hs, Ext.refl _, rfl, rfl, rfl, rfl, rfl, rfl, rfl, rfl⟩

theorem ImpFrame.trans {a b c : EncSt} (h1 : ImpFrame a b) (h2 : ImpFrame b c) : ImpFrame a c :=
  ⟨h2.sync, h1.ext.trans h2.ext, h2.nodeIdx.trans h1.nodeIdx, h2.pkgs.trans h1.pkgs, h2.implicit.trans h1.implicit,
   h2.insts.trans h1.insts, h2.aliases.trans h1.aliases, h2.exports.trans h1.exports, h2.comps.trans h1.comps,
   h2.names.trans h1.names⟩

theorem ImpFrame.typeDef {st : EncSt} (hs : Sync st) : ImpFrame st (st.emit .typeDef).1 :=
  ⟨emit_sync hs _, emit_ext _ _, emit_nodeIdx _ _, emit_pkgs _ _, emit_implicit _ _,
   by rw [emit_w, wstep_typeDef_w], by rw [emit_w, wstep_typeDef_w], by rw [emit_w, wstep_typeDef_w],
   by rw [emit_w, wstep_typeDef_w], by rw [emit_w, wstep_typeDef_w]⟩

theorem ImpFrame.import {st : EncSt} (hs : Sync st) (n : Str) (k : Kind) : ImpFrame st (st.emit (.import n k)).1 :=
  ⟨emit_sync hs _, emit_ext _ _, emit_nodeIdx _ _, emit_pkgs _ _, emit_implicit _ _,
   by rw [emit_w, wstep_import_w], by rw [emit_w, wstep_import_w], by rw [emit_w, wstep_import_w],
   by rw [emit_w, wstep_import_w], by rw [emit_w, wstep_import_w]⟩

theorem G_instances (st : EncSt) (x : List (Str × Nat)) : G { st with instances := x } = G st := rfl

theorem ImpFrame.instances {st st' : EncSt} (h : ImpFrame st st') (x : List (Str × Nat)) :
    ImpFrame st { st' with instances := x } :=
  ⟨h.sync, h.ext, h.nodeIdx, h.pkgs, h.implicit, h.insts, h.aliases, h.exports, h.comps, h.names⟩

theorem InstInv.ext {st st' : EncSt} (h : InstInv st) (he : Ext (G st) (G st')) (hi : st'.instances = st.instances) :
    InstInv st' := by
  intro id idx hq
  rw [hi] at hq
  exact he _ _ _ (h id idx hq)

theorem importDeps_ok (ds : List Str) {st : EncSt} (hs : Sync st) (hi : InstInv st) :
    ImpFrame st (importDeps ds st) ∧ InstInv (importDeps ds st) := by
  induction ds generalizing st with
  | nil => exact ⟨ImpFrame.refl hs, hi⟩
  | cons d ds ih =>
    simp only [importDeps]
    cases hq : amGet st.instances d with
    | some i => simpa [hq] using ih hs hi
    | none =>
      simp only [hq]
      have f1 := ImpFrame.typeDef hs
      have f2 := ImpFrame.import f1.sync d .instance
      have hhas := emit_has f1.sync (.import d .instance) .instance rfl
      let st2 := ((st.emit .typeDef).1.emit (.import d .instance)).1
      let idx := ((st.emit .typeDef).1.emit (.import d .instance)).2
      have f12 : ImpFrame st st2 := f1.trans f2
      have hi2 : InstInv { st2 with instances := amInsert st2.instances d idx } := by
        intro id i hq'
        simp only [amGet_amInsert'] at hq'
        rw [G_instances]
        by_cases hd : d = id
        · subst hd
          simp only [↓reduceIte, Option.some.injEq] at hq'
          subst hq'
          simpa [newTerm] using hhas
        · simp only [hd, ↓reduceIte] at hq'
          have : st2.instances = st.instances := by simp [st2, emit_instances]
          rw [this] at hq'
          exact f12.ext _ _ _ (hi id i hq')
      have := ih (st := { st2 with instances := amInsert st2.instances d idx }) f12.sync hi2
      exact ⟨(f12.instances _).trans this.1, this.2⟩

/-- `encoded` after the import loop: every entry is realised by the import of its name and
    carries the kind of its list entry -/
def EncOk (w : WState) (l : List (Str × ItemTy)) (enc : List (Str × (Kind × Nat))) : Prop :=
  ∀ nm k idx, amGet enc nm = some (k, idx) → Has w k idx (.imp nm) ∧ ∃ ty, (nm, ty) ∈ l ∧ k = ty.kind

end Wac

namespace Wac

theorem importDeps_implicit (ds : List Str) (st : EncSt) : (importDeps ds st).implicit = st.implicit := by
  induction ds generalizing st with
  | nil => rfl
  | cons d ds ih =>
    simp only [importDeps]
    split
    · exact ih st
    · rw [ih]; simp [emit_implicit]

theorem importItem_implicit (cn : Str → Str) (st : EncSt) (name : Str) (ty : ItemTy) :
    (importItem cn st name ty).1.implicit = st.implicit := by
  unfold importItem
  by_cases hk : ty.kind = .instance
  · simp only [hk, ↓reduceIte]
    cases hif : ty.iface with
    | none => simp [emit_implicit, importDeps_implicit]
    | some i =>
      simp only
      by_cases hp : providesIface name i = true
      · simp only [hp, ↓reduceIte]
        cases hq : amGet st.instances i with
        | some idx => rfl
        | none => simp [emit_implicit, importDeps_implicit]
      · simp [hp, emit_implicit, importDeps_implicit]
  · simp [hk, emit_implicit]

theorem importAll_frame (cn : Str → Str) (l : List (Str × ItemTy)) {st : EncSt} {enc : List (Str × (Kind × Nat))} :
    (importAll cn l st enc).1.implicit = st.implicit := by
  induction l generalizing st enc with
  | nil => rfl
  | cons e l ih =>
    obtain ⟨name, ty⟩ := e
    simp only [importAll]
    rw [ih, importItem_implicit]

end Wac
