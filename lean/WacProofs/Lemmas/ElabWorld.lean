import WacProofs.Lemmas.ElabPkg3
/-
  C05 `elab_denotes`, part 13 (worlds): one item of a world body.

  `world_items` of resolution.rs (model `Elab.worldItems`) is `interface_items` with two lists:
  type declarations and `use` feed the *imports* of the world, `import …` / `export …` items one of
  the two lists.  The specification (`denoteWorld`) adds with `addIfAbsent`; the resolver rejects a
  second item of the same name (`DuplicateWorldItem`, `UseConflict`, `DuplicateName`) except that a
  type declaration *overwrites* an import of the same name (`IndexMap::insert`), which WIT rejects:
  hypothesis `worldFreshB` (no world-level declaration re-declares a name the world already imports,
  the exports of an inline interface are pairwise distinct).
-/
namespace Wac.Elab
open Wac Wac.Spec.Wit Wac.Decode

variable {ρ : Nat → Res}

set_option linter.unusedSimpArgs false

theorem Grow.addWorld (st : St) (x : World) : Grow st.types (Elab.addWorld st x).1.types := by
  refine ⟨⟨rfl, fun _ _ h => h, fun _ _ h => h, fun _ _ h => h, fun _ x h => ⟨x, h, rfl, rfl⟩,
    fun _ x _ h => ⟨x, h, rfl⟩, ?_⟩, ?_, fun _ _ h => h, ?_⟩
  · intro i y _ h
    exact ⟨y, getElem?_append_lt' _ _ _ _ h, rfl, rfl⟩
  · simp [Elab.addWorld, Types.size] <;> omega
  · intro i y h
    exact getElem?_append_lt' _ _ _ _ h

/-! ### the two folds, one step at a time -/

/-- one item of `world_items` -/
def worldStep (st : St) (i : WItem) (wd : World) : M (St × World) :=
  match i with
  | .item (.use path items) =>
    match useType st path items wd.uses wd.imports with
    | .ok (st, uses, imports) => .ok (st, { wd with uses := uses, imports := imports })
    | .error e => .error e
  | .item decl =>
    match itemTypeDecl st decl wd.imports with
    | .ok (st, imports) => .ok (st, { wd with imports := imports })
    | .error e => .error e
  | .externPath imp path =>
    match alGet st.root path with
    | some (.iface i) =>
      match st.types.interfaces[i]? with
      | some itf =>
        match itf.id with
        | some id =>
          if (alGet (if imp then wd.imports else wd.exports) id).isSome then .error "DuplicateWorldItem"
          else if imp then .ok (st, { wd with imports := alInsert wd.imports id (.instance i) })
          else .ok (st, { wd with exports := alInsert wd.exports id (.instance i) })
        | none => .error "expected an interface id"
      | none => .error "dangling interface"
    | some _ => .error "NotInterface"
    | none => .error "UndefinedName"
  | .externFunc imp n sg =>
    if (alGet (if imp then wd.imports else wd.exports) n).isSome then .error "DuplicateWorldItem"
    else
      match funcType st sg.params sg.result .free none with
      | .ok (st, f) =>
        if imp then .ok (st, { wd with imports := alInsert wd.imports n (.func f) })
        else .ok (st, { wd with exports := alInsert wd.exports n (.func f) })
      | .error e => .error e
  | .externIface imp n items =>
    if (alGet (if imp then wd.imports else wd.exports) n).isSome then .error "DuplicateWorldItem"
    else
      match interfaceDecl st none items with
      | .ok (st, i) =>
        if imp then .ok (st, { wd with imports := alInsert wd.imports n (.instance i) })
        else .ok (st, { wd with exports := alInsert wd.exports n (.instance i) })
      | .error e => .error e
  | .include _ _ => .ok (st, wd)

theorem worldItems_cons (st : St) (i : WItem) (r : List WItem) (wd : World) :
    worldItems st (i :: r) wd =
      match worldStep st i wd with
      | .ok (st1, wd1) => worldItems st1 r wd1
      | .error e => .error e := by
  cases i with
  | item it =>
    cases it with
    | use path items =>
      simp only [worldItems, worldStep]
      rcases useType st path items wd.uses wd.imports with _ | ⟨st2, u, e⟩ <;> rfl
    | func n sg =>
      simp only [worldItems, worldStep]
      rcases itemTypeDecl st (.func n sg) wd.imports with _ | ⟨st2, e⟩ <;> rfl
    | record n fs =>
      simp only [worldItems, worldStep]
      rcases itemTypeDecl st (.record n fs) wd.imports with _ | ⟨st2, e⟩ <;> rfl
    | variant n fs =>
      simp only [worldItems, worldStep]
      rcases itemTypeDecl st (.variant n fs) wd.imports with _ | ⟨st2, e⟩ <;> rfl
    | enum n fs =>
      simp only [worldItems, worldStep]
      rcases itemTypeDecl st (.enum n fs) wd.imports with _ | ⟨st2, e⟩ <;> rfl
    | flags n fs =>
      simp only [worldItems, worldStep]
      rcases itemTypeDecl st (.flags n fs) wd.imports with _ | ⟨st2, e⟩ <;> rfl
    | alias n fs =>
      simp only [worldItems, worldStep]
      rcases itemTypeDecl st (.alias n fs) wd.imports with _ | ⟨st2, e⟩ <;> rfl
    | resource n fs =>
      simp only [worldItems, worldStep]
      rcases itemTypeDecl st (.resource n fs) wd.imports with _ | ⟨st2, e⟩ <;> rfl
  | externPath imp path =>
    simp only [worldItems, worldStep]
    rcases alGet st.root path with _ | b
    · rfl
    · cases b with
      | ty t => rfl
      | world w => rfl
      | iface i =>
        simp only
        rcases st.types.interfaces[i]? with _ | itf
        · rfl
        · simp only
          cases hid : itf.id with
          | none => rfl
          | some id =>
            simp only
            cases imp
            · by_cases hc : (alGet wd.exports id).isSome = true <;>
                simp only [hc, Bool.false_eq_true, if_true, if_false]
            · by_cases hc : (alGet wd.imports id).isSome = true <;> simp only [hc, Bool.false_eq_true, if_true, if_false]
  | externFunc imp n sg =>
    simp only [worldItems, worldStep]
    cases imp
    · by_cases hc : (alGet wd.exports n).isSome = true <;> simp only [hc, Bool.false_eq_true, if_true, if_false]
      rcases funcType st sg.params sg.result .free none with _ | ⟨st2, f⟩ <;> rfl
    · by_cases hc : (alGet wd.imports n).isSome = true <;> simp only [hc, Bool.false_eq_true, if_true, if_false]
      rcases funcType st sg.params sg.result .free none with _ | ⟨st2, f⟩ <;> rfl
  | externIface imp n items =>
    simp only [worldItems, worldStep]
    cases imp
    · by_cases hc : (alGet wd.exports n).isSome = true <;> simp only [hc, Bool.false_eq_true, if_true, if_false]
      rcases interfaceDecl st none items with _ | ⟨st2, f⟩ <;> rfl
    · by_cases hc : (alGet wd.imports n).isSome = true <;> simp only [hc, Bool.false_eq_true, if_true, if_false]
      rcases interfaceDecl st none items with _ | ⟨st2, f⟩ <;> rfl
  | «include» wn withs => simp only [worldItems, worldStep]

/-- one item of the first pass of `denoteWorld` -/
def denWStep (env : Env) (acc : Scope × WorldD) (wi : WItem) : Option (Scope × WorldD) :=
  match wi with
  | .item i =>
    (denoteItem [] env.ifaces acc.1 i).map fun (s, out) =>
      (s, { acc.2 with imports := out.foldl (fun l (n, t) => addIfAbsent l n t) acc.2.imports })
  | .externPath imp path =>
    match alGet env.ifaces path, alGet env.ids path with
    | some ex, some id =>
      let t := Tree.instance (Forest.ofList ex)
      some (acc.1, if imp then { acc.2 with imports := addIfAbsent acc.2.imports id t }
                   else { acc.2 with exports := addIfAbsent acc.2.exports id t })
    | _, _ => none
  | .externFunc imp n sg =>
    (sigTree acc.1 [] sg none).map fun t =>
      (acc.1, if imp then { acc.2 with imports := addIfAbsent acc.2.imports n t }
              else { acc.2 with exports := addIfAbsent acc.2.exports n t })
  | .externIface imp n its =>
    (denoteItems [] env.ifaces acc.1.next its).map fun (next, ex) =>
      let t := Tree.instance (Forest.ofList ex)
      ({ acc.1 with next := next },
        if imp then { acc.2 with imports := addIfAbsent acc.2.imports n t }
        else { acc.2 with exports := addIfAbsent acc.2.exports n t })
  | .include _ _ => some acc

/-- one item of the second pass of `denoteWorld` (the includes) -/
def denInc (env : Env) (wd : WorldD) (wi : WItem) : Option WorldD :=
  match wi with
  | .include wn withs =>
    (alGet env.worlds wn).map fun o =>
      { imports := includeInto wd.imports o.imports withs, exports := includeInto wd.exports o.exports withs }
  | _ => some wd

theorem denoteWorld_eq (env : Env) (items : List WItem) : denoteWorld env items =
    match items.foldlM (denWStep env) ({ next := env.next }, {}) with
    | none => none
    | some (s, wd) => (items.foldlM (denInc env) wd).map fun wd => (s.next, wd) := rfl

/-! ### well-formedness of a world on the specification side: no name is declared twice -/

/-- the names one item declares are new -/
def stepFreshB (env : Env) (acc : Scope × WorldD) : WItem → Bool
  | .item i =>
    match denoteItem [] env.ifaces acc.1 i with
    | some (_, out) => decide ((acc.2.imports ++ out).map (·.1)).Nodup
    | none => true
  | .externIface _ _ its =>
    match denoteItems [] env.ifaces acc.1.next its with
    | some (_, ex) => decide (ex.map (·.1)).Nodup
    | none => true
  | _ => true

/-- no world-level declaration (`use`, type declaration, resource functions) re-declares a name the
world already imports, and the export names of every inline interface are pairwise distinct -/
def worldFreshB (env : Env) : Scope × WorldD → List WItem → Bool
  | _, [] => true
  | acc, wi :: r =>
    stepFreshB env acc wi &&
      match denWStep env acc wi with
      | some acc1 => worldFreshB env acc1 r
      | none => true

/-! ### association lists -/

theorem ExpRel.get_none {T : Types} {ks : List (Str × ItemKind)} {out : List (Str × Tree)}
    (h : ExpRel ρ T ks out) (n : Str) (hn : alGet ks n = none) : alGet out n = none := by
  rcases h.get n with ⟨_, h2⟩ | ⟨k, t, hk, _⟩
  · exact h2
  · rw [hn] at hk; cases hk

theorem addIfAbsent_fresh (l : List (Str × Tree)) (n : Str) (t : Tree) (h : alGet l n = none) :
    addIfAbsent l n t = l ++ [(n, t)] := by
  simp [addIfAbsent, h]

theorem addIfAbsent_present (l : List (Str × Tree)) (n : Str) (t : Tree) (h : (alGet l n).isSome = true) :
    addIfAbsent l n t = l := by
  simp [addIfAbsent, h]

theorem foldl_addIfAbsent_fresh : ∀ (out l : List (Str × Tree)), ((l ++ out).map (·.1)).Nodup →
    out.foldl (fun l (nt : Str × Tree) => addIfAbsent l nt.1 nt.2) l = l ++ out := by
  intro out
  induction out with
  | nil => intro l _; simp
  | cons x r ih =>
    intro l hnd
    obtain ⟨n, t⟩ := x
    simp only [List.foldl_cons]
    have hfr : alGet l n = none := by
      apply alGet_none_of_not_mem
      intro hm
      simp only [List.map_append, List.map_cons] at hnd
      rw [List.nodup_append] at hnd
      exact hnd.2.2 _ hm _ (List.mem_cons_self ..) rfl
    rw [addIfAbsent_fresh _ _ _ hfr, ih (l ++ [(n, t)]) (by simpa using hnd)]
    simp

/-- a new item under a name the list does not have enters on both sides -/
theorem ExpRel.pushFresh {T : Types} {ks : List (Str × ItemKind)} {out : List (Str × Tree)} {n : Str}
    {k : ItemKind} {t : Tree} (h : ExpRel ρ T ks out) (hfresh : alGet ks n = none)
    (hk : HK [] [] T (kb T) k (renT ρ t)) (hr : ResOk ρ T k t) :
    ExpRel ρ T (alInsert ks n k) (addIfAbsent out n t) := by
  rw [alInsert_fresh _ _ _ (alGet_none_not_mem _ _ hfresh), addIfAbsent_fresh _ _ _ (h.get_none n hfresh)]
  exact All2.append h ⟨rfl, hk, hr⟩

end Wac.Elab
