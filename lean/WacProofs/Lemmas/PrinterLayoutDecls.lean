import WacProofs.Lemmas.PrinterLayoutTypes
/-
  C13, layout layer: the declaration-level printer functions (`constructor` … `type_statement`)
  keep the lexing invariant and write the tokens of the token-level printer.  One lemma per
  function of `WacModel/Printer.lean`, in the order of that file.
-/
set_option linter.unusedSimpArgs false
set_option linter.unusedVariables false

namespace Wac.Lemmas.PrinterLayout
open Wac Wac.Ast Wac.Lex Wac.Print Wac.PrintTok Wac.Lemmas.PrinterLex

/-- after an identifier: also fine for "identifier or package path" -/
theorem stopWP_le_stopW {p : PS} {ts ls} (h : Inv p ts ls stopW) : Inv p ts ls stopWP :=
  h.weaken (fun r hr => by
    simp only [stopWP, Bool.and_eq_true] at hr; exact hr.1)

/-- after a package path: also fine for "identifier or package path" -/
theorem stopWP_le_stopP {p : PS} {ts ls} (h : Inv p ts ls stopP) : Inv p ts ls stopWP :=
  h.weaken (fun r hr => by
    simp only [stopWP, Bool.and_eq_true] at hr; exact hr.2)

theorem stopWP_le_sAny {p : PS} {ts ls} (h : Inv p ts ls sAny) : Inv p ts ls stopWP :=
  h.weaken (fun _ _ => rfl)

/-! ### resources -/

theorem constructor_inv (c : Constructor) (hw : c.wf = true) {p : PS} {ts : List PTok}
    (h : Inv p ts [] sAny) :
    Inv (Print.constructor p c) (ts ++ PrintTok.constructor c) [] sAny := by
  have hw' : ∀ n ∈ c.params, n.wf = true := by
    simpa [Constructor.wf, List.all_eq_true] using hw
  have h1 := (h.docs c.docs).indent.lit_constructor_lp wordOK_sAny
  have h2 := namedTypes_inv c.params hw' h1
  have h3 := h2.lit_rp_semi (fun _ => rfl)
  exact h3.cast (by simp [Print.constructor])
    (by simp [PrintTok.constructor, dkw, kw, oparen, cparen, semi])

theorem method_inv (m : Method) (hw : m.wf = true) {p : PS} {ts : List PTok}
    (h : Inv p ts [] sAny) :
    Inv (Print.method p m) (ts ++ PrintTok.method m) [] sAny := by
  have hw' : m.id.wf = true ∧ m.ty.wf = true := by simpa [Method.wf] using hw
  have h1 := ((h.docs m.docs).indent.ident m.id hw'.1 wordOK_sAny).lit_colon_sp (fun _ hr => hr)
  unfold Print.method PrintTok.method
  cases hs : m.isStatic with
  | true =>
    have h2 := h1.lit_static_sp wordOK_sAny
    have h3 := (funcType_inv m.ty hw'.2 h2 wordOK_sAny).lit_semi (fun _ => rfl)
    exact h3.cast (by simp) (by simp [dident, colon, kw, semi])
  | false =>
    have h3 := (funcType_inv m.ty hw'.2 h1 wordOK_sAny).lit_semi (fun _ => rfl)
    exact h3.cast (by simp) (by simp [dident, colon, kw, semi])

theorem resourceMethod_inv (m : ResourceMethod) (hw : m.wf = true) {p : PS} {ts : List PTok}
    (h : Inv p ts [] sAny) :
    Inv (Print.resourceMethod p m) (ts ++ PrintTok.resourceMethod m) [] sAny := by
  cases m with
  | Constructor c => exact constructor_inv c (by simpa [ResourceMethod.wf] using hw) h
  | Method m => exact method_inv m (by simpa [ResourceMethod.wf] using hw) h

theorem resourceDecl_inv (d : ResourceDecl) (hw : d.wf = true) {p : PS} {ts : List PTok}
    (h : Inv p ts [] sAny) :
    Inv (Print.resourceDecl p d) (ts ++ PrintTok.resourceDecl d) [] sAny := by
  have hw' : d.id.wf = true ∧ ∀ m ∈ d.methods, m.wf = true := by
    simpa [ResourceDecl.wf, List.all_eq_true] using hw
  have h1 := (((h.docs d.docs).indent.lit_resource_sp wordOK_sAny).ident d.id hw'.1
    wordOK_sAny).lit_sp_lb (fun _ => rfl)
  have h2 := (h1.nl (fun _ => rfl)).inc
  have h3 := (separated_inv Print.resourceMethod PrintTok.resourceMethod d.methods
    (fun x hx p ts h => resourceMethod_inv x (hw'.2 x hx) h) h2).dec
  have h4 := h3.indent.lit_rb (fun _ => rfl)
  exact h4.cast (by simp [Print.resourceDecl])
    (by simp [PrintTok.resourceDecl, dkw, kw, obrace, cbrace, PrintTok.ident])

/-! ### variants, records, flags, enums -/

theorem variantCase_inv (c : VariantCase) (hw : c.wf = true) {p : PS} {ts : List PTok}
    (h : Inv p ts [] sAny) :
    Inv (Print.variantCase p c) (ts ++ PrintTok.variantCase c) [] stopW := by
  have hw' := hw
  simp only [VariantCase.wf, Bool.and_eq_true] at hw'
  have h1 := (h.docs c.docs).indent.ident c.id hw'.1 wordOK_sAny
  unfold Print.variantCase PrintTok.variantCase
  cases hk : c.ty with
  | none => exact h1.cast (by simp) (by simp [dident])
  | some t =>
    have ht : t.wf = true := by have := hw'.2; rw [hk] at this; simpa using this
    have h2 := h1.lit_lp (fun _ => rfl)
    have h3 := (ty_inv t ht h2 wordOK_sAny).lit_rp (fun _ => rfl)
    exact (stopW_le_sAny h3).cast (by simp) (by simp [dident, oparen, cparen, kw])

theorem variantCases_fold_inv (xs : List VariantCase) (hw : ∀ c ∈ xs, c.wf = true) :
    ∀ (p : PS) (ts : List PTok), Inv p ts [] sAny →
    Inv (xs.foldl (fun p c => ((Print.variantCase p.doIndent c).writeS ",").newline) p)
      (ts ++ xs.flatMap (fun c => PrintTok.variantCase c ++ [comma])) [] sAny := by
  induction xs with
  | nil => intro p ts h; simpa using h
  | cons c r ih =>
    intro p ts h
    have hr := ih (fun y hy => hw y (List.mem_cons_of_mem _ hy))
    have h1 := variantCase_inv c (hw c (by simp)) h.indent
    have h2 := (h1.lit_comma (fun _ => rfl)).nl (fun _ => rfl)
    exact (hr _ _ h2).cast (by simp) (by simp [comma, kw])

theorem variantDecl_inv (d : VariantDecl) (hw : d.wf = true) {p : PS} {ts : List PTok}
    (h : Inv p ts [] sAny) :
    Inv (Print.variantDecl p d) (ts ++ PrintTok.variantDecl d) [] sAny := by
  have hw' : (d.id.wf = true ∧ d.cases ≠ []) ∧ ∀ c ∈ d.cases, c.wf = true := by
    simpa [VariantDecl.wf, List.all_eq_true] using hw
  have h1 := (((h.docs d.docs).indent.lit_variant_sp wordOK_sAny).ident d.id hw'.1.1
    wordOK_sAny).lit_sp_lb (fun _ => rfl)
  have h2 := (h1.nl (fun _ => rfl)).inc
  have h3 := (variantCases_fold_inv d.cases hw'.2 _ _ h2).dec
  have h4 := h3.indent.lit_rb (fun _ => rfl)
  exact h4.cast (by simp [Print.variantDecl])
    (by simp [PrintTok.variantDecl, dkw, kw, obrace, cbrace, PrintTok.ident])

theorem fields_fold_inv (xs : List Field) (hw : ∀ f ∈ xs, f.wf = true) :
    ∀ (p : PS) (ts : List PTok), Inv p ts [] sAny →
    Inv (xs.foldl (fun p (f : Field) =>
        ((Print.ty (((Print.docs p f.docs).doIndent.write (identSrc f.id)).writeS ": ") f.ty).writeS
          ",").newline) p)
      (ts ++ xs.flatMap (fun f => dident f.docs f.id :: colon :: PrintTok.ty f.ty ++ [comma]))
      [] sAny := by
  induction xs with
  | nil => intro p ts h; simpa using h
  | cons f r ih =>
    intro p ts h
    have hr := ih (fun y hy => hw y (List.mem_cons_of_mem _ hy))
    have hf : f.id.wf = true ∧ f.ty.wf = true := by
      have := hw f (by simp); simpa [Field.wf] using this
    have h1 := ((h.docs f.docs).indent.ident f.id hf.1 wordOK_sAny).lit_colon_sp (fun _ hr => hr)
    have h2 := ((ty_inv f.ty hf.2 h1 wordOK_sAny).lit_comma (fun _ => rfl)).nl (fun _ => rfl)
    exact (hr _ _ h2).cast (by simp) (by simp [comma, colon, kw, dident])

theorem recordDecl_inv (d : RecordDecl) (hw : d.wf = true) {p : PS} {ts : List PTok}
    (h : Inv p ts [] sAny) :
    Inv (Print.recordDecl p d) (ts ++ PrintTok.recordDecl d) [] sAny := by
  have hw' : (d.id.wf = true ∧ d.fields ≠ []) ∧ ∀ c ∈ d.fields, c.wf = true := by
    simpa [RecordDecl.wf, List.all_eq_true] using hw
  have h1 := (((h.docs d.docs).indent.lit_record_sp wordOK_sAny).ident d.id hw'.1.1
    wordOK_sAny).lit_sp_lb (fun _ => rfl)
  have h2 := (h1.nl (fun _ => rfl)).inc
  have h3 := (fields_fold_inv d.fields hw'.2 _ _ h2).dec
  have h4 := h3.indent.lit_rb (fun _ => rfl)
  exact h4.cast (by simp [Print.recordDecl])
    (by simp [PrintTok.recordDecl, dkw, kw, obrace, cbrace, PrintTok.ident])

theorem flags_fold_inv (xs : List Flag) (hw : ∀ f ∈ xs, f.wf = true) :
    ∀ (p : PS) (ts : List PTok), Inv p ts [] sAny →
    Inv (xs.foldl (fun p (f : Flag) =>
        (((Print.docs p f.docs).doIndent.write (identSrc f.id)).writeS ",").newline) p)
      (ts ++ xs.flatMap (fun f => [dident f.docs f.id, comma])) [] sAny := by
  induction xs with
  | nil => intro p ts h; simpa using h
  | cons f r ih =>
    intro p ts h
    have hr := ih (fun y hy => hw y (List.mem_cons_of_mem _ hy))
    have hf : f.id.wf = true := by
      have := hw f (by simp); simpa [Flag.wf] using this
    have h1 := (h.docs f.docs).indent.ident f.id hf wordOK_sAny
    have h2 := (h1.lit_comma (fun _ => rfl)).nl (fun _ => rfl)
    exact (hr _ _ h2).cast (by simp) (by simp [comma, kw, dident])

theorem flagsDecl_inv (d : FlagsDecl) (hw : d.wf = true) {p : PS} {ts : List PTok}
    (h : Inv p ts [] sAny) :
    Inv (Print.flagsDecl p d) (ts ++ PrintTok.flagsDecl d) [] sAny := by
  have hw' : (d.id.wf = true ∧ d.flags ≠ []) ∧ ∀ c ∈ d.flags, c.wf = true := by
    simpa [FlagsDecl.wf, List.all_eq_true] using hw
  have h1 := (((h.docs d.docs).indent.lit_flags_sp wordOK_sAny).ident d.id hw'.1.1
    wordOK_sAny).lit_sp_lb (fun _ => rfl)
  have h2 := (h1.nl (fun _ => rfl)).inc
  have h3 := (flags_fold_inv d.flags hw'.2 _ _ h2).dec
  have h4 := h3.indent.lit_rb (fun _ => rfl)
  exact h4.cast (by simp [Print.flagsDecl])
    (by simp [PrintTok.flagsDecl, dkw, kw, obrace, cbrace, PrintTok.ident])

theorem enumCases_fold_inv (xs : List EnumCase) (hw : ∀ f ∈ xs, f.wf = true) :
    ∀ (p : PS) (ts : List PTok), Inv p ts [] sAny →
    Inv (xs.foldl (fun p (c : EnumCase) =>
        (((Print.docs p c.docs).doIndent.write (identSrc c.id)).writeS ",").newline) p)
      (ts ++ xs.flatMap (fun c => [dident c.docs c.id, comma])) [] sAny := by
  induction xs with
  | nil => intro p ts h; simpa using h
  | cons f r ih =>
    intro p ts h
    have hr := ih (fun y hy => hw y (List.mem_cons_of_mem _ hy))
    have hf : f.id.wf = true := by
      have := hw f (by simp); simpa [EnumCase.wf] using this
    have h1 := (h.docs f.docs).indent.ident f.id hf wordOK_sAny
    have h2 := (h1.lit_comma (fun _ => rfl)).nl (fun _ => rfl)
    exact (hr _ _ h2).cast (by simp) (by simp [comma, kw, dident])

theorem enumDecl_inv (d : EnumDecl) (hw : d.wf = true) {p : PS} {ts : List PTok}
    (h : Inv p ts [] sAny) :
    Inv (Print.enumDecl p d) (ts ++ PrintTok.enumDecl d) [] sAny := by
  have hw' : (d.id.wf = true ∧ d.cases ≠ []) ∧ ∀ c ∈ d.cases, c.wf = true := by
    simpa [EnumDecl.wf, List.all_eq_true] using hw
  have h1 := (((h.docs d.docs).indent.lit_enum_sp wordOK_sAny).ident d.id hw'.1.1
    wordOK_sAny).lit_sp_lb (fun _ => rfl)
  have h2 := (h1.nl (fun _ => rfl)).inc
  have h3 := (enumCases_fold_inv d.cases hw'.2 _ _ h2).dec
  have h4 := h3.indent.lit_rb (fun _ => rfl)
  exact h4.cast (by simp [Print.enumDecl])
    (by simp [PrintTok.enumDecl, dkw, kw, obrace, cbrace, PrintTok.ident])

theorem typeDecl_inv (d : TypeDecl) (hw : d.wf = true) {p : PS} {ts : List PTok}
    (h : Inv p ts [] sAny) :
    Inv (Print.typeDecl p d) (ts ++ PrintTok.typeDecl d) [] sAny := by
  cases d with
  | Variant d => exact variantDecl_inv d (by simpa [TypeDecl.wf] using hw) h
  | Record d => exact recordDecl_inv d (by simpa [TypeDecl.wf] using hw) h
  | Flags d => exact flagsDecl_inv d (by simpa [TypeDecl.wf] using hw) h
  | Enum d => exact enumDecl_inv d (by simpa [TypeDecl.wf] using hw) h
  | Alias d => exact typeAlias_inv d (by simpa [TypeDecl.wf] using hw) h

theorem itemTypeDecl_inv (d : ItemTypeDecl) (hw : d.wf = true) {p : PS} {ts : List PTok}
    (h : Inv p ts [] sAny) :
    Inv (Print.itemTypeDecl p d) (ts ++ PrintTok.itemTypeDecl d) [] sAny := by
  cases d with
  | Resource d => exact resourceDecl_inv d (by simpa [ItemTypeDecl.wf] using hw) h
  | Variant d => exact variantDecl_inv d (by simpa [ItemTypeDecl.wf] using hw) h
  | Record d => exact recordDecl_inv d (by simpa [ItemTypeDecl.wf] using hw) h
  | Flags d => exact flagsDecl_inv d (by simpa [ItemTypeDecl.wf] using hw) h
  | Enum d => exact enumDecl_inv d (by simpa [ItemTypeDecl.wf] using hw) h
  | Alias d => exact typeAlias_inv d (by simpa [ItemTypeDecl.wf] using hw) h

/-! ### `use` -/

theorem usePath_inv (u : UsePath) (hw : u.wf = true) {p : PS} {ts : List PTok} {S : Stop}
    (h : Inv p ts [] S) (hS : WordOK S) :
    Inv (Print.usePath p u) (ts ++ [PrintTok.usePath u]) [] stopWP := by
  cases u with
  | Package path =>
    exact (stopWP_le_stopP (h.pkgPath path (by simpa [UsePath.wf] using hw) hS)).cast
      (by simp [Print.usePath, Print.packagePath]) (by simp [PrintTok.usePath, PrintTok.packagePath])
  | Ident id =>
    exact (stopWP_le_stopW (h.ident id (by simpa [UsePath.wf] using hw) hS)).cast
      (by simp [Print.usePath]) (by simp [PrintTok.usePath, PrintTok.ident])

/-- the loop over the items of a `use` -/
theorem useItems_fold_inv (xs : List UseItem) (hw : ∀ n ∈ xs, n.wf = true) :
    ∀ {p : PS} {ts : List PTok} (first : Bool), Inv p ts [] (if first then sAny else stopW) →
    Inv (xs.foldl (fun (acc : PS × Bool) (item : UseItem) =>
        let p := if acc.2 then acc.1 else acc.1.writeS ", "
        let p := p.write (identSrc item.id)
        let p := match item.asId with
          | some a => (p.writeS " as ").write (identSrc a)
          | none => p
        (p, false)) (p, first)).1
      (ts ++ PrintTok.useItems first xs) [] stopW := by
  induction xs with
  | nil =>
    intro p ts first h
    cases first
    · exact h.cast rfl (by simp [PrintTok.useItems])
    · exact (stopW_le_sAny h).cast rfl (by simp [PrintTok.useItems])
  | cons n r ih =>
    intro p ts first h
    have hn := hw n (by simp)
    simp only [UseItem.wf, Bool.and_eq_true] at hn
    have hr : ∀ m ∈ r, m.wf = true := fun m hm => hw m (List.mem_cons_of_mem _ hm)
    have h2 : Inv ((if first then p else p.writeS ", ").write (identSrc n.id))
        (ts ++ ((if first then [] else [comma]) ++ [PrintTok.ident n.id])) [] stopW := by
      cases first
      · have h1 := Inv.lit_comma_sp (S := stopW) h (fun _ => rfl)
        exact (h1.ident n.id hn.1 wordOK_sAny).cast (by simp) (by simp [comma, kw, PrintTok.ident])
      · exact (Inv.ident (S := sAny) h n.id hn.1 wordOK_sAny).cast (by simp)
          (by simp [PrintTok.ident])
    rw [List.foldl_cons]
    unfold PrintTok.useItems
    cases hk : n.asId with
    | none =>
      have h5 := ih hr false h2
      exact h5.cast (by simp [hk]) (by simp)
    | some a =>
      have ha : a.wf = true := by have := hn.2; rw [hk] at this; simpa using this
      have h3 := (h2.lit_as (fun _ => rfl)).ident a ha wordOK_sAny
      have h5 := ih hr false h3
      exact h5.cast (by simp [hk]) (by simp [kw, PrintTok.ident])

theorem useType_inv (u : Use) (hw : u.wf = true) {p : PS} {ts : List PTok}
    (h : Inv p ts [] sAny) :
    Inv (Print.useType p u) (ts ++ PrintTok.useType u) [] sAny := by
  have hw' : u.path.wf = true ∧ ∀ i ∈ u.items, i.wf = true := by
    simpa [Use.wf, List.all_eq_true] using hw
  have h1 := (h.docs u.docs).indent.lit_use_sp wordOK_sAny
  have h2 := (usePath_inv u.path hw'.1 h1 wordOK_sAny).lit_dot_lb_sp (fun _ => rfl)
  have h3 := useItems_fold_inv u.items hw'.2 true h2
  have h4 := h3.lit_sp_rb_semi (fun _ => rfl)
  exact h4.cast rfl
    (by simp [PrintTok.useType, dkw, kw, obrace, cbrace, semi])

/-! ### interfaces -/

theorem interfaceExport_inv (e : InterfaceExport) (hw : e.wf = true) {p : PS} {ts : List PTok}
    (h : Inv p ts [] sAny) :
    Inv (Print.interfaceExport p e) (ts ++ PrintTok.interfaceExport e) [] sAny := by
  have hw' : e.id.wf = true ∧ e.ty.wf = true := by simpa [InterfaceExport.wf] using hw
  have h1 := ((h.docs e.docs).indent.ident e.id hw'.1 wordOK_sAny).lit_colon_sp (fun _ hr => hr)
  have h2 := (funcTypeRef_inv e.ty hw'.2 h1 wordOK_sAny).lit_semi (fun _ => rfl)
  exact h2.cast (by simp [Print.interfaceExport])
    (by simp [PrintTok.interfaceExport, dident, colon, kw, semi])

theorem interfaceItem_inv (i : InterfaceItem) (hw : i.wf = true) {p : PS} {ts : List PTok}
    (h : Inv p ts [] sAny) :
    Inv (Print.interfaceItem p i) (ts ++ PrintTok.interfaceItem i) [] sAny := by
  cases i with
  | Use u => exact useType_inv u (by simpa [InterfaceItem.wf] using hw) h
  | Type' d => exact itemTypeDecl_inv d (by simpa [InterfaceItem.wf] using hw) h
  | Export e => exact interfaceExport_inv e (by simpa [InterfaceItem.wf] using hw) h

theorem inlineInterface_inv (i : InlineInterface) (hw : i.wf = true) {p : PS} {ts : List PTok}
    {S : Stop} (h : Inv p ts [] S) (hS : WordOK S) :
    Inv (Print.inlineInterface p i) (ts ++ PrintTok.inlineInterface i) [] sAny := by
  have hw' : ∀ x ∈ i.items, x.wf = true := by
    simpa [InlineInterface.wf, List.all_eq_true] using hw
  have h1 := h.lit_interface_lb hS
  have h2 := (h1.nl (fun _ => rfl)).inc
  have h3 := (separated_inv Print.interfaceItem PrintTok.interfaceItem i.items
    (fun x hx p ts h => interfaceItem_inv x (hw' x hx) h) h2).dec
  have h4 := h3.indent.lit_rb (fun _ => rfl)
  exact h4.cast (by simp [Print.inlineInterface])
    (by simp [PrintTok.inlineInterface, kw, obrace, cbrace])

theorem externType_inv (t : ExternType) (hw : t.wf = true) {p : PS} {ts : List PTok}
    {S : Stop} (h : Inv p ts [] S) (hS : WordOK S) :
    Inv (Print.externType p t) (ts ++ PrintTok.externType t) [] stopW := by
  cases t with
  | Ident id =>
    exact (h.ident id (by simpa [ExternType.wf] using hw) hS).cast (by simp [Print.externType])
      (by simp [PrintTok.externType, PrintTok.ident])
  | Func f => exact funcType_inv f (by simpa [ExternType.wf] using hw) h hS
  | Interface i =>
    exact stopW_le_sAny (inlineInterface_inv i (by simpa [ExternType.wf] using hw) h hS)

/-! ### worlds -/

theorem worldItemPath_inv (w : WorldItemPath) (hw : w.wf = true) {p : PS} {ts : List PTok}
    {S : Stop} (h : Inv p ts [] S) (hS : WordOK S) :
    Inv (Print.worldItemPath p w) (ts ++ PrintTok.worldItemPath w) [] stopWP := by
  cases w with
  | Named n =>
    have hn : n.id.wf = true ∧ n.ty.wf = true := by
      simpa [WorldItemPath.wf, NamedWorldItem.wf] using hw
    have h1 := (h.ident n.id hn.1 hS).lit_colon_sp (fun _ hr => hr)
    have h2 := externType_inv n.ty hn.2 h1 wordOK_sAny
    exact (stopWP_le_stopW h2).cast (by simp [Print.worldItemPath])
      (by simp [PrintTok.worldItemPath, PrintTok.ident, colon, kw])
  | Package path =>
    exact (stopWP_le_stopP (h.pkgPath path (by simpa [WorldItemPath.wf] using hw) hS)).cast
      (by simp [Print.worldItemPath, Print.packagePath])
      (by simp [PrintTok.worldItemPath, PrintTok.packagePath])
  | Ident id =>
    exact (stopWP_le_stopW (h.ident id (by simpa [WorldItemPath.wf] using hw) hS)).cast
      (by simp [Print.worldItemPath]) (by simp [PrintTok.worldItemPath, PrintTok.ident])

theorem worldRef_inv (w : WorldRef) (hw : w.wf = true) {p : PS} {ts : List PTok} {S : Stop}
    (h : Inv p ts [] S) (hS : WordOK S) :
    Inv (Print.worldRef p w) (ts ++ [PrintTok.worldRef w]) [] stopWP := by
  cases w with
  | Ident id =>
    exact (stopWP_le_stopW (h.ident id (by simpa [WorldRef.wf] using hw) hS)).cast
      (by simp [Print.worldRef]) (by simp [PrintTok.worldRef, PrintTok.ident])
  | Package path =>
    exact (stopWP_le_stopP (h.pkgPath path (by simpa [WorldRef.wf] using hw) hS)).cast
      (by simp [Print.worldRef, Print.packagePath]) (by simp [PrintTok.worldRef, PrintTok.packagePath])

/-- the loop over the `with` items of an `include` -/
theorem includeItems_fold_inv (xs : List WorldIncludeItem) (hw : ∀ i ∈ xs, i.wf = true) :
    ∀ (p : PS) (ts : List PTok), Inv p ts [] sAny →
    Inv (xs.foldl (fun p (item : WorldIncludeItem) =>
        ((((p.doIndent.write (identSrc item.fromId)).writeS " as ").write
          (identSrc item.toId)).writeS ",").newline) p)
      (ts ++ xs.flatMap (fun item =>
        [PrintTok.ident item.fromId, kw .AsKeyword "as", PrintTok.ident item.toId, comma]))
      [] sAny := by
  induction xs with
  | nil => intro p ts h; simpa using h
  | cons x r ih =>
    intro p ts h
    have hr := ih (fun y hy => hw y (List.mem_cons_of_mem _ hy))
    have hx : x.fromId.wf = true ∧ x.toId.wf = true := by
      have := hw x (by simp); simpa [WorldIncludeItem.wf] using this
    have h1 := (h.indent.ident x.fromId hx.1 wordOK_sAny).lit_as (fun _ => rfl)
    have h2 := ((h1.ident x.toId hx.2 wordOK_sAny).lit_comma (fun _ => rfl)).nl (fun _ => rfl)
    exact (hr _ _ h2).cast (by simp) (by simp [comma, kw, PrintTok.ident])

theorem worldInclude_inv (i : WorldInclude) (hw : i.wf = true) {p : PS} {ts : List PTok}
    (h : Inv p ts [] sAny) :
    Inv (Print.worldInclude p i) (ts ++ PrintTok.worldInclude i) [] sAny := by
  have hw' : i.world.wf = true ∧ ∀ x ∈ i.withItems, x.wf = true := by
    simpa [WorldInclude.wf, List.all_eq_true] using hw
  have h1 := worldRef_inv i.world hw'.1 ((h.docs i.docs).indent.lit_include_sp wordOK_sAny)
    wordOK_sAny
  unfold Print.worldInclude PrintTok.worldInclude
  cases he : i.withItems.isEmpty with
  | true =>
    have h2 := h1.lit_semi (fun _ => rfl)
    exact h2.cast (by simp [he]) (by simp [dkw, kw, semi])
  | false =>
    have h2 := ((h1.lit_with_lb (fun _ => rfl)).nl (fun _ => rfl)).inc
    have h3 := (includeItems_fold_inv i.withItems hw'.2 _ _ h2).dec
    have h4 := (h3.indent.lit_rb (fun _ => rfl)).lit_semi (fun _ => rfl)
    exact h4.cast (by simp [he]) (by simp [dkw, kw, semi, obrace, cbrace])

theorem worldItem_inv (w : WorldItem) (hw : w.wf = true) {p : PS} {ts : List PTok}
    (h : Inv p ts [] sAny) :
    Inv (Print.worldItem p w) (ts ++ PrintTok.worldItem w) [] sAny := by
  cases w with
  | Use u => exact useType_inv u (by simpa [WorldItem.wf] using hw) h
  | Type' d => exact itemTypeDecl_inv d (by simpa [WorldItem.wf] using hw) h
  | Import i =>
    have hi : i.path.wf = true := by simpa [WorldItem.wf] using hw
    have h1 := (h.docs i.docs).indent.lit_import_sp wordOK_sAny
    have h2 := (worldItemPath_inv i.path hi h1 wordOK_sAny).lit_semi (fun _ => rfl)
    exact h2.cast (by simp [Print.worldItem]) (by simp [PrintTok.worldItem, dkw, kw, semi])
  | Export e =>
    have hi : e.path.wf = true := by simpa [WorldItem.wf] using hw
    have h1 := (h.docs e.docs).indent.lit_export_sp wordOK_sAny
    have h2 := (worldItemPath_inv e.path hi h1 wordOK_sAny).lit_semi (fun _ => rfl)
    exact h2.cast (by simp [Print.worldItem]) (by simp [PrintTok.worldItem, dkw, kw, semi])
  | Include i => exact worldInclude_inv i (by simpa [WorldItem.wf] using hw) h

/-! ### type statements -/

theorem interfaceDecl_inv (d : InterfaceDecl) (hw : d.wf = true) {p : PS} {ts : List PTok}
    (h : Inv p ts [] sAny) :
    Inv (Print.interfaceDecl p d) (ts ++ PrintTok.interfaceDecl d) [] sAny := by
  have hw' : d.id.wf = true ∧ ∀ x ∈ d.items, x.wf = true := by
    simpa [InterfaceDecl.wf, List.all_eq_true] using hw
  have h1 := (((h.docs d.docs).indent.lit_interface_sp wordOK_sAny).ident d.id hw'.1
    wordOK_sAny).lit_sp_lb (fun _ => rfl)
  have h2 := (h1.nl (fun _ => rfl)).inc
  have h3 := (separated_inv Print.interfaceItem PrintTok.interfaceItem d.items
    (fun x hx p ts h => interfaceItem_inv x (hw'.2 x hx) h) h2).dec
  have h4 := h3.indent.lit_rb (fun _ => rfl)
  exact h4.cast (by simp [Print.interfaceDecl])
    (by simp [PrintTok.interfaceDecl, dkw, kw, obrace, cbrace, PrintTok.ident])

theorem worldDecl_inv (d : WorldDecl) (hw : d.wf = true) {p : PS} {ts : List PTok}
    (h : Inv p ts [] sAny) :
    Inv (Print.worldDecl p d) (ts ++ PrintTok.worldDecl d) [] sAny := by
  have hw' : d.id.wf = true ∧ ∀ x ∈ d.items, x.wf = true := by
    simpa [WorldDecl.wf, List.all_eq_true] using hw
  have h1 := (((h.docs d.docs).indent.lit_world_sp wordOK_sAny).ident d.id hw'.1
    wordOK_sAny).lit_sp_lb (fun _ => rfl)
  have h2 := (h1.nl (fun _ => rfl)).inc
  have h3 := (separated_inv Print.worldItem PrintTok.worldItem d.items
    (fun x hx p ts h => worldItem_inv x (hw'.2 x hx) h) h2).dec
  have h4 := h3.indent.lit_rb (fun _ => rfl)
  exact h4.cast (by simp [Print.worldDecl])
    (by simp [PrintTok.worldDecl, dkw, kw, obrace, cbrace, PrintTok.ident])

theorem typeStatement_inv (s : TypeStatement) (hw : s.wf = true) {p : PS} {ts : List PTok}
    (h : Inv p ts [] sAny) :
    Inv (Print.typeStatement p s) (ts ++ PrintTok.typeStatement s) [] sAny := by
  cases s with
  | Interface d => exact interfaceDecl_inv d (by simpa [TypeStatement.wf] using hw) h
  | World d => exact worldDecl_inv d (by simpa [TypeStatement.wf] using hw) h
  | Type' d => exact typeDecl_inv d (by simpa [TypeStatement.wf] using hw) h

end Wac.Lemmas.PrinterLayout
