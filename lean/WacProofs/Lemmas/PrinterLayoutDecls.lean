import WacProofs.Lemmas.PrinterLayoutTypes
/-
  C13, layout layer: the declaration-level printer functions (`constructor` … `type_statement`)
  keep the lexing invariant and write the tokens of the token-level printer.  One lemma per
  function of `WacModel/Printer.lean`, in the order of that file.
-/
set_option linter.unusedSimpArgs false
set_option linter.unusedVariables false

namespace Wac.Lemmas.PrinterLayout
open Wac Wac.Ast Wac.Lex Wac.Print Wac.PrintTok Wac.Lemmas.PrinterLex

/-- after an identifier: also fine for "identifier or package path" -/
theorem stopWP_le_stopW {p : PS} {ts ls} (h : Inv p ts ls stopW) : Inv p ts ls stopWP :=
  h.weaken (fun r hr => by
    simp only [stopWP, Bool.and_eq_true] at hr; exact hr.1)

/-- after a package path: also fine for "identifier or package path" -/
theorem stopWP_le_stopP {p : PS} {ts ls} (h : Inv p ts ls stopP) : Inv p ts ls stopWP :=
  h.weaken (fun r hr => by
    simp only [stopWP, Bool.and_eq_true] at hr; exact hr.2)

theorem stopWP_le_sAny {p : PS} {ts ls} (h : Inv p ts ls sAny) : Inv p ts ls stopWP :=
  h.weaken (fun _ _ => rfl)

/-! ### resources -/

theorem constructor_inv (c : Constructor) (hw : c.wf = true) {p : PS} {ts : List PTok}
    (h : Inv p ts [] sAny) :
    Inv (Print.constructor p c) (ts ++ PrintTok.constructor c) [] sAny := by
  have hw' : ∀ n ∈ c.params, n.wf = true := by
    simpa [Constructor.wf, List.all_eq_true] using hw
  have h1 := (h.docs c.docs).indent.lit_constructor_lp wordOK_sAny
  have h2 := namedTypes_inv c.params hw' h1
  have h3 := h2.lit_rp_semi (fun _ => rfl)
  exact h3.cast (by simp [Print.constructor])
    (by simp [PrintTok.constructor, dkw, kw, oparen, cparen, semi])

theorem method_inv (m : Method) (hw : m.wf = true) {p : PS} {ts : List PTok}
    (h : Inv p ts [] sAny) :
    Inv (Print.method p m) (ts ++ PrintTok.method m) [] sAny := by
  have hw' : m.id.wf = true ∧ m.ty.wf = true := by simpa [Method.wf] using hw
  have h1 := ((h.docs m.docs).indent.ident m.id hw'.1 wordOK_sAny).lit_colon_sp (fun _ hr => hr)
  unfold Print.method PrintTok.method
  cases hs : m.isStatic with
  | true =>
    have h2 := h1.lit_static_sp wordOK_sAny
    have h3 := (funcType_inv m.ty hw'.2 h2 wordOK_sAny).lit_semi (fun _ => rfl)
    exact h3.cast (by simp) (by simp [dident, colon, kw, semi])
  | false =>
    have h3 := (funcType_inv m.ty hw'.2 h1 wordOK_sAny).lit_semi (fun _ => rfl)
    exact h3.cast (by simp) (by simp [dident, colon, kw, semi])

theorem resourceMethod_inv (m : ResourceMethod) (hw : m.wf = true) {p : PS} {ts : List PTok}
    (h : Inv p ts [] sAny) :
    Inv (Print.resourceMethod p m) (ts ++ PrintTok.resourceMethod m) [] sAny := by
  cases m with
  | Constructor c => exact constructor_inv c (by simpa [ResourceMethod.wf] using hw) h
  | Method m => exact method_inv m (by simpa [ResourceMethod.wf] using hw) h

theorem resourceDecl_inv (d : ResourceDecl) (hw : d.wf = true) {p : PS} {ts : List PTok}
    (h : Inv p ts [] sAny) :
    Inv (Print.resourceDecl p d) (ts ++ PrintTok.resourceDecl d) [] sAny := by
  have hw' : d.id.wf = true ∧ ∀ m ∈ d.methods, m.wf = true := by
    simpa [ResourceDecl.wf, List.all_eq_true] using hw
  have h1 := (((h.docs d.docs).indent.lit_resource_sp wordOK_sAny).ident d.id hw'.1
    wordOK_sAny).lit_sp_lb (fun _ => rfl)
  have h2 := (h1.nl (fun _ => rfl)).inc
  have h3 := (separated_inv Print.resourceMethod PrintTok.resourceMethod d.methods
    (fun x hx p ts h => resourceMethod_inv x (hw'.2 x hx) h) h2).dec
  have h4 := h3.indent.lit_rb (fun _ => rfl)
  exact h4.cast (by simp [Print.resourceDecl])
    (by simp [PrintTok.resourceDecl, dkw, kw, obrace, cbrace, PrintTok.ident])

/-! ### variants, records, flags, enums -/

theorem variantCase_inv (c : VariantCase) (hw : c.wf = true) {p : PS} {ts : List PTok}
    (h : Inv p ts [] sAny) :
    Inv (Print.variantCase p c) (ts ++ PrintTok.variantCase c) [] stopW := by
  have hw' := hw
  simp only [VariantCase.wf, Bool.and_eq_true] at hw'
  have h1 := (h.docs c.docs).indent.ident c.id hw'.1 wordOK_sAny
  unfold Print.variantCase PrintTok.variantCase
  cases hk : c.ty with
  | none => exact h1.cast (by simp) (by simp [dident])
  | some t =>
    have ht : t.wf = true := by have := hw'.2; rw [hk] at this; simpa using this
    have h2 := h1.lit_lp (fun _ => rfl)
    have h3 := (ty_inv t ht h2 wordOK_sAny).lit_rp (fun _ => rfl)
    exact (stopW_le_sAny h3).cast (by simp) (by simp [dident, oparen, cparen, kw])

theorem variantCases_fold_inv (xs : List VariantCase) (hw : ∀ c ∈ xs, c.wf = true) :
    ∀ (p : PS) (ts : List PTok), Inv p ts [] sAny →
    Inv (xs.foldl (fun p c => ((Print.variantCase p.doIndent c).writeS ",").newline) p)
      (ts ++ xs.flatMap (fun c => PrintTok.variantCase c ++ [comma])) [] sAny := by
  induction xs with
  | nil => intro p ts h; simpa using h
  | cons c r ih =>
    intro p ts h
    have hr := ih (fun y hy => hw y (List.mem_cons_of_mem _ hy))
    have h1 := variantCase_inv c (hw c (by simp)) h.indent
    have h2 := (h1.lit_comma (fun _ => rfl)).nl (fun _ => rfl)
    exact (hr _ _ h2).cast (by simp) (by simp [comma, kw])

theorem variantDecl_inv (d : VariantDecl) (hw : d.wf = true) {p : PS} {ts : List PTok}
    (h : Inv p ts [] sAny) :
    Inv (Print.variantDecl p d) (ts ++ PrintTok.variantDecl d) [] sAny := by
  have hw' : (d.id.wf = true ∧ d.cases ≠ []) ∧ ∀ c ∈ d.cases, c.wf = true := by
    simpa [VariantDecl.wf, List.all_eq_true] using hw
  have h1 := (((h.docs d.docs).indent.lit_variant_sp wordOK_sAny).ident d.id hw'.1.1
    wordOK_sAny).lit_sp_lb (fun _ => rfl)
  have h2 := (h1.nl (fun _ => rfl)).inc
  have h3 := (variantCases_fold_inv d.cases hw'.2 _ _ h2).dec
  have h4 := h3.indent.lit_rb (fun _ => rfl)
  exact h4.cast (by simp [Print.variantDecl])
    (by simp [PrintTok.variantDecl, dkw, kw, obrace, cbrace, PrintTok.ident])

theorem fields_fold_inv (xs : List Field) (hw : ∀ f ∈ xs, f.wf = true) :
    ∀ (p : PS) (ts : List PTok), Inv p ts [] sAny →
    Inv (xs.foldl (fun p (f : Field) =>
        ((Print.ty (((Print.docs p f.docs).doIndent.write (identSrc f.id)).writeS ": ") f.ty).writeS
          ",").newline) p)
      (ts ++ xs.flatMap (fun f => dident f.docs f.id :: colon :: PrintTok.ty f.ty ++ [comma]))
      [] sAny := by
  induction xs with
  | nil => intro p ts h; simpa using h
  | cons f r ih =>
    intro p ts h
    have hr := ih (fun y hy => hw y (List.mem_cons_of_mem _ hy))
    have hf : f.id.wf = true ∧ f.ty.wf = true := by
      have := hw f (by simp); simpa [Field.wf] using this
    have h1 := ((h.docs f.docs).indent.ident f.id hf.1 wordOK_sAny).lit_colon_sp (fun _ hr => hr)
    have h2 := ((ty_inv f.ty hf.2 h1 wordOK_sAny).lit_comma (fun _ => rfl)).nl (fun _ => rfl)
    exact (hr _ _ h2).cast (by simp) (by simp [comma, colon, kw, dident])

theorem recordDecl_inv (d : RecordDecl) (hw : d.wf = true) {p : PS} {ts : List PTok}
    (h : Inv p ts [] sAny) :
    Inv (Print.recordDecl p d) (ts ++ PrintTok.recordDecl d) [] sAny := by
  have hw' : (d.id.wf = true ∧ d.fields ≠ []) ∧ ∀ c ∈ d.fields, c.wf = true := by
    simpa [RecordDecl.wf, List.all_eq_true] using hw
  have h1 := (((h.docs d.docs).indent.lit_record_sp wordOK_sAny).ident d.id hw'.1.1
    wordOK_sAny).lit_sp_lb (fun _ => rfl)
  have h2 := (h1.nl (fun _ => rfl)).inc
  have h3 := (fields_fold_inv d.fields hw'.2 _ _ h2).dec
  have h4 := h3.indent.lit_rb (fun _ => rfl)
  exact h4.cast (by simp [Print.recordDecl])
    (by simp [PrintTok.recordDecl, dkw, kw, obrace, cbrace, PrintTok.ident])

theorem flags_fold_inv (xs : List Flag) (hw : ∀ f ∈ xs, f.wf = true) :
    ∀ (p : PS) (ts : List PTok), Inv p ts [] sAny →
    Inv (xs.foldl (fun p (f : Flag) =>
        (((Print.docs p f.docs).doIndent.write (identSrc f.id)).writeS ",").newline) p)
      (ts ++ xs.flatMap (fun f => [dident f.docs f.id, comma])) [] sAny := by
  induction xs with
  | nil => intro p ts h; simpa using h
  | cons f r ih =>
    intro p ts h
    have hr := ih (fun y hy => hw y (List.mem_cons_of_mem _ hy))
    have hf : f.id.wf = true := by
      have := hw f (by simp); simpa [Flag.wf] using this
    have h1 := (h.docs f.docs).indent.ident f.id hf wordOK_sAny
    have h2 := (h1.lit_comma (fun _ => rfl)).nl (fun _ => rfl)
    exact (hr _ _ h2).cast (by simp) (by simp [comma, kw, dident])

theorem flagsDecl_inv (d : FlagsDecl) (hw : d.wf = true) {p : PS} {ts : List PTok}
    (h : Inv p ts [] sAny) :
    Inv (Print.flagsDecl p d) (ts ++ PrintTok.flagsDecl d) [] sAny := by
  have hw' : (d.id.wf = true ∧ d.flags ≠ []) ∧ ∀ c ∈ d.flags, c.wf = true := by
    simpa [FlagsDecl.wf, List.all_eq_true] using hw
  have h1 := (((h.docs d.docs).indent.lit_flags_sp wordOK_sAny).ident d.id hw'.1.1
    wordOK_sAny).lit_sp_lb (fun _ => rfl)
  have h2 := (h1.nl (fun _ => rfl)).inc
  have h3 := (flags_fold_inv d.flags hw'.2 _ _ h2).dec
  have h4 := h3.indent.lit_rb (fun _ => rfl)
  exact h4.cast (by simp [Print.flagsDecl])
    (by simp [PrintTok.flagsDecl, dkw, kw, obrace, cbrace, PrintTok.ident])

theorem enumCases_fold_inv (xs : List EnumCase) (hw : ∀ f ∈ xs, f.wf = true) :
    ∀ (p : PS) (ts : List PTok), Inv p ts [] sAny →
    Inv (xs.foldl (fun p (c : EnumCase) =>
        (((Print.docs p c.docs).doIndent.write (identSrc c.id)).writeS ",").newline) p)
      (ts ++ xs.flatMap (fun c => [dident c.docs c.id, comma])) [] sAny := by
  induction xs with
  | nil => intro p ts h; simpa using h
  | cons f r ih =>
    intro p ts h
    have hr := ih (fun y hy => hw y (List.mem_cons_of_mem _ hy))
    have hf : f.id.wf = true := by
      have := hw f (by simp); simpa [EnumCase.wf] using this
    have h1 := (h.docs f.docs).indent.ident f.id hf wordOK_sAny
    have h2 := (h1.lit_comma (fun _ => rfl)).nl (fun _ => rfl)
    exact (hr _ _ h2).cast (by simp) (by simp [comma, kw, dident])

theorem enumDecl_inv (d : EnumDecl) (hw : d.wf = true) {p : PS} {ts : List PTok}
    (h : Inv p ts [] sAny) :
    Inv (Print.enumDecl p d) (ts ++ PrintTok.enumDecl d) [] sAny := by
  have hw' : (d.id.wf = true ∧ d.cases ≠ []) ∧ ∀ c ∈ d.cases, c.wf = true := by
    simpa [EnumDecl.wf, List.all_eq_true] using hw
  have h1 := (((h.docs d.docs).indent.lit_enum_sp wordOK_sAny).ident d.id hw'.1.1
    wordOK_sAny).lit_sp_lb (fun _ => rfl)
  have h2 := (h1.nl (fun _ => rfl)).inc
  have h3 := (enumCases_fold_inv d.cases hw'.2 _ _ h2).dec
  have h4 := h3.indent.lit_rb (fun _ => rfl)
  exact h4.cast (by simp [Print.enumDecl])
    (by simp [PrintTok.enumDecl, dkw, kw, obrace, cbrace, PrintTok.ident])

theorem typeDecl_inv (d : TypeDecl) (hw : d.wf = true) {p : PS} {ts : List PTok}
    (h : Inv p ts [] sAny) :
    Inv (Print.typeDecl p d) (ts ++ PrintTok.typeDecl d) [] sAny := by
  cases d with
  | Variant d => exact variantDecl_inv d (by simpa [TypeDecl.wf] using hw) h
  | Record d => exact recordDecl_inv d (by simpa [TypeDecl.wf] using hw) h
  | Flags d => exact flagsDecl_inv d (by simpa [TypeDecl.wf] using hw) h
  | Enum d => exact enumDecl_inv d (by simpa [TypeDecl.wf] using hw) h
  | Alias d => exact typeAlias_inv d (by simpa [TypeDecl.wf] using hw) h

theorem itemTypeDecl_inv (d : ItemTypeDecl) (hw : d.wf = true) {p : PS} {ts : List PTok}
    (h : Inv p ts [] sAny) :
    Inv (Print.itemTypeDecl p d) (ts ++ PrintTok.itemTypeDecl d) [] sAny := by
  cases d with
  | Resource d => exact resourceDecl_inv d (by simpa [ItemTypeDecl.wf] using hw) h
  | Variant d => exact variantDecl_inv d (by simpa [ItemTypeDecl.wf] using hw) h
  | Record d => exact recordDecl_inv d (by simpa [ItemTypeDecl.wf] using hw) h
  | Flags d => exact flagsDecl_inv d (by simpa [ItemTypeDecl.wf] using hw) h
  | Enum d => exact enumDecl_inv d (by simpa [ItemTypeDecl.wf] using hw) h
  | Alias d => exact typeAlias_inv d (by simpa [ItemTypeDecl.wf] using hw) h

end Wac.Lemmas.PrinterLayout
