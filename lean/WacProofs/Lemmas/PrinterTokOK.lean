import WacModel.Lexer
import WacModel.Parser
import WacModel.PrintWF
/-
  C13: what the lexer guarantees about the text of the tokens it returns (`TokOK`), the interface
  between `tokenize_tokOK` (every token of `tokenize src` is OK — WacProofs/Lemmas/PrinterLexOut.lean)
  and `parseTokens_wf` (the parser builds well-formed trees from OK tokens —
  WacProofs/Lemmas/PrinterParseWF*.lean).
-/
namespace Wac.Lemmas.PrinterWF
open Wac Wac.Ast Wac.Lex Wac.Parse

/-- the text of a token is a whole token of its kind -/
def TokOK (t : LTok) : Prop :=
  match t.res with
  | .ok .Ident => t.text ≠ [] ∧ idLen t.text = t.text.length ∧ lookupKeyword t.text = none
  | .ok .String => ∃ v : Str, t.text = '"' :: (v ++ ['"']) ∧ v.contains '"' = false
  | .ok .PackageName => t.text ≠ [] ∧ packageNameTokLen t.text = t.text.length
  | .ok .PackagePath => t.text ≠ [] ∧ packagePathTokLen t.text = t.text.length
  | _ => True

/-- all tokens a parser state still has to read are OK -/
def ToksOK (st : PState) : Prop := ∀ t ∈ st.toks, TokOK t

end Wac.Lemmas.PrinterWF
