import WacModel.Parser
import WacModel.Spec.Grammar
/-
  C12 — the code-point screen (`detect_invalid_input`).

  The model's per-character classification `Wac.Lex.screenChar` agrees with the specification's
  predicate `Wac.Spec.Grammar.forbiddenChar`; `detectInvalidInput` rejects a text iff it contains a
  forbidden code point, reports the FIRST one with its UTF-8 byte span and its classification;
  `parseDocument` rejects such a text before lexing and is otherwise `parseTokens ∘ PState.init`.
  Core Lean only.
-/
namespace Wac.C12
open Wac Wac.Ast Wac.Lex Wac.Parse Wac.Spec.Grammar

theorem screenChar_isSome_iff (c : Char) : (screenChar c).isSome = forbiddenChar c := by
  rw [Bool.eq_iff_iff]
  unfold screenChar forbiddenChar isControl
  generalize c.toNat = n
  simp only [Generated.allowedControls, Generated.bidiOverrides, Generated.discouraged,
    Generated.controlGuard, Spec.Grammar.allowedControls, Spec.Grammar.bidiOverrides, Spec.Grammar.deprecated]
  simp only [List.contains_cons, List.contains_nil, Bool.or_false, beq_iff_eq, Bool.or_eq_true,
    Bool.and_eq_true, decide_eq_true_eq, Bool.true_and, Bool.not_eq_true', Bool.or_eq_false_iff]
  split
  · simp; omega
  · split
    · simp; omega
    · split
      · simp; omega
      · split
        · simp; omega
        · simp; omega

theorem screenChar_eq_none_iff (c : Char) : screenChar c = none ↔ forbiddenChar c = false := by
  rw [← screenChar_isSome_iff]; cases screenChar c <;> simp

theorem utf8Len_foldl (n : Nat) (s : Str) :
    s.foldl (fun n c => n + c.utf8Size) n = n + utf8Len s := by
  unfold utf8Len
  induction s generalizing n with
  | nil => simp
  | cons c r ih => simp only [List.foldl_cons]; rw [ih, ih (0 + c.utf8Size)]; omega

theorem utf8Len_nil : utf8Len [] = 0 := rfl

theorem utf8Len_cons (c : Char) (s : Str) : utf8Len (c :: s) = c.utf8Size + utf8Len s := by
  show List.foldl _ _ _ = _
  rw [List.foldl_cons, utf8Len_foldl]; omega

theorem utf8Len_append (s t : Str) : utf8Len (s ++ t) = utf8Len s + utf8Len t := by
  induction s with
  | nil => simp [utf8Len_nil]
  | cons c r ih => simp only [List.cons_append, utf8Len_cons, ih]; omega

theorem utf8Len_snoc (pre : Str) (c : Char) : utf8Len (pre ++ [c]) = utf8Len pre + c.utf8Size := by
  rw [utf8Len_append, utf8Len_cons, utf8Len_nil]; omega

theorem go_isSome (pos : Nat) (src : Str) :
    (detectInvalidInput.go pos src).isSome = src.any forbiddenChar := by
  induction src generalizing pos with
  | nil => simp [detectInvalidInput.go]
  | cons c r ih =>
    rw [detectInvalidInput.go, List.any_cons, ← screenChar_isSome_iff]
    cases h : screenChar c with
    | none => simp [ih]
    | some e => simp

theorem screen_rejects_iff (src : Str) :
    (detectInvalidInput src).isSome = src.any forbiddenChar := go_isSome 0 src

theorem go_at (pos : Nat) (src : Str) (e : LexError) (sp : Span)
    (h : detectInvalidInput.go pos src = some (e, sp)) :
    ∃ pre c post, src = pre ++ c :: post ∧ (∀ d ∈ pre, forbiddenChar d = false) ∧
      forbiddenChar c = true ∧ screenChar c = some e ∧ sp = ⟨pos + utf8Len pre, c.utf8Size⟩ := by
  induction src generalizing pos with
  | nil => simp [detectInvalidInput.go] at h
  | cons c r ih =>
    rw [detectInvalidInput.go] at h
    cases hc : screenChar c with
    | some e' =>
      rw [hc] at h
      simp only [Option.some.injEq, Prod.mk.injEq] at h
      refine ⟨[], c, r, rfl, by simp, ?_, ?_, ?_⟩
      · rw [← screenChar_isSome_iff, hc]; rfl
      · rw [hc, h.1]
      · rw [← h.2, utf8Len_nil]; rfl
    | none =>
      rw [hc] at h
      obtain ⟨pre, c', post, hsrc, hpre, hf, hs, hsp⟩ := ih _ h
      refine ⟨c :: pre, c', post, by rw [hsrc]; rfl, ?_, hf, hs, ?_⟩
      · intro d hd
        rcases List.mem_cons.1 hd with rfl | hd
        · exact (screenChar_eq_none_iff _).1 hc
        · exact hpre d hd
      · rw [hsp, utf8Len_cons, Nat.add_assoc]

theorem screen_rejects_at (src : Str) (e : LexError) (sp : Span)
    (h : detectInvalidInput src = some (e, sp)) :
    ∃ pre c post, src = pre ++ c :: post ∧ (∀ d ∈ pre, forbiddenChar d = false) ∧
      forbiddenChar c = true ∧ screenChar c = some e ∧ sp = ⟨utf8Len pre, c.utf8Size⟩ := by
  have := go_at 0 src e sp h
  simpa only [Nat.zero_add] using this

theorem screen_before_lexing (src : Str) (h : src.any forbiddenChar = true) :
    ∃ e sp, parseDocument src = .error (.Lexer e sp) ∧ detectInvalidInput src = some (e, sp) := by
  have h' := screen_rejects_iff src
  rw [h] at h'
  cases hd : detectInvalidInput src with
  | none => rw [hd] at h'; cases h'
  | some p =>
    obtain ⟨e, sp⟩ := p
    exact ⟨e, sp, by unfold parseDocument; rw [hd], rfl⟩

theorem screen_transparent (src : Str) (h : src.any forbiddenChar = false) :
    parseDocument src = parseTokens (PState.init src) := by
  have h' := screen_rejects_iff src
  rw [h] at h'
  cases hd : detectInvalidInput src with
  | some p => rw [hd] at h'; cases h'
  | none => unfold parseDocument; rw [hd]

/-- the specification's verdict (for every nesting limit) on a text with a forbidden code point, next
to the model's -/
theorem screen_agrees_with_verdictWith (limit : Option Nat) (src : Str)
    (h : src.any forbiddenChar = true) :
    verdictWith limit src = .reject "forbidden code point" ∧
    ∃ e sp, parseDocument src = .error (.Lexer e sp) := by
  refine ⟨?_, ?_⟩
  · unfold verdictWith; rw [h]; rfl
  · obtain ⟨e, sp, hp, _⟩ := screen_before_lexing src h
    exact ⟨e, sp, hp⟩

/-- the specification's verdict on a text with a forbidden code point, next to the model's -/
theorem screen_agrees_with_verdict (src : Str) (h : src.any forbiddenChar = true) :
    verdict src = .reject "forbidden code point" ∧
    ∃ e sp, parseDocument src = .error (.Lexer e sp) :=
  screen_agrees_with_verdictWith none src h

/-- the position of the error is determined: any decomposition at a first forbidden code point
gives the reported span -/
theorem screen_first (pre : Str) (c : Char) (post : Str)
    (hpre : ∀ d ∈ pre, forbiddenChar d = false) (hc : forbiddenChar c = true) :
    ∃ e, screenChar c = some e ∧
      detectInvalidInput (pre ++ c :: post) = some (e, ⟨utf8Len pre, c.utf8Size⟩) := by
  have hs : (screenChar c).isSome = true := by rw [screenChar_isSome_iff, hc]
  cases he : screenChar c with
  | none => rw [he] at hs; cases hs
  | some e =>
    refine ⟨e, rfl, ?_⟩
    suffices ∀ pos, detectInvalidInput.go pos (pre ++ c :: post) =
        some (e, ⟨pos + utf8Len pre, c.utf8Size⟩) by
      have := this 0
      rw [Nat.zero_add] at this
      exact this
    induction pre with
    | nil => intro pos; simp [detectInvalidInput.go, he, utf8Len_nil]
    | cons d r ih =>
      intro pos
      have hd : screenChar d = none := (screenChar_eq_none_iff d).2 (hpre d (by simp))
      rw [List.cons_append, detectInvalidInput.go, hd]
      simp only
      rw [ih (fun x hx => hpre x (List.mem_cons_of_mem _ hx)), utf8Len_cons, Nat.add_assoc]

example : detectInvalidInput ['a', Char.ofNat 0x202e, 'b'] =
    some (.DisallowedBidirectionalOverride (Char.ofNat 0x202e), ⟨1, 3⟩) := by decide
example : (['a', Char.ofNat 0x202e, 'b'] : Str).any forbiddenChar = true := by decide
example : detectInvalidInput ['x', 'y', Char.ofNat 7] =
    some (.DisallowedControlCode (Char.ofNat 7), ⟨2, 1⟩) := by decide
example : (['x', 'y', Char.ofNat 7] : Str).any forbiddenChar = true := by decide
example : detectInvalidInput "package a:b;\n\tx\r\n".toList = none := by decide
example : ("package a:b;\n\tx\r\n".toList).any forbiddenChar = false := by decide
example : parseDocument ['a', Char.ofNat 0x202e, 'b'] =
    .error (.Lexer (.DisallowedBidirectionalOverride (Char.ofNat 0x202e)) ⟨1, 3⟩) := by
  have h : detectInvalidInput ['a', Char.ofNat 0x202e, 'b'] =
      some (.DisallowedBidirectionalOverride (Char.ofNat 0x202e), ⟨1, 3⟩) := by decide
  unfold parseDocument; rw [h]
example : ∃ e sp, parseDocument ['x', 'y', Char.ofNat 7] = .error (.Lexer e sp) ∧
    detectInvalidInput ['x', 'y', Char.ofNat 7] = some (e, sp) :=
  screen_before_lexing _ (by decide)
example : parseDocument "package a:b;\n\tx\r\n".toList =
    parseTokens (PState.init "package a:b;\n\tx\r\n".toList) :=
  screen_transparent _ (by decide)

end Wac.C12
