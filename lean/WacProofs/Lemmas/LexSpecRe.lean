import WacModel.Spec.Grammar
/-
  C12 proofs, lexical layer 1: a semantics for the regular expressions `Re` of the grammar
  specification and the correctness of its generic matcher.

  * `Re.Matches r s`: the string `s` belongs to the language of `r` (inductive, independent of
    derivatives);
  * `nullable_iff`, `matches_mkSeq`, `matches_mkAlt`, `matches_deriv`, `not_matches_of_isEmpty`:
    the Brzozowski machinery is correct for that semantics;
  * `longest_eq_some_iff` / `longest_eq_none_iff`: `Re.longest r s` is the length of the longest
    prefix of `s` that belongs to the language of `r`, `none` when no prefix does.
-/
namespace Wac.Spec.Grammar
namespace Re

/-- `s` belongs to the language of `r` -/
inductive Matches : Re → Str → Prop
  | eps : Matches eps []
  | cls {rs : List (Char × Char)} {c : Char} : inRanges c rs = true → Matches (cls rs) [c]
  | ncls {rs : List (Char × Char)} {c : Char} : inRanges c rs = false → Matches (ncls rs) [c]
  | seq {a b : Re} {s t : Str} : Matches a s → Matches b t → Matches (seq a b) (s ++ t)
  | altL {a b : Re} {s : Str} : Matches a s → Matches (alt a b) s
  | altR {a b : Re} {s : Str} : Matches b s → Matches (alt a b) s
  | starNil {a : Re} : Matches (star a) []
  | starCons {a : Re} {s t : Str} : Matches a s → Matches (star a) t → Matches (star a) (s ++ t)

/-! ### inversion -/

theorem not_matches_empty {s : Str} : ¬ Matches empty s := by
  intro h; cases h

theorem matches_eps {s : Str} : Matches eps s ↔ s = [] := by
  constructor
  · intro h; cases h; rfl
  · rintro rfl; exact .eps

theorem matches_cls {rs : List (Char × Char)} {s : Str} :
    Matches (cls rs) s ↔ ∃ c, s = [c] ∧ inRanges c rs = true := by
  constructor
  · intro h; cases h with | cls h => exact ⟨_, rfl, h⟩
  · rintro ⟨c, rfl, h⟩; exact .cls h

theorem matches_ncls {rs : List (Char × Char)} {s : Str} :
    Matches (ncls rs) s ↔ ∃ c, s = [c] ∧ inRanges c rs = false := by
  constructor
  · intro h; cases h with | ncls h => exact ⟨_, rfl, h⟩
  · rintro ⟨c, rfl, h⟩; exact .ncls h

theorem matches_seq {a b : Re} {s : Str} :
    Matches (seq a b) s ↔ ∃ u v, s = u ++ v ∧ Matches a u ∧ Matches b v := by
  constructor
  · intro h; cases h with | seq h1 h2 => exact ⟨_, _, rfl, h1, h2⟩
  · rintro ⟨u, v, rfl, h1, h2⟩; exact .seq h1 h2

theorem matches_alt {a b : Re} {s : Str} :
    Matches (alt a b) s ↔ Matches a s ∨ Matches b s := by
  constructor
  · intro h
    cases h with
    | altL h => exact .inl h
    | altR h => exact .inr h
  · rintro (h | h)
    · exact .altL h
    · exact .altR h

/-- a non-empty match of `a*` starts with a non-empty match of `a` -/
theorem star_cons_inv {a : Re} {c : Char} {w : Str} (h : Matches (star a) (c :: w)) :
    ∃ u v, w = u ++ v ∧ Matches a (c :: u) ∧ Matches (star a) v := by
  generalize hr : star a = r at h
  generalize hs : c :: w = s at h
  induction h generalizing w with
  | eps => cases hr
  | cls _ => cases hr
  | ncls _ => cases hr
  | seq _ _ => cases hr
  | altL _ => cases hr
  | altR _ => cases hr
  | starNil => cases hs
  | @starCons a' s1 t h1 h2 _ ih2 =>
    cases hr
    cases s1 with
    | nil => exact ih2 rfl hs
    | cons d u =>
      rw [List.cons_append] at hs
      cases hs
      exact ⟨u, t, rfl, h1, h2⟩

theorem matches_star_cons {a : Re} {c : Char} {w : Str} :
    Matches (star a) (c :: w) ↔ ∃ u v, w = u ++ v ∧ Matches a (c :: u) ∧ Matches (star a) v := by
  constructor
  · exact star_cons_inv
  · rintro ⟨u, v, rfl, h1, h2⟩
    exact .starCons h1 h2

theorem matches_seq_nil {a b : Re} : Matches (seq a b) [] ↔ Matches a [] ∧ Matches b [] := by
  rw [matches_seq]
  constructor
  · rintro ⟨u, v, h, h1, h2⟩
    have := List.append_eq_nil_iff.mp h.symm
    rw [this.1] at h1; rw [this.2] at h2
    exact ⟨h1, h2⟩
  · rintro ⟨h1, h2⟩
    exact ⟨[], [], rfl, h1, h2⟩

theorem matches_seq_cons {a b : Re} {c : Char} {s : Str} :
    Matches (seq a b) (c :: s) ↔
      (Matches a [] ∧ Matches b (c :: s)) ∨ ∃ u v, s = u ++ v ∧ Matches a (c :: u) ∧ Matches b v := by
  rw [matches_seq]
  constructor
  · rintro ⟨u, v, h, h1, h2⟩
    cases u with
    | nil => rw [List.nil_append] at h; subst h; exact .inl ⟨h1, h2⟩
    | cons d u =>
      rw [List.cons_append] at h
      cases h
      exact .inr ⟨u, v, rfl, h1, h2⟩
  · rintro (⟨h1, h2⟩ | ⟨u, v, rfl, h1, h2⟩)
    · exact ⟨[], _, rfl, h1, h2⟩
    · exact ⟨c :: u, v, rfl, h1, h2⟩

/-! ### the derivative machinery -/

theorem nullable_iff {r : Re} : r.nullable = true ↔ Matches r [] := by
  induction r with
  | empty => simp [nullable, not_matches_empty]
  | eps => simp [nullable, matches_eps]
  | cls rs => simp [nullable, matches_cls]
  | ncls rs => simp [nullable, matches_ncls]
  | seq a b iha ihb => rw [matches_seq_nil, ← iha, ← ihb]; simp [nullable]
  | alt a b iha ihb => rw [matches_alt, ← iha, ← ihb]; simp [nullable]
  | star a _ => simp [nullable, Matches.starNil]

theorem matches_mkSeq {a b : Re} {s : Str} : Matches (mkSeq a b) s ↔ Matches (seq a b) s := by
  unfold mkSeq
  split
  · simp [matches_seq, not_matches_empty]
  · simp [matches_seq, not_matches_empty]
  · rw [matches_seq]
    constructor
    · intro h; exact ⟨[], s, rfl, .eps, h⟩
    · rintro ⟨u, v, rfl, h1, h2⟩
      rw [matches_eps.mp h1]; exact h2
  · rw [matches_seq]
    constructor
    · intro h; exact ⟨s, [], (List.append_nil s).symm, h, .eps⟩
    · rintro ⟨u, v, rfl, h1, h2⟩
      rw [matches_eps.mp h2, List.append_nil]; exact h1
  · rfl

theorem matches_mkAlt {a b : Re} {s : Str} : Matches (mkAlt a b) s ↔ Matches (alt a b) s := by
  unfold mkAlt
  split
  · simp [matches_alt, not_matches_empty]
  · simp [matches_alt, not_matches_empty]
  · rfl

theorem matches_deriv {c : Char} {r : Re} {s : Str} :
    Matches (deriv c r) s ↔ Matches r (c :: s) := by
  induction r generalizing s with
  | empty => simp [deriv, not_matches_empty]
  | eps => simp [deriv, not_matches_empty, matches_eps]
  | cls rs =>
    unfold deriv
    split
    · rename_i h
      rw [matches_eps, matches_cls]
      constructor
      · rintro rfl; exact ⟨c, rfl, h⟩
      · rintro ⟨d, hd, _⟩; cases hd; rfl
    · rename_i h
      rw [matches_cls]
      constructor
      · intro h'; exact absurd h' not_matches_empty
      · rintro ⟨d, hd, h'⟩; cases hd; exact absurd h' h
  | ncls rs =>
    unfold deriv
    split
    · rename_i h
      rw [matches_ncls]
      constructor
      · intro h'; exact absurd h' not_matches_empty
      · rintro ⟨d, hd, h'⟩; cases hd; rw [h] at h'; cases h'
    · rename_i h
      rw [matches_eps, matches_ncls]
      constructor
      · rintro rfl; exact ⟨c, rfl, by simpa using h⟩
      · rintro ⟨d, hd, _⟩; cases hd; rfl
  | seq a b iha ihb =>
    unfold deriv
    rw [matches_seq_cons]
    split
    · rename_i hn
      rw [matches_mkAlt, matches_alt, matches_mkSeq, matches_seq, ihb]
      have := nullable_iff.mp hn
      constructor
      · rintro (⟨u, v, rfl, h1, h2⟩ | h)
        · exact .inr ⟨u, v, rfl, iha.mp h1, h2⟩
        · exact .inl ⟨this, h⟩
      · rintro (⟨_, h⟩ | ⟨u, v, rfl, h1, h2⟩)
        · exact .inr h
        · exact .inl ⟨u, v, rfl, iha.mpr h1, h2⟩
    · rename_i hn
      rw [matches_mkSeq, matches_seq]
      constructor
      · rintro ⟨u, v, rfl, h1, h2⟩
        exact .inr ⟨u, v, rfl, iha.mp h1, h2⟩
      · rintro (⟨h, _⟩ | ⟨u, v, rfl, h1, h2⟩)
        · exact absurd (nullable_iff.mpr h) hn
        · exact ⟨u, v, rfl, iha.mpr h1, h2⟩
  | alt a b iha ihb =>
    unfold deriv
    rw [matches_mkAlt, matches_alt, matches_alt, iha, ihb]
  | star a iha =>
    unfold deriv
    rw [matches_mkSeq, matches_seq, matches_star_cons]
    constructor
    · rintro ⟨u, v, rfl, h1, h2⟩
      exact ⟨u, v, rfl, iha.mp h1, h2⟩
    · rintro ⟨u, v, rfl, h1, h2⟩
      exact ⟨u, v, rfl, iha.mpr h1, h2⟩

theorem not_matches_of_isEmpty {r : Re} (h : r.isEmpty = true) (s : Str) : ¬ Matches r s := by
  cases r <;> first | exact not_matches_empty | (simp [isEmpty] at h)

/-! ### `longest` -/

/-- the specification of the worker of `longest`: either no prefix of `s` matches and the result is
the incoming `best`, or the result is `n` plus the length of the longest matching prefix -/
theorem longest_go_spec (r : Re) (s : Str) (n : Nat) (best : Option Nat) :
    ((∀ m, m ≤ s.length → ¬ Matches r (s.take m)) ∧ longest.go r s n best = best) ∨
    ∃ k, k ≤ s.length ∧ Matches r (s.take k) ∧
      (∀ m, k < m → m ≤ s.length → ¬ Matches r (s.take m)) ∧ longest.go r s n best = some (n + k) := by
  induction s generalizing r n best with
  | nil =>
    unfold longest.go
    by_cases hn : r.nullable = true
    · right
      refine ⟨0, Nat.le_refl _, nullable_iff.mp hn, ?_, by simp [hn]⟩
      intro m hm hm'
      simp at hm'; omega
    · left
      refine ⟨?_, by simp [hn]⟩
      intro m _ hm
      rw [List.take_nil] at hm
      exact hn (nullable_iff.mpr hm)
  | cons c rest ih =>
    unfold longest.go
    -- facts about positive lengths
    have hpos : ∀ m, Matches r ((c :: rest).take (m + 1)) ↔ Matches (deriv c r) (rest.take m) := by
      intro m; rw [List.take_succ_cons, matches_deriv]
    dsimp only
    split
    · -- the derivative is the syntactic `empty`: no longer prefix matches
      rename_i he
      have hno : ∀ m, ¬ Matches r ((c :: rest).take (m + 1)) := by
        intro m hm
        exact not_matches_of_isEmpty he _ ((hpos m).mp hm)
      by_cases hn : r.nullable = true
      · right
        refine ⟨0, Nat.zero_le _, nullable_iff.mp hn, ?_, by simp [hn]⟩
        intro m hm _
        obtain ⟨m', rfl⟩ : ∃ m', m = m' + 1 := ⟨m - 1, by omega⟩
        exact hno m'
      · left
        refine ⟨?_, by simp [hn]⟩
        intro m _ hm
        cases m with
        | zero => exact hn (nullable_iff.mpr hm)
        | succ m' => exact hno m' hm
    · rcases ih (deriv c r) (n + 1) (if r.nullable = true then some n else best) with
        ⟨hnone, he⟩ | ⟨k, hk, hmk, hmax, he⟩
      · rw [he]
        by_cases hn : r.nullable = true
        · right
          refine ⟨0, Nat.zero_le _, nullable_iff.mp hn, ?_, by simp [hn]⟩
          intro m hm hm'
          obtain ⟨m', rfl⟩ : ∃ m', m = m' + 1 := ⟨m - 1, by omega⟩
          rw [hpos]
          exact hnone m' (by simpa using hm')
        · left
          refine ⟨?_, by simp [hn]⟩
          intro m hm' hm
          cases m with
          | zero => exact hn (nullable_iff.mpr hm)
          | succ m' => exact hnone m' (by simpa using hm') ((hpos m').mp hm)
      · right
        refine ⟨k + 1, by simpa using hk, (hpos k).mpr hmk, ?_, by rw [he]; congr 1; omega⟩
        intro m hm hm'
        obtain ⟨m', rfl⟩ : ∃ m', m = m' + 1 := ⟨m - 1, by omega⟩
        rw [hpos]
        exact hmax m' (by omega) (by simpa using hm')

/-- a prefix of `s` of length `n` belongs to the language of `r` and no longer one does -/
def IsLongest (r : Re) (s : Str) (n : Nat) : Prop :=
  n ≤ s.length ∧ Matches r (s.take n) ∧ ∀ m, n < m → m ≤ s.length → ¬ Matches r (s.take m)

theorem IsLongest.unique {r : Re} {s : Str} {n n' : Nat} (h : IsLongest r s n)
    (h' : IsLongest r s n') : n = n' := by
  rcases Nat.lt_trichotomy n n' with hlt | he | hlt
  · exact absurd h'.2.1 (h.2.2 n' hlt h'.1)
  · exact he
  · exact absurd h.2.1 (h'.2.2 n hlt h.1)

theorem longest_spec (r : Re) (s : Str) :
    ((∀ m, m ≤ s.length → ¬ Matches r (s.take m)) ∧ longest r s = none) ∨
    ∃ k, IsLongest r s k ∧ longest r s = some k := by
  unfold longest
  rcases longest_go_spec r s 0 none with h | ⟨k, hk, hm, hmax, he⟩
  · exact .inl h
  · exact .inr ⟨k, ⟨hk, hm, hmax⟩, by rw [he, Nat.zero_add]⟩

/-- `longest r s = some n` iff the prefix of length `n` is the longest matching prefix -/
theorem longest_eq_some_iff {r : Re} {s : Str} {n : Nat} :
    longest r s = some n ↔
      n ≤ s.length ∧ Matches r (s.take n) ∧ ∀ m, n < m → m ≤ s.length → ¬ Matches r (s.take m) := by
  rcases longest_spec r s with ⟨hno, he⟩ | ⟨k, hk, he⟩
  · rw [he]
    constructor
    · intro h; cases h
    · rintro ⟨h1, h2, _⟩; exact absurd h2 (hno n h1)
  · rw [he]
    constructor
    · intro h; cases h; exact hk
    · intro h; rw [IsLongest.unique hk h]

/-- `longest r s = none` iff no prefix of `s` matches -/
theorem longest_eq_none_iff {r : Re} {s : Str} :
    longest r s = none ↔ ∀ m, m ≤ s.length → ¬ Matches r (s.take m) := by
  rcases longest_spec r s with ⟨hno, he⟩ | ⟨k, hk, he⟩
  · rw [he]; exact ⟨fun _ => hno, fun _ => rfl⟩
  · rw [he]
    constructor
    · intro h; cases h
    · intro h; exact absurd hk.2.1 (h k hk.1)

end Re
end Wac.Spec.Grammar
