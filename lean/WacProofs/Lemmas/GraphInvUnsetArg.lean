import WacProofs.Lemmas.GraphInvSetArg
/-
  `unset_instantiation_argument` preserves `Inv`.
-/
namespace Wac.Graph
open Wac Wac.HashSites

theorem removeArgEdge_eq_erase (es : List Edge) (a n i : Nat) :
    removeArgEdge es a n i = es.erase ⟨a, n, .arg i⟩ := by
  induction es with
  | nil => rfl
  | cons x r ih =>
    unfold removeArgEdge
    rw [List.erase_cons]
    by_cases hx : x = ⟨a, n, .arg i⟩
    · simp [hx]
    · simp [hx, ih]

theorem scanConnecting_true {es : List Edge} {inst i : Nat} (h : scanConnecting es inst i = .ok true) :
    ∃ e ∈ es, e.dst = inst ∧ e.kind = .arg i := by
  induction es with
  | nil => simp [scanConnecting] at h
  | cons x r ih =>
    unfold scanConnecting at h
    split at h
    · rename_i hd
      split at h
      · rename_i j hk
        split at h
        · rename_i hji
          exact ⟨x, List.mem_cons_self .., hd, by rw [hk, hji]⟩
        · obtain ⟨e, he, h1, h2⟩ := ih h
          exact ⟨e, List.mem_cons_of_mem _ he, h1, h2⟩
      · cases h
    · obtain ⟨e, he, h1, h2⟩ := ih h
      exact ⟨e, List.mem_cons_of_mem _ he, h1, h2⟩

theorem filter_erase_of_not {α : Type} [BEq α] [LawfulBEq α] (p : α → Bool) (a : α) (hp : p a = false)
    (l : List α) : (l.erase a).filter p = l.filter p := by
  induction l with
  | nil => rfl
  | cons x r ih =>
    rw [List.erase_cons]
    by_cases hx : (x == a) = true
    · have : x = a := by simpa using hx
      subst this
      simp [hp]
    · simp only [hx, Bool.false_eq_true, ↓reduceIte, List.filter_cons, ih]

/-- after erasing the only edge with a given argument key, no edge has that key -/
theorem no_key_after_erase {es : List Edge} {e0 : Edge} {key : Nat × Nat} (hmem : e0 ∈ es)
    (hkey : e0.argKey = some key) (nd : (es.filterMap Edge.argKey).Nodup) :
    ∀ e ∈ es.erase e0, e.argKey ≠ some key := by
  obtain ⟨l₁, l₂, _, hl, herase⟩ := List.exists_erase_eq hmem
  rw [herase]
  rw [hl] at nd
  simp only [List.filterMap_append, List.filterMap_cons, hkey] at nd
  rw [List.nodup_append] at nd
  obtain ⟨_, n2, n3⟩ := nd
  rw [List.nodup_cons] at n2
  intro e he hk
  rcases List.mem_append.mp he with he | he
  · have : key ∈ l₁.filterMap Edge.argKey := List.mem_filterMap.mpr ⟨e, he, hk⟩
    exact n3 key this key (List.mem_cons_self ..) rfl
  · have : key ∈ l₂.filterMap Edge.argKey := List.mem_filterMap.mpr ⟨e, he, hk⟩
    exact n2.1 this

/-- removal of an argument edge, on field equalities -/
theorem inv_unsetArg_core {ctx : Ctx} {g g' : Graph} {inst arg i : Nat} {nd : Node} {sat : List Nat}
    (h : Inv ctx g) (hnd : g.node? inst = some nd) (hk : nd.kind = .instantiation sat)
    (hedge : (⟨arg, inst, .arg i⟩ : Edge) ∈ g.edges)
    (hn : g'.nodes = g.nodes.set inst (some { nd with kind := .instantiation (sat.erase i) }))
    (hfn : g'.freeNodes = g.freeNodes) (he : g'.edges = g.edges.erase ⟨arg, inst, .arg i⟩)
    (him : g'.imports = g.imports) (hde : g'.defined = g.defined) (hex : g'.exports = g.exports)
    (hp : g'.pkgs = g.pkgs) (hm : g'.pkgMap = g.pkgMap) (hfp : g'.freePkgs = g.freePkgs) : Inv ctx g' := by
  obtain ⟨hfree, hnode⟩ := freeInv_of_set h.free hnd hn hfn
  have pk := pkgPart_congr h hp hm hfp
  have hnok := h.node hnd
  let nd' : Node := { nd with kind := .instantiation (sat.erase i) }
  let e0 : Edge := ⟨arg, inst, .arg i⟩
  have hnokey := no_key_after_erase hedge (key := (inst, i)) rfl h.argUnique
  have hsub : ∀ e ∈ g'.edges, e ∈ g.edges := fun e hem => by rw [he] at hem; exact List.mem_of_mem_erase hem
  have hinst' : g'.node? inst = some nd' := by rw [hnode]; simp [nd']
  have hother : ∀ m x, m ≠ inst → (g'.node? m = some x ↔ g.node? m = some x) := by
    intro m x hm'; rw [hnode]; simp [hm']
  -- node classes of the changed node
  have hA : nd'.isAlias = nd.isAlias := by simp [nd', Node.isAlias, hk]
  have hI : nd'.isInst = nd.isInst := by simp [nd', Node.isInst, hk]
  have hD : nd'.defTy = nd.defTy := by simp [nd', Node.defTy, hk]
  have hsatNew : nd'.sat = sat.erase i := by simp [nd', Node.sat]
  have hsatOld : nd.sat = sat := by simp [Node.sat, hk]
  have fwd : ∀ m x, g.node? m = some x → ∃ x', g'.node? m = some x' ∧ x'.pkg = x.pkg ∧ x'.item = x.item ∧
      x'.isAlias = x.isAlias ∧ x'.isInst = x.isInst ∧ x'.defTy = x.defTy ∧ x'.exp = x.exp ∧
      (m ≠ inst → x' = x) ∧ (m = inst → x = nd ∧ x' = nd') := by
    intro m x hx
    by_cases hm' : m = inst
    · subst hm'
      rw [hnd] at hx; cases hx
      exact ⟨nd', hinst', rfl, rfl, hA, hI, hD, rfl, fun hne => absurd rfl hne, fun _ => ⟨rfl, rfl⟩⟩
    · exact ⟨x, (hother m x hm').mpr hx, rfl, rfl, rfl, rfl, rfl, rfl, fun _ => rfl, fun e => absurd e hm'⟩
  apply Inv.build
  · intro e hem
    have hem0 := hsub e hem
    obtain ⟨s, hs, d, hd, hkk⟩ := h.edges e hem0
    obtain ⟨s', hs', sp, si, sa, sI, sD, _, _, _⟩ := fwd _ _ hs
    obtain ⟨d', hd', dp, di, da, dI, dD, _, dne, deq⟩ := fwd _ _ hd
    refine ⟨s', hs', d', hd', ?_⟩
    cases hek : e.kind with
    | alias j =>
      rw [hek] at hkk
      simp only at hkk ⊢
      rw [da, dp, sp, si, di]; exact hkk
    | arg j =>
      rw [hek] at hkk
      simp only at hkk ⊢
      obtain ⟨h1, h2, pid, hpid, pd, hpd, hlt⟩ := hkk
      refine ⟨?_, by rw [dI]; exact h2, pid, by rw [dp]; exact hpid, pd, by rw [pkgOf_congr hp]; exact hpd, hlt⟩
      by_cases hdi : e.dst = inst
      · obtain ⟨hx1, hx2⟩ := deq hdi
        rw [hx2, hsatNew]
        rw [hx1, hsatOld] at h1
        have hne : j ≠ i := by
          intro hji
          apply hnokey e (by rw [he] at hem; exact hem)
          unfold Edge.argKey
          rw [hek, hdi, hji]
        exact (List.mem_erase_of_ne hne).mpr h1
      · rw [dne hdi]; exact h1
    | dep =>
      rw [hek] at hkk
      simp only at hkk ⊢
      rw [sD, dD]; exact hkk
  · rw [he]
    exact (List.Sublist.filterMap _ List.erase_sublist).nodup h.argUnique
  · intro m x' hx'
    by_cases hm' : m = inst
    · subst hm'
      rw [hinst'] at hx'
      simp only [Option.some.injEq] at hx'
      subst hx'
      obtain ⟨h1, h2, h3⟩ := hnok
      rw [hk] at h2
      simp only at h2
      obtain ⟨hnodup, hsubs, hpd⟩ := h2
      refine ⟨?_, ?_, ?_⟩
      · intro pid' hpid'
        rw [pkgLive_congr hp]; exact h1 pid' hpid'
      · simp only [nd']
        refine ⟨hnodup.erase i, ?_, ?_⟩
        · intro j hj
          obtain ⟨hji, hjs⟩ := (hnodup.mem_erase_iff).mp hj
          obtain ⟨e, hem, hdst, hkind⟩ := hsubs j hjs
          refine ⟨e, ?_, hdst, hkind⟩
          rw [he]
          refine (List.mem_erase_of_ne ?_).mpr hem
          intro heq
          rw [heq] at hkind
          simp only [EdgeKind.arg.injEq] at hkind
          exact hji hkind.symm
        · obtain ⟨p, hp1, pd, hp2, hp3⟩ := hpd
          exact ⟨p, hp1, pd, by rw [pkgOf_congr hp]; exact hp2, hp3⟩
      · intro nm hnm; rw [hex]; exact h3 nm hnm
    · have hx := (hother m x' hm').mp hx'
      obtain ⟨h1, h2, h3⟩ := h.node hx
      refine ⟨?_, ?_, ?_⟩
      · intro pid' hpid'
        rw [pkgLive_congr hp]; exact h1 pid' hpid'
      · cases hkx : x'.kind with
        | instantiation sat' =>
          rw [hkx] at h2
          simp only at h2 ⊢
          obtain ⟨a, b, pid, hpid, pd, hpd, hit⟩ := h2
          refine ⟨a, ?_, pid, hpid, pd, by rw [pkgOf_congr hp]; exact hpd, hit⟩
          intro j hj
          obtain ⟨e, hem, hdst, hkind⟩ := b j hj
          refine ⟨e, ?_, hdst, hkind⟩
          rw [he]
          refine (List.mem_erase_of_ne ?_).mpr hem
          intro heq
          rw [heq] at hdst
          exact hm' hdst.symm
        | alias =>
          rw [hkx] at h2
          simp only at h2 ⊢
          unfold Graph.inEdges at h2 ⊢
          rw [he, filter_erase_of_not]
          · exact h2
          · simpa using (Ne.symm hm')
        | «import» nm =>
          rw [hkx] at h2
          simp only at h2 ⊢
          rw [him]; exact h2
        | definition ty =>
          rw [hkx] at h2
          simp only at h2 ⊢
          rw [hde]; exact h2
      · intro nm hnm; rw [hex]; exact h3 nm hnm
  · rw [hex]; exact h.exportsKeys
  · intro e hem
    rw [hex] at hem
    obtain ⟨x, hx, hxe⟩ := h.exportsLive' e hem
    obtain ⟨x', a, _, _, _, _, _, hexp, _, _⟩ := fwd _ _ hx
    exact ⟨x', a, by rw [hexp]; exact hxe⟩
  · rw [him]; exact h.importsKeys
  · intro e hem
    rw [him] at hem
    obtain ⟨x, hx, hxe⟩ := h.importsLive' e hem
    obtain ⟨x', a, _, _, _, _, _, _, c, d'⟩ := fwd _ _ hx
    refine ⟨x', a, ?_⟩
    by_cases hm' : e.2 = inst
    · have : x = nd := (d' hm').1
      rw [this, hk] at hxe; cases hxe
    · rw [c hm']; exact hxe
  · rw [hde]; exact h.definedKeys
  · intro e hem
    rw [hde] at hem
    obtain ⟨x, hx, hxe⟩ := h.definedLive' e hem
    obtain ⟨x', a, _, _, _, _, _, _, c, d'⟩ := fwd _ _ hx
    refine ⟨x', a, ?_⟩
    by_cases hm' : e.2 = inst
    · have : x = nd := (d' hm').1
      rw [this, hk] at hxe; cases hxe
    · rw [c hm']; exact hxe
  · exact pk.1
  · exact pk.2.1
  · exact pk.2.2.1
  · exact pk.2.2.2.1
  · exact pk.2.2.2.2
  · exact hfree

theorem inv_unsetArg {ctx : Ctx} {g g' : Graph} {inst arg : Nat} {name : Str} {out : Outcome}
    (h : Inv ctx g) (hs : unsetArg g inst name arg = (g', out)) : Inv ctx g' := by
  unfold unsetArg at hs
  split at hs
  · simp only [Prod.mk.injEq] at hs; rw [← hs.1]; exact h
  · rename_i nd hnd
    split at hs
    · rename_i sat hk
      split at hs
      · simp only [Prod.mk.injEq] at hs; rw [← hs.1]; exact h
      · split at hs
        · simp only [Prod.mk.injEq] at hs; rw [← hs.1]; exact h
        · split at hs
          · simp only [Prod.mk.injEq] at hs; rw [← hs.1]; exact h
          · rename_i i _ hfull
            split at hs
            · simp only [Prod.mk.injEq] at hs; rw [← hs.1]; exact h
            · simp only [Prod.mk.injEq] at hs; rw [← hs.1]; exact h
            · rename_i hscan
              split at hs
              · simp only [Prod.mk.injEq] at hs; rw [← hs.1]; exact h
              · simp only [Prod.mk.injEq] at hs
                rw [← hs.1]
                obtain ⟨e, hem, hdst, hkind⟩ := scanConnecting_true hscan
                unfold Graph.outEdges at hem
                rw [List.mem_filter] at hem
                have hsrc : e.src = arg := by simpa using hem.2
                have hedge : (⟨arg, inst, .arg i⟩ : Edge) ∈ g.edges := by
                  have : e = ⟨arg, inst, .arg i⟩ := by
                    cases e; simp only at hsrc hdst hkind; subst hsrc; subst hdst; subst hkind; rfl
                  rw [← this]; exact hem.1
                refine inv_unsetArg_core h hnd hk hedge rfl rfl ?_ rfl rfl rfl rfl rfl rfl
                simp [Graph.setNode, removeArgEdge_eq_erase]
    · simp only [Prod.mk.injEq] at hs; rw [← hs.1]; exact h

end Wac.Graph
