import WacProofs.Lemmas.PrinterParseDepthExpr
/-
  C13: the printed token sequence of every document the parser model returns stays within the
  nesting limit of the lexer (`parseTokens_depth`).

  Per parser function `parseX` (files `PrinterParseDepth{Base,Types,Decls,Items,Expr}`):

      st.depth = d → Post (parseX … st) (Bal d Wac.PrintTok.x)

  i.e. on a success `(x, st')` the counter is back at `d` (`st'.depth = d`) and
  `runDepth d (Wac.PrintTok.x x) = some d`: the printed tokens of `x` move the counter from `d`
  back to `d` and never exceed the limit.  The constructs that can contain `resource r;` (printed
  with a bracket pair that was not consumed) carry `d + n ≤ 128`; statements: `d + 3 ≤ 128`,
  used at `d = 0`.
-/
namespace Wac.Lemmas.PrinterDepth
open Wac Wac.Ast Wac.Lex Wac.Parse Wac.PrintTok

theorem parseStatement_dp (fuel : Nat) {st : PState} {d : Nat} (hd : st.depth = d)
    (hb : d + 3 ≤ 128) : Post (parseStatement fuel st) (Bal d statement) := by
  unfold parseStatement
  split
  · pbind parseImportStatement_dp fuel hd (by omega) => x st1 ⟨hd1, hx⟩
    exact Post_ok ⟨hd1, hx⟩
  · split
    · pbind parseLetStatement_dp fuel hd => x st1 ⟨hd1, hx⟩
      exact Post_ok ⟨hd1, hx⟩
    · split
      · pbind parseExportStatement_dp fuel hd => x st1 ⟨hd1, hx⟩
        exact Post_ok ⟨hd1, hx⟩
      · split
        · pbind parseTypeStatement_dp fuel hd hb => x st1 ⟨hd1, hx⟩
          exact Post_ok ⟨hd1, hx⟩
        · exact Post_error

theorem parsePackageDirective_dp {st : PState} {d : Nat} (hd : st.depth = d) :
    Post (parsePackageDirective st)
      (fun dir st' => st'.depth = d ∧ ∀ ds, Steps d (packageDirective ds dir) d) := by
  unfold parsePackageDirective
  pbind parseToken_nb hd => _ st1 hd1
  pbind parsePackageName_post hd1 => pk st2 hd2
  refine Post_bind (parseOptional_post (P := fun (_ : Option PackagePath) st' => st'.depth = d) hd2 ?_) ?_
  · intro _ sa hsa
    exact parsePackagePath_post (parseToken_nb hd2 (by decide) _ sa hsa)
  · rintro targets st3 hd3
    dsimp only
    pbind parseToken_nb hd3 => _ st4 hd4
    refine Post_ok ⟨hd4, fun ds => ?_⟩
    unfold packageDirective
    dsimp only
    cases targets <;> dsimp only <;> steps

/-- the statement loop of `Document::parse`: every statement starts with the counter at `d` -/
theorem parseStatements_dp (fuel : Nat) {d : Nat} (hb : d + 3 ≤ 128) : ∀ (n : Nat) {st : PState},
    st.depth = d → Post (parseStatements fuel n st)
      (fun ss st' => st'.depth = d ∧ Steps d (ss.flatMap statement) d) := by
  intro n
  induction n with
  | zero => intro st _; unfold parseStatements; exact Post_error
  | succ n ih =>
    intro st hd
    unfold parseStatements
    split
    · exact Post_ok ⟨hd, Steps.nil⟩
    · pbind parseStatement_dp fuel hd hb => s st1 ⟨hd1, hs⟩
      pbind ih hd1 => rest st2 ⟨hd2, hrest⟩
      refine Post_ok ⟨hd2, ?_⟩
      rw [List.flatMap_cons]
      steps

/-- the tokens the printer writes for a parsed document: the counter runs from 0 back to 0 -/
theorem parseTokens_steps (st : PState) (h0 : st.depth = 0) (d : Document)
    (h : parseTokens st = .ok d) : runDepth 0 (printTokens d) = some 0 := by
  unfold parseTokens at h
  dsimp only at h
  cases hpd : parsePackageDirective st with
  | error e => rw [hpd] at h; cases h
  | ok p =>
    obtain ⟨dir, st1⟩ := p
    rw [hpd] at h
    obtain ⟨hd1, hdir⟩ := parsePackageDirective_dp h0 dir st1 hpd
    cases hss : parseStatements (fuelFor st.toks.length) (st1.toks.length + 1) st1 with
    | error e =>
      have h' : (parseStatements (fuelFor st.toks.length) (st1.toks.length + 1) st1 >>=
          fun p => (Except.ok ⟨parseDocs st, dir, p.1⟩ : Except ParseError Document)) = .ok d := h
      rw [hss] at h'; cases h'
    | ok q =>
      obtain ⟨ss, st2⟩ := q
      have h' : (parseStatements (fuelFor st.toks.length) (st1.toks.length + 1) st1 >>=
          fun p => (Except.ok ⟨parseDocs st, dir, p.1⟩ : Except ParseError Document)) = .ok d := h
      rw [hss] at h'
      cases h'
      obtain ⟨_, hs⟩ := parseStatements_dp _ (by omega) _ hd1 ss st2 hss
      exact Steps.append (hdir _) hs

/-- **C13, nesting limit.**  The printed form of every document the parser model returns stays
within the bracket-nesting limit of the lexer. -/
theorem parseTokens_depth (st : PState) (h0 : st.depth = 0) (d : Document)
    (h : parseTokens st = .ok d) : d.depthOk = true := by
  unfold Document.depthOk depthOk
  rw [parseTokens_steps st h0 d h]
  rfl

/-- the same for `parseDocument` (the lexer starts with the counter at 0) -/
theorem parseDocument_depth (src : Str) (d : Document) (h : parseDocument src = .ok d) :
    d.depthOk = true := by
  unfold parseDocument at h
  split at h
  · cases h
  · exact parseTokens_depth _ rfl d h

end Wac.Lemmas.PrinterDepth
