import WacProofs.Lemmas.PrinterCharsParseBase
/-
  C13, "the parser puts only characters of the tokens into the leaves": types (`parseType`, by
  induction on the fuel), named types, result lists, function types.
-/
namespace Wac.Lemmas.PrinterChars
open Wac Wac.Ast Wac.Lex Wac.Parse

variable {q : Char → Bool}

theorem charsTys_cons (t : Ty) (r : List Ty) : charsTys q (t :: r) = (t.chars q && charsTys q r) := by rfl
theorem Ty.chars_Tuple (ts : List Ty) (sp : Span) : (Ty.Tuple ts sp).chars q = charsTys q ts := by rfl
theorem Ty.chars_List (t : Ty) (sp : Span) : (Ty.List t sp).chars q = t.chars q := by rfl
theorem Ty.chars_Option (t : Ty) (sp : Span) : (Ty.Option t sp).chars q = t.chars q := by rfl
theorem Ty.chars_Borrow (id : Ident) (sp : Span) : (Ty.Borrow id sp).chars q = id.chars q := by rfl
theorem Ty.chars_Ident (id : Ident) : (Ty.Ident id).chars q = id.chars q := by rfl

theorem charsTys_of_forall (ts : List Ty) (h : ∀ t ∈ ts, t.chars q = true) : charsTys q ts = true := by
  induction ts with
  | nil => rfl
  | cons t r ih =>
    rw [charsTys_cons, h t (List.mem_cons_self ..), ih (fun x hx => h x (List.mem_cons_of_mem _ hx))]
    rfl

theorem Ty.chars_Result (ok err : Option Ty) (sp : Span)
    (hok : ∀ t, ok = some t → t.chars q = true) (herr : ∀ t, err = some t → t.chars q = true) :
    (Ty.Result ok err sp).chars q = true := by
  cases ok with
  | none =>
    cases err with
    | none => rfl
    | some e => exact herr e rfl
  | some o =>
    cases err with
    | none => exact hok o rfl
    | some e =>
      show (o.chars q && e.chars q) = true
      rw [hok o rfl, herr e rfl]; rfl

theorem prim_chars {st : PState} (hst : ToksChars q st) (mk : Span → Ty)
    (hmk : ∀ sp, (mk sp).chars q = true) :
    PostC q (match st.next with
      | (some t, st') => (.ok (mk t.span, st') : PR Ty)
      | (none, _) => .error (.Panic "Type: next().unwrap()")) (fun t => t.chars q = true) := by
  have hn := ToksChars_next hst
  revert hn
  cases st.next with
  | mk o st' =>
    intro hn
    cases o with
    | none => exact PostC_error
    | some t => exact PostC_ok (hmk _) hn

/-- `_` or a type (the two positions of `result<…>`) -/
theorem underscoreOrType_chars (fuel : Nat)
    (ih : ∀ {st : PState}, ToksChars q st → PostC q (parseType fuel st) (fun t => t.chars q = true))
    {st : PState} (hst : ToksChars q st) :
    PostC q (if peekIs st .Underscore then (.ok (none, st.next.2) : PR (Option Ty))
      else if peekIn st typePeeks then do
        let (t, st) ← parseType fuel st
        .ok (some t, st)
      else .error (lookaheadError st (.Underscore :: typePeeks)))
      (fun o => ∀ t, o = some t → t.chars q = true) := by
  split
  · exact PostC_ok (fun t h => by cases h) (ToksChars_next hst)
  · split
    · cbind ih hst => t st1 ht hst1
      exact PostC_ok (fun t' h => by cases h; exact ht) hst1
    · exact PostC_error

theorem parseType_chars : ∀ (fuel : Nat) {st : PState}, ToksChars q st →
    PostC q (parseType fuel st) (fun t => t.chars q = true) := by
  intro fuel
  induction fuel with
  | zero => intro st _; unfold parseType; exact PostC_error
  | succ fuel ih =>
    intro st hst
    unfold parseType
    dsimp only
    split
    iterate 13 exact prim_chars hst _ (fun _ => rfl)
    · -- tuple
      cbind parseToken_chars _ hst => kw st1 _ hst1
      cbind parseToken_chars _ hst1 => _ st2 _ hst2
      split
      · exact PostC_error
      · cbind parseDelimited_chars _ _ _ (fun _ h => ih h) fuel hst2 => tys st3 htys hst3
        split
        · exact PostC_error
        · cbind parseToken_chars _ hst3 => close st4 _ hst4
          exact PostC_ok (by rw [Ty.chars_Tuple, charsTys_of_forall _ htys]) hst4
    · cbind parseToken_chars _ hst => kw st1 _ hst1
      cbind parseToken_chars _ hst1 => _ st2 _ hst2
      cbind ih hst2 => ty st3 hty hst3
      cbind parseToken_chars _ hst3 => close st4 _ hst4
      exact PostC_ok (by rw [Ty.chars_List]; exact hty) hst4
    · cbind parseToken_chars _ hst => kw st1 _ hst1
      cbind parseToken_chars _ hst1 => _ st2 _ hst2
      cbind ih hst2 => ty st3 hty hst3
      cbind parseToken_chars _ hst3 => close st4 _ hst4
      exact PostC_ok (by rw [Ty.chars_Option]; exact hty) hst4
    · -- result
      cbind parseToken_chars _ hst => kw st1 _ hst1
      refine PostC_bind (parseOptional_chars _ hst1 (P := fun r : Option Ty × Option Ty × Span =>
          (∀ t, r.1 = some t → t.chars q = true) ∧ (∀ t, r.2.1 = some t → t.chars q = true)) ?_) ?_
      · intro sa hsa
        cbind underscoreOrType_chars fuel ih hsa => ok sb hok hsb
        cbind parseOptional_chars _ hsb (fun sc hsc => underscoreOrType_chars fuel ih hsc) => err sc herr hsc
        cbind parseToken_chars _ hsc => close sd _ hsd
        refine PostC_ok ⟨hok, ?_⟩ hsd
        intro t ht
        cases err with
        | none => cases ht
        | some e => exact herr e rfl t ht
      · intro r st2 hr hst2
        dsimp only
        split
        · rename_i ok err span
          obtain ⟨h1, h2⟩ := hr (ok, err, span) rfl
          exact PostC_ok (Ty.chars_Result _ _ _ h1 h2) hst2
        · exact PostC_ok rfl hst2
    · cbind parseToken_chars _ hst => kw st1 _ hst1
      cbind parseToken_chars _ hst1 => _ st2 _ hst2
      cbind parseIdent_chars hst2 => id st3 hid hst3
      cbind parseToken_chars _ hst3 => close st4 _ hst4
      exact PostC_ok (by rw [Ty.chars_Borrow]; exact hid) hst4
    · cbind parseIdent_chars hst => id st3 hid hst3
      exact PostC_ok (by rw [Ty.chars_Ident]; exact hid) hst3
    · exact PostC_error

theorem parseNamedType_chars (fuel : Nat) {st : PState} (hst : ToksChars q st) :
    PostC q (parseNamedType fuel st) (fun n => n.chars q = true) := by
  unfold parseNamedType
  cbind parseIdent_chars hst => id st1 hid hst1
  cbind parseToken_chars _ hst1 => _ st2 _ hst2
  cbind parseType_chars fuel hst2 => ty st3 hty hst3
  exact PostC_ok (by simp [NamedType.chars, hid, hty]) hst3

theorem parseResultList_chars (fuel : Nat) {st : PState} (hst : ToksChars q st) :
    PostC q (parseResultList fuel st) (fun r => r.chars q = true) := by
  unfold parseResultList
  split
  · cbind parseType_chars fuel hst => ty st1 hty hst1
    exact PostC_ok (by simpa [ResultList.chars] using hty) hst1
  · exact PostC_error

theorem parseFuncType_chars (fuel : Nat) {st : PState} (hst : ToksChars q st) :
    PostC q (parseFuncType fuel st) (fun f => f.chars q = true) := by
  unfold parseFuncType
  cbind parseToken_chars _ hst => _ st1 _ hst1
  cbind parseToken_chars _ hst1 => _ st2 _ hst2
  cbind parseDelimited_chars _ _ _ (fun _ h => parseNamedType_chars fuel h) fuel hst2 => ps st3 hps hst3
  cbind parseToken_chars _ hst3 => _ st4 _ hst4
  cbind parseOptional_chars _ hst4 (fun _ h => parseResultList_chars fuel h) => rs st5 hrs hst5
  refine PostC_ok ?_ hst5
  cases rs with
  | none => simpa [FuncType.chars, List.all_eq_true, ResultList.chars] using hps
  | some r => simpa [FuncType.chars, List.all_eq_true, hrs r rfl] using hps

theorem parseFuncTypeRef_chars (fuel : Nat) {st : PState} (hst : ToksChars q st) :
    PostC q (parseFuncTypeRef fuel st) (fun f => f.chars q = true) := by
  unfold parseFuncTypeRef
  split
  · cbind parseFuncType_chars fuel hst => f st1 hf hst1
    exact PostC_ok (by simpa [FuncTypeRef.chars] using hf) hst1
  · cbind parseIdent_chars hst => id st1 hid hst1
    exact PostC_ok (by simpa [FuncTypeRef.chars] using hid) hst1
  · exact PostC_error

end Wac.Lemmas.PrinterChars
