import WacProofs.Lemmas.DecodeTop
/-
  C08 `decode_tree`, part 14: the canonical resource numbering (`canon` of the specification) does
  not see an injective renaming of the resource leaves.
-/
namespace Wac.Decode
open Wac Wac.Spec.Decode

section
variable {ρ : Nat → Res}

theorem indexOf_go_map (hinj : ∀ a b, (ρ a).idx = (ρ b).idx → a = b) (x : Nat) :
    ∀ (l : List Nat) (i : Nat),
      indexOf.go ((ρ x).idx) (l.map fun a => (ρ a).idx) i = indexOf.go x l i := by
  intro l
  induction l with
  | nil => intro i; simp [indexOf.go]
  | cons y r ih =>
    intro i
    simp only [List.map_cons, indexOf.go]
    by_cases hxy : y = x
    · subst hxy; simp
    · have : ¬ (ρ y).idx = (ρ x).idx := fun h => hxy (hinj _ _ h)
      simp [hxy, this, ih]

theorem canonRes_ren (hinj : ∀ a b, (ρ a).idx = (ρ b).idx → a = b) (seen : List Nat) (r : Res) :
    canonRes (seen.map fun a => (ρ a).idx) (ρ r.idx) =
      ((canonRes seen r).1, (canonRes seen r).2.map fun a => (ρ a).idx) := by
  unfold canonRes indexOf
  rw [indexOf_go_map hinj]
  split <;> simp

mutual
theorem canonT_ren (hinj : ∀ a b, (ρ a).idx = (ρ b).idx → a = b) :
    ∀ (t : Tree) (seen : List Nat),
      canonT (renT ρ t) (seen.map fun a => (ρ a).idx) =
        ((canonT t seen).1, (canonT t seen).2.map fun a => (ρ a).idx)
  | .none, s => by simp [renT, canonT]
  | .prim p, s => by simp [renT, canonT]
  | .own r, s => by simp [renT, canonT, canonRes_ren hinj]
  | .borrow r, s => by simp [renT, canonT, canonRes_ren hinj]
  | .tuple f, s => by simp [renT, canonT, canonF_ren hinj f s]
  | .list t, s => by simp [renT, canonT, canonT_ren hinj t s]
  | .fixedList t n, s => by simp [renT, canonT, canonT_ren hinj t s]
  | .option t, s => by simp [renT, canonT, canonT_ren hinj t s]
  | .result a b, s => by
    simp [renT, canonT, canonT_ren hinj a s, canonT_ren hinj b (canonT a s).2]
  | .variant f, s => by simp [renT, canonT, canonF_ren hinj f s]
  | .record f, s => by simp [renT, canonT, canonF_ren hinj f s]
  | .flags ns, s => by simp [renT, canonT]
  | .enum ns, s => by simp [renT, canonT]
  | .stream t, s => by simp [renT, canonT, canonT_ren hinj t s]
  | .future t, s => by simp [renT, canonT, canonT_ren hinj t s]
  | .func a ps r, s => by
    simp [renT, canonT, canonF_ren hinj ps s, canonT_ren hinj r (canonF ps s).2]
  | .instance f, s => by simp [renT, canonT, canonF_ren hinj f s]
  | .component i e, s => by
    simp [renT, canonT, canonF_ren hinj i s, canonF_ren hinj e (canonF i s).2]
  | .module m, s => by simp [renT, canonT]
  | .value t, s => by simp [renT, canonT, canonT_ren hinj t s]
  | .type t, s => by simp [renT, canonT, canonT_ren hinj t s]
  | .resource r, s => by simp [renT, canonT, canonRes_ren hinj]
theorem canonF_ren (hinj : ∀ a b, (ρ a).idx = (ρ b).idx → a = b) :
    ∀ (f : Forest) (seen : List Nat),
      canonF (renF ρ f) (seen.map fun a => (ρ a).idx) =
        ((canonF f seen).1, (canonF f seen).2.map fun a => (ρ a).idx)
  | .nil, s => by simp [renF, canonF]
  | .cons n t r, s => by
    simp [renF, canonF, canonT_ren hinj t s, canonF_ren hinj r (canonT t s).2]
end

/-- the canonical form does not see an injective renaming of the resource leaves -/
theorem canon_ren (hinj : ∀ a b, (ρ a).idx = (ρ b).idx → a = b) (t : Tree) :
    canon (renT ρ t) = canon t := by
  have := canonT_ren hinj t []
  simp only [List.map_nil] at this
  simp [canon, this]

mutual
/-- a renaming does not touch a resource-free tree -/
theorem renT_resourceFree : ∀ (t : Tree), t.resourceFree = true → renT ρ t = t
  | .none, _ => by simp [renT]
  | .prim p, _ => by simp [renT]
  | .own r, h => by simp [Tree.resourceFree] at h
  | .borrow r, h => by simp [Tree.resourceFree] at h
  | .tuple f, h => by simp only [Tree.resourceFree] at h; simp [renT, renF_resourceFree f h]
  | .list t, h => by simp only [Tree.resourceFree] at h; simp [renT, renT_resourceFree t h]
  | .fixedList t n, h => by simp only [Tree.resourceFree] at h; simp [renT, renT_resourceFree t h]
  | .option t, h => by simp only [Tree.resourceFree] at h; simp [renT, renT_resourceFree t h]
  | .result a b, h => by
    simp only [Tree.resourceFree, Bool.and_eq_true] at h
    simp [renT, renT_resourceFree a h.1, renT_resourceFree b h.2]
  | .variant f, h => by simp only [Tree.resourceFree] at h; simp [renT, renF_resourceFree f h]
  | .record f, h => by simp only [Tree.resourceFree] at h; simp [renT, renF_resourceFree f h]
  | .flags ns, _ => by simp [renT]
  | .enum ns, _ => by simp [renT]
  | .stream t, h => by simp only [Tree.resourceFree] at h; simp [renT, renT_resourceFree t h]
  | .future t, h => by simp only [Tree.resourceFree] at h; simp [renT, renT_resourceFree t h]
  | .func a ps r, h => by
    simp only [Tree.resourceFree, Bool.and_eq_true] at h
    simp [renT, renF_resourceFree ps h.1, renT_resourceFree r h.2]
  | .instance f, h => by simp only [Tree.resourceFree] at h; simp [renT, renF_resourceFree f h]
  | .component i e, h => by
    simp only [Tree.resourceFree, Bool.and_eq_true] at h
    simp [renT, renF_resourceFree i h.1, renF_resourceFree e h.2]
  | .module m, _ => by simp [renT]
  | .value t, h => by simp only [Tree.resourceFree] at h; simp [renT, renT_resourceFree t h]
  | .type t, h => by simp only [Tree.resourceFree] at h; simp [renT, renT_resourceFree t h]
  | .resource r, h => by simp [Tree.resourceFree] at h
theorem renF_resourceFree : ∀ (f : Forest), f.resourceFree = true → renF ρ f = f
  | .nil, _ => by simp [renF]
  | .cons n t r, h => by
    simp only [Forest.resourceFree, Bool.and_eq_true] at h
    simp [renF, renT_resourceFree t h.1, renF_resourceFree r h.2]
end

end

end Wac.Decode
