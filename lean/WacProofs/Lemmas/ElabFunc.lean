import WacProofs.Lemmas.ElabTy2
/-
  C05 `elab_denotes`, part 3: named lists of types (record fields, parameters) and `func_type`.
-/
namespace Wac.Elab
open Wac Wac.Spec.Wit Wac.Decode

variable {ρ : Nat → Res}

theorem Grow.addFunc (st : St) (f : FuncType) : Grow st.types (Elab.addFunc st f).1.types := by
  refine ⟨⟨rfl, fun _ _ h => h, ?_, fun _ _ h => h, fun _ x h => ⟨x, h, rfl, rfl⟩,
    fun _ x _ h => ⟨x, h, rfl⟩, fun _ x _ h => ⟨x, h, rfl, rfl⟩⟩, ?_, fun _ _ h => h, fun _ _ h => h⟩
  · intro i x h
    exact getElem?_append_lt' _ _ _ _ h
  · simp [Elab.addFunc, Types.size]

theorem unfoldNamed_all2 {T' : Types} {F : Nat} :
    ∀ {vs : List (Str × ValueType)} {l : List (Str × Tree)},
      All2 (fun v t => v.1 = t.1 ∧ Types.unfoldVT T' F v.2 = some (renT ρ t.2)) vs l →
      unfoldNamed (Types.unfoldVT T' F) vs = some (renF ρ (Forest.ofList l))
  | [], [], _ => rfl
  | (n, v) :: vs, (n', t) :: l, ⟨⟨hn, h1⟩, h2⟩ => by
    simp only at hn h1
    subst hn
    simp only [unfoldNamed, h1, unfoldNamed_all2 h2, Forest.ofList, renF]
  | [], _ :: _, hf => hf.elim
  | _ :: _, [], hf => hf.elim

theorem All2.append2 {α β : Type} {R : α → β → Prop} :
    ∀ {xs xs' : List α} {ys ys' : List β}, All2 R xs ys → All2 R xs' ys' → All2 R (xs ++ xs') (ys ++ ys')
  | [], _, [], _, _, h => h
  | _ :: _, _, _ :: _, _, ⟨h1, h2⟩, h => ⟨h1, All2.append2 h2 h⟩
  | [], _, _ :: _, _, hf, _ => hf.elim
  | _ :: _, _, [], _, hf, _ => hf.elim

/-- the denotation of a named list, element by element -/
def namedL (s : Scope) (xs : List (Str × WTy)) : Option (List (Str × Tree)) :=
  xs.mapM fun (nt : Str × WTy) => (tyTree s 64 nt.2).map fun t => (nt.1, t)

theorem namedTys_ok (dup : String) :
    ∀ (xs : List (Str × WTy)) (st st' : St) (acc out : List (Str × ValueType)),
      namedTys dup st xs acc = .ok (st', out) →
      Grow st.types st'.types ∧ st'.scope = st.scope ∧ st'.root = st.root ∧
      ∃ rest, out = acc ++ rest ∧
        ∀ (s : Scope), Sim ρ st.types st.scope s.binds → ∀ l, namedL s xs = some l →
          All2 (fun (v : Str × ValueType) (t : Str × Tree) => v.1 = t.1 ∧
            HV [] [] st'.types (vb st'.types) v.2 (renT ρ t.2)) rest l := by
  intro xs
  induction xs with
  | nil =>
    intro st st' acc out h
    simp only [namedTys] at h
    cases h
    refine ⟨Grow.refl _, rfl, rfl, [], by simp, ?_⟩
    intro s _ l hl
    simp only [namedL, List.mapM_nil] at hl
    cases hl
    trivial
  | cons x xs ih =>
    intro st st' acc out h
    obtain ⟨n, t⟩ := x
    simp only [namedTys] at h
    split at h
    · rename_i st1 v hv
      split at h
      · cases h
      · have k1 := ty_ok (ρ := ρ) _ _ _ _ _ hv
        obtain ⟨g2, sc2, rt2, rest, hrest, k2⟩ := ih _ _ _ _ h
        have g1 := (k1 default 0).grow
        have sc1 := (k1 default 0).scope
        have rt1 := (k1 default 0).root
        refine ⟨g1.trans g2, sc2.trans sc1, rt2.trans rt1, (n, v) :: rest, by simp [hrest], ?_⟩
        intro s hsim l hl
        simp only [namedL, List.mapM_cons, Option.pure_def, Option.bind_eq_bind] at hl
        obtain ⟨y, hy, hl⟩ := Option.bind_eq_some_iff.mp hl
        obtain ⟨l', hl', hl⟩ := Option.bind_eq_some_iff.mp hl
        cases hl
        obtain ⟨t1, ht1, rfl⟩ := Option.map_eq_some_iff.mp hy
        have hsim1 : Sim ρ st1.types st1.scope s.binds := by rw [sc1]; exact hsim.mono g1
        exact ⟨⟨rfl, HV.mono ((k1 s 64).tree hsim t1 ht1) g2.ext (by have := g2.size; unfold vb; omega)⟩,
          k2 s hsim1 l' hl'⟩
    · cases h

/-- the denotation of a function signature, with the trees of the extra leading parameters and
the forced result (constructor) -/
def FuncRel (ρ : Nat → Res) (T : Types) (f : Nat) (t : Tree) : Prop := HF [] [] T (vb T) f (renT ρ t)

theorem forest_ofList_toList : ∀ (f : Forest), Forest.ofList f.toList = f
  | .nil => rfl
  | .cons n t r => by simp [Forest.toList, Forest.ofList, forest_ofList_toList r]

theorem forest_ofList_append_toList (xs : List (Str × Tree)) (l : List (Str × Tree)) :
    Forest.ofList (xs ++ (Forest.ofList l).toList) = Forest.ofList (xs ++ l) := by
  have : ∀ l : List (Str × Tree), (Forest.ofList l).toList = l := by
    intro l
    induction l with
    | nil => rfl
    | cons x r ih => obtain ⟨n, t⟩ := x; simp [Forest.ofList, Forest.toList, ih]
  rw [this]

/-- the `self` parameter of a method -/
def selfParams : FuncKind → Option Nat → List (Str × ValueType)
  | .method, some r => [("self".toList, .borrow r)]
  | _, _ => []

/-- the result of a function: declared, or `own<r>` for a constructor -/
def resultOf (st : St) : Option WTy → FuncKind → Option Nat → M (St × Option ValueType)
  | none, .constructor, some r => .ok (st, some (.own r))
  | none, _, _ => .ok (st, none)
  | some t, _, _ =>
    match ty 64 st t with
    | .ok (st, v) => .ok (st, some v)
    | .error e => .error e

theorem funcType_eq (st : St) (params : List (Str × WTy)) (result : Option WTy) (kind : FuncKind)
    (resource : Option Nat) : funcType st params result kind resource =
    match namedTys "DuplicateParameter" st params (selfParams kind resource) with
    | .error e => .error e
    | .ok (st, ps) =>
      match resultOf st result kind resource with
      | .error e => .error e
      | .ok (st, r) =>
        .ok ((Elab.addFunc st { params := ps, result := r, isAsync := false }).1,
             (Elab.addFunc st { params := ps, result := r, isAsync := false }).2) := by
  cases result <;> cases kind <;> cases resource <;> rfl

/-- the extra leading parameters of the specification match the kind of the function -/
def ExtraOk (ρ : Nat → Res) (T : Types) : FuncKind → Option Nat → List (Str × Tree) → Prop
  | .method, some r, extra => ∃ q : Res, extra = [("self".toList, Tree.borrow q)] ∧ HL [] [] T r (ρ q.idx)
  | _, _, extra => extra = []

/-- the forced result of the specification (a constructor returns `own`) matches the kind -/
def ForcedOk (ρ : Nat → Res) (T : Types) : Option WTy → FuncKind → Option Nat → Option Tree → Prop
  | none, .constructor, some r, forced => ∃ q : Res, forced = some (Tree.own q) ∧ HL [] [] T r (ρ q.idx)
  | _, _, _, forced => forced = none

/-- `func_type` is faithful: free functions, methods (`self: borrow<r>` first), statics and
constructors (result `own<r>`) -/
theorem funcType_ok {st st' : St} {params : List (Str × WTy)} {result : Option WTy} {kind : FuncKind}
    {resource : Option Nat} {f : Nat}
    (h : funcType st params result kind resource = .ok (st', f)) :
    Grow st.types st'.types ∧ st'.scope = st.scope ∧ st'.root = st.root ∧
    ∀ (s : Scope), Sim ρ st.types st.scope s.binds →
      ∀ (extra : List (Str × Tree)) (forced : Option Tree) (t : Tree),
      ExtraOk ρ st.types kind resource extra → ForcedOk ρ st.types result kind resource forced →
      sigTree s extra { params := params, result := result } forced = some t →
      FuncRel ρ st'.types f t := by
  rw [funcType_eq] at h
  split at h
  · cases h
  · rename_i st1 ps hps
    obtain ⟨g1, sc1, rt1, rest, hrest, k1⟩ := namedTys_ok (ρ := ρ) _ _ _ _ _ _ hps
    split at h
    · cases h
    · rename_i st2 r hres
      cases h
      -- the result part
      have hres' : Grow st1.types st2.types ∧ st2.scope = st1.scope ∧ st2.root = st1.root := by
        cases result with
        | none =>
          cases kind <;> cases resource <;> simp only [resultOf] at hres <;> cases hres <;>
            exact ⟨Grow.refl _, rfl, rfl⟩
        | some rt =>
          simp only [resultOf] at hres
          split at hres
          · rename_i st3 v hv
            cases hres
            have k := ty_ok (ρ := ρ) _ _ _ _ _ hv default 0
            exact ⟨k.grow, k.scope, k.root⟩
          · cases hres
      obtain ⟨g2, sc2, rt2⟩ := hres'
      refine ⟨(g1.trans g2).trans (Grow.addFunc _ _), sc2.trans sc1, rt2.trans rt1, ?_⟩
      intro s hsim extra forced t hextra hforced ht
      have hsim1 : Sim ρ st1.types st1.scope s.binds := by rw [sc1]; exact hsim.mono g1
      unfold sigTree at ht
      simp only [namedTrees] at ht
      cases hl : namedL s params with
      | none =>
        have : (List.mapM (fun (nt : Str × WTy) => Option.map (fun t => (nt.fst, t)) (tyTree s 64 nt.snd)) params) = none := hl
        simp [this] at ht
      | some l =>
        have hl2 : (List.mapM (fun (nt : Str × WTy) => Option.map (fun t => (nt.fst, t)) (tyTree s 64 nt.snd)) params) = some l := hl
        simp only [hl2, Option.map_some] at ht
        rw [forest_ofList_append_toList] at ht
        have hrestAll := k1 s hsim l hl
        -- the parameters of the allocated function type
        intro T' F he hF
        have hsz : vb (Elab.addFunc st2 { params := ps, result := r, isAsync := false }).1.types = vb st2.types + 1 := by
          simp [vb, Elab.addFunc, Types.size]; omega
        rw [hsz] at hF
        have he2 : Ext [] [] st2.types T' := (Grow.addFunc st2 _).ext.trans he
        have hfn : T'.funcs[st2.types.funcs.length]? = some { params := ps, result := r, isAsync := false } :=
          he.funcs _ _ (by simp [Elab.addFunc])
        have hps' : unfoldNamed (Types.unfoldVT T' F) ps = some (renF ρ (Forest.ofList (extra ++ l))) := by
          rw [hrest]
          apply unfoldNamed_all2
          apply All2.append2
          · -- the `self` parameter
            cases kind <;> cases resource <;> simp only [ExtraOk, selfParams] at hextra ⊢ <;>
              first
                | (subst hextra; trivial)
                | (obtain ⟨q, rfl, hq⟩ := hextra
                   refine ⟨⟨rfl, ?_⟩, trivial⟩
                   obtain ⟨F', rfl⟩ : ∃ F', F = F' + 1 := ⟨F - 1, by unfold vb at hF; omega⟩
                   simp only [Types.unfoldVT, hq T' ((g1.trans g2).ext.trans he2), Option.map_some, renT])
          · exact All2.imp (fun v t hvt => ⟨hvt.1, hvt.2 T' F (g2.ext.trans he2)
              (by have := g2.size; unfold vb at hF ⊢; omega)⟩) hrestAll
        have hidx : (Elab.addFunc st2 { params := ps, result := r, isAsync := false }).2 = st2.types.funcs.length := rfl
        simp only [Types.unfoldFunc, hidx, hfn, hps']
        -- the result
        cases result with
        | some rt =>
          simp only [ForcedOk] at hforced
          subst hforced
          simp only at ht
          obtain ⟨tr, htr, rfl⟩ := Option.map_eq_some_iff.mp ht
          simp only [resultOf] at hres
          split at hres
          · rename_i st3 v hv
            cases hres
            have k := ty_ok (ρ := ρ) _ _ _ _ _ hv s 64
            have := k.tree hsim1 tr htr T' F he2 (by omega)
            simp only [unfoldOpt, this, renT]
          · cases hres
        | none =>
          cases kind <;> cases resource <;> simp only [ForcedOk, resultOf] at hforced hres <;> cases hres <;>
            first
              | (subst hforced
                 simp only at ht
                 cases ht
                 simp only [unfoldOpt, renT])
              | (obtain ⟨q, rfl, hq⟩ := hforced
                 simp only at ht
                 cases ht
                 obtain ⟨F', rfl⟩ : ∃ F', F = F' + 1 := ⟨F - 1, by unfold vb at hF; omega⟩
                 simp only [unfoldOpt, Types.unfoldVT, hq T' ((g1.trans g2).ext.trans he2), Option.map_some, renT])

end Wac.Elab
