import WacModel.Spec.Decode
/-
  Helper lemmas for C08 (model `Wac.Decode`).
-/
namespace Wac.Decode
open Wac

/-- the six sorts of items -/
inductive Sort6 | module | func | value | type | instance | component
deriving DecidableEq, Repr

def sortE : WEnt → Sort6
  | .module _ => .module
  | .func _ => .func
  | .value _ => .value
  | .type _ _ => .type
  | .instance _ => .instance
  | .component _ => .component

def sortK : ItemKind → Sort6
  | .module _ => .module
  | .func _ => .func
  | .value _ => .value
  | .type _ => .type
  | .instance _ => .instance
  | .component _ => .component

/-- `entity` keeps the sort of the item -/
theorem entity_sort {w : WTypes} {fuel : Nat} {st st' : St} {n : Str} {e : WEnt} {k : ItemKind}
    (h : entity w fuel st n e = .ok (st', k)) : sortK k = sortE e := by
  cases fuel with
  | zero => simp [entity] at h
  | succ fuel =>
    cases e <;> simp only [entity] at h <;> split at h <;> simp_all [sortK, sortE] <;>
      (obtain ⟨_, rfl⟩ := h; rfl)

/-- names and sorts are preserved by the conversion of a list of top-level items -/
theorem topItems_names_sorts {w : WTypes} {fuel : Nat} :
    ∀ {items : List (Str × WEnt)} {st st' : St} {ks : List (Str × ItemKind)},
      topItems w fuel st items = .ok (st', ks) →
      ks.map (·.1) = items.map (·.1) ∧ ks.map (fun x => sortK x.2) = items.map (fun x => sortE x.2) := by
  intro items
  induction items with
  | nil =>
    intro st st' ks h
    simp [topItems, loopM] at h
    obtain ⟨_, rfl⟩ := h
    simp
  | cons x xs ih =>
    intro st st' ks h
    simp only [topItems, loopM] at h
    split at h
    · rename_i st1 y hy
      split at hy
      · rename_i st2 k hk
        cases hy
        split at h
        · rename_i st3 ys hys
          cases h
          have := ih (st := st1) (st' := st') (ks := ys) (by simpa [topItems] using hys)
          have hs := entity_sort hk
          simp [this.1, this.2, hs]
        · cases h
        · cases h
      · cases hy
      · cases hy
    · cases h
    · cases h

theorem alInsert_fresh {β : Type} (m : List (Str × β)) (k : Str) (v : β)
    (h : k ∉ m.map (·.1)) : alInsert m k v = m ++ [(k, v)] := by
  induction m with
  | nil => simp [alInsert]
  | cons x xs ih =>
    obtain ⟨k', v'⟩ := x
    simp only [List.map_cons, List.mem_cons, not_or] at h
    have hne : (k' == k) = false := by
      simp only [beq_eq_false_iff_ne, ne_eq]
      exact fun e => h.1 e.symm
    simp [alInsert, hne, ih h.2]

theorem foldl_alInsert_nodup {β : Type} :
    ∀ (xs acc : List (Str × β)), ((acc ++ xs).map (·.1)).Nodup →
      xs.foldl (fun m (kv : Str × β) => alInsert m kv.1 kv.2) acc = acc ++ xs := by
  intro xs
  induction xs with
  | nil => intro acc _; simp
  | cons x xs ih =>
    intro acc h
    simp only [List.foldl_cons]
    have hx : x.1 ∉ acc.map (·.1) := by
      simp only [List.map_append, List.map_cons] at h
      rw [List.nodup_append] at h
      intro hmem
      exact (h.2.2 _ hmem _ (List.mem_cons_self ..)) rfl
    rw [alInsert_fresh _ _ _ hx]
    have : (acc ++ [(x.1, x.2)]) ++ xs = acc ++ x :: xs := by simp
    rw [ih (acc ++ [(x.1, x.2)]) (by simpa [this] using h)]
    simp

/-- building an `IndexMap` from pairs with pairwise distinct keys keeps them all, in order -/
theorem collectMap_nodup {β : Type} (xs : List (Str × β)) (h : (xs.map (·.1)).Nodup) :
    collectMap xs = xs := by
  simpa [collectMap] using foldl_alInsert_nodup xs [] (by simpa using h)

/-- a named loop keeps the names -/
theorem loopM_named_fst {α β : Type} {g : St → α → Outcome (St × β)} :
    ∀ {xs : List (Str × α)} {st st' : St} {ys : List (Str × β)},
      loopM (namedM g) st xs = .ok (st', ys) →
      ys.map (·.1) = xs.map (·.1) := by
  intro xs
  induction xs with
  | nil =>
    intro st st' ys h
    simp [loopM] at h
    obtain ⟨_, rfl⟩ := h
    simp
  | cons x xs ih =>
    intro st st' ys h
    simp only [loopM] at h
    split at h
    · rename_i st1 y hy
      simp only [namedM] at hy
      split at hy
      · cases hy
        split at h
        · rename_i st3 ys' hys
          cases h
          simp [ih hys]
        · cases h
        · cases h
      · cases hy
      · cases hy
    · cases h
    · cases h

theorem optM_isSome {β : Type} {g : St → WVal → Outcome (St × β)} {st st' : St} {o : Option WVal}
    {r : Option β} (h : optM g st o = .ok (st', r)) : r.isSome = o.isSome := by
  cases o with
  | none => simp [optM] at h; obtain ⟨_, rfl⟩ := h; rfl
  | some v =>
    simp only [optM] at h
    split at h
    · cases h; rfl
    · cases h
    · cases h

theorem alGet_alInsert_self {β : Type} (m : List (Str × β)) (k : Str) (v : β) :
    alGet (alInsert m k v) k = some v := by
  induction m with
  | nil => simp [alInsert, alGet]
  | cons x xs ih =>
    obtain ⟨k', v'⟩ := x
    by_cases h : (k' == k) = true
    · simp [alInsert, alGet, h]
    · simp only [Bool.not_eq_true] at h
      simp [alInsert, alGet, h, ih]

/-- a resolution survives an append to the resource arena -/
theorem resolve_append (t : Types) (x : Resource) :
    ∀ (fuel id s : Nat), t.resolveResource fuel id = some s →
      ({ t with resources := t.resources ++ [x] } : Types).resolveResource fuel id = some s := by
  have app : ∀ (i : Nat) (a : Resource), t.resources[i]? = some a → (t.resources ++ [x])[i]? = some a := by
    intro i a hi
    have hlt : i < t.resources.length := by
      rcases Nat.lt_or_ge i t.resources.length with hlt | hge
      · exact hlt
      · rw [List.getElem?_eq_none hge] at hi; cases hi
    rw [List.getElem?_append_left hlt]; exact hi
  intro fuel
  induction fuel with
  | zero => intro id s h; simp [Types.resolveResource] at h
  | succ fuel ih =>
    intro id s h
    unfold Types.resolveResource at h ⊢
    split at h
    · cases h
    · rename_i res hres
      simp only [app _ _ hres]
      split at h
      · exact h
      · exact ih _ _ h

theorem resolve2_append (t : Types) (x : Resource) (id s : Nat)
    (h : t.resolveResource 2 id = some s) :
    ({ t with resources := t.resources ++ [x] } : Types).resolveResource 2 id = some s :=
  resolve_append t x 2 id s h

/-- Shape of a successful `fromBytes`: the world is the last world of the collection and lists
the converted imports and exports. -/
theorem fromBytes_world (w : WTypes) (d : Decoded) (h : fromBytes w = .ok d) :
    ∃ root st st' imports exports,
      w.comps[w.root]? = some root ∧
      topItems w w.fuel {} root.imports = .ok (st, imports) ∧
      topItems w w.fuel st root.exports = .ok (st', exports) ∧
      d.types.worlds[d.world]? =
        some { id := none, uses := [], imports := collectMap imports, exports := collectMap exports } := by
  unfold fromBytes at h
  split at h
  · cases h
  · rename_i root hroot
    simp only at h
    split at h
    · rename_i st imports himp
      split at h
      · rename_i st' exports hexp
        simp only [addWorld, addInterface] at h
        cases h
        exact ⟨root, st, st', imports, exports, hroot, himp, hexp, by simp⟩
      · cases h
      · cases h
    · cases h
    · cases h

theorem getElem?_append_lt' {α : Type} (l : List α) (x : α) (i : Nat) (a : α) (h : l[i]? = some a) :
    (l ++ [x])[i]? = some a := by
  have hi : i < l.length := by
    rcases Nat.lt_or_ge i l.length with hlt | hge
    · exact hlt
    · rw [List.getElem?_eq_none hge] at h; cases h
  rw [List.getElem?_append_left hi]; exact h

end Wac.Decode
