import WacProofs.Lemmas.EncIface
import WacModel.Spec.Foreign
/-
  The interface invariant `IInv` through `resolve_imports`, and what it gives at the end: the
  `ifaceNamed` hypothesis of the C02 / C03 theorems, from `ForeignSingle g`.
-/
namespace Wac
open Wac.Spec

variable {Fr Nm : Str → Prop}

theorem resolveArgs_iinv (hsingle : ∀ f, Fr f → ∀ x, Nm x → compat f x = true → f = x)
    {g : GraphVal} {inst : Nat} (reqs : List ImportReq) {r r' : Resolved} {P : List (Str × Kind)}
    (hA : AInv r.agg.imports r.agg.redirects P) (hI : IInv Fr Nm r.agg.imports r.agg.ifaces)
    (hreqs : ∀ q ∈ reqs, ReqOk Fr Nm q.name q.ty) (he : resolveArgs g inst reqs r = .ok r') :
    IInv Fr Nm r'.agg.imports r'.agg.ifaces := by
  induction reqs generalizing r P with
  | nil => simp only [resolveArgs] at he; injection he with he; subst he; exact hI
  | cons q reqs ih =>
    simp only [resolveArgs] at he
    cases hi : g.importNode? q.name with
    | some i => simp [hi] at he
    | none =>
      simp only [hi] at he
      cases ha : r.agg.aggregate q.name q.ty with
      | none => simp [ha] at he
      | some a' =>
        simp only [ha] at he
        exact ih (aggregate_inv hA ha) (aggregate_iinv hsingle hA hI (hreqs q (List.mem_cons_self ..)) ha)
          (fun q' hq' => hreqs q' (List.mem_cons_of_mem _ hq')) he

theorem resolveInsts_iinv (hsingle : ∀ f, Fr f → ∀ x, Nm x → compat f x = true → f = x)
    {g : GraphVal} (nodes : List Node) {r r' : Resolved} {P : List (Str × Kind)}
    (hA : AInv r.agg.imports r.agg.redirects P) (hI : IInv Fr Nm r.agg.imports r.agg.ifaces)
    (hnodes : ∀ n ∈ nodes, ∀ slot sat p, n.kind = .instantiation slot sat → g.pkg? slot = some p →
      ∀ q ∈ unsatisfied p sat, ReqOk Fr Nm q.name q.ty)
    (he : resolveInsts g nodes r = .ok r') : IInv Fr Nm r'.agg.imports r'.agg.ifaces := by
  induction nodes generalizing r P with
  | nil => simp only [resolveInsts] at he; injection he with he; subst he; exact hI
  | cons n nodes ih =>
    have hn' : ∀ m ∈ nodes, ∀ slot sat p, m.kind = .instantiation slot sat → g.pkg? slot = some p →
        ∀ q ∈ unsatisfied p sat, ReqOk Fr Nm q.name q.ty := fun m hm => hnodes m (List.mem_cons_of_mem _ hm)
    simp only [resolveInsts] at he
    cases hk : n.kind with
    | instantiation slot sat =>
      simp only [hk] at he
      cases hp : g.pkg? slot with
      | none => simp [hp] at he
      | some p =>
        simp only [hp] at he
        cases ha : resolveArgs g n.id (unsatisfied p sat) r with
        | ok r1 =>
          simp only [ha] at he
          exact ih (resolveArgs_inv _ hA ha)
            (resolveArgs_iinv hsingle _ hA hI (hnodes n (List.mem_cons_self ..) slot sat p hk hp) ha) hn' he
        | error e => simp [ha] at he
        | panic s => simp [ha] at he
    | «import» nm => simp only [hk] at he; exact ih hA hI hn' he
    | «alias» => simp only [hk] at he; exact ih hA hI hn' he
    | definition => simp only [hk] at he; exact ih hA hI hn' he

theorem resolveExplicit_iinv (hsingle : ∀ f, Fr f → ∀ x, Nm x → compat f x = true → f = x)
    {g : GraphVal} {first : List (Str × Nat)} (ns : List Nat) {a a' : Agg} {ex ex' : List (Str × Nat)}
    {P : List (Str × Kind)} (hA : AInv a.imports a.redirects P) (hI : IInv Fr Nm a.imports a.ifaces)
    (hnodes : ∀ n ∈ ns, ∀ nd nm, g.node? n = some nd → nd.kind = .import nm → ReqOk Fr Nm nm nd.ty)
    (he : resolveExplicit g first ns a ex = .ok (a', ex')) : IInv Fr Nm a'.imports a'.ifaces := by
  induction ns generalizing a ex P with
  | nil =>
    simp only [resolveExplicit] at he
    injection he with he
    injection he with h1 _
    subst h1
    exact hI
  | cons n ns ih =>
    have hn' : ∀ m ∈ ns, ∀ nd nm, g.node? m = some nd → nd.kind = .import nm → ReqOk Fr Nm nm nd.ty :=
      fun m hm => hnodes m (List.mem_cons_of_mem _ hm)
    simp only [resolveExplicit] at he
    cases hn : g.node? n with
    | none => simp [hn] at he
    | some nd =>
      simp only [hn] at he
      cases hk : nd.kind with
      | «import» name =>
        simp only [hk] at he
        cases hagg : a.aggregate name nd.ty with
        | none => simp [hagg] at he
        | some a1 =>
          simp only [hagg] at he
          exact ih (aggregate_inv hA hagg)
            (aggregate_iinv hsingle hA hI (hnodes n (List.mem_cons_self ..) nd name hn hk) hagg) hn' he
      | instantiation slot sat => simp only [hk] at he; exact ih hA hI hn' he
      | «alias» => simp only [hk] at he; exact ih hA hI hn' he
      | definition => simp only [hk] at he; exact ih hA hI hn' he

theorem IInv.init : IInv Fr Nm [] [] := ⟨by simp, by simp, by simp, by simp⟩

/-- an implied request meets what `aggregate_iinv` asks, under `ForeignSingle` -/
theorem reqOk_of_foreignSingle {g : GraphVal} (fs : ForeignSingle g) {r : ImportReq} (hr : r ∈ impliedReqs g) :
    ReqOk (· ∈ foreignIds g) (· ∈ impliedNames g) r.name r.ty := by
  refine ⟨mem_impliedReqs_name hr, ?_, ?_⟩
  · intro d hd
    exact List.mem_flatMap.mpr ⟨r, hr, List.mem_append.mpr (Or.inl hd)⟩
  · intro i hi
    rcases fs.own r hr i hi with e | e
    · exact Or.inl e
    · right
      refine ⟨List.mem_flatMap.mpr ⟨r, hr, List.mem_append.mpr (Or.inr ?_)⟩, e⟩
      have hne : i ≠ r.name := by
        intro h
        rw [h, compat_rfl] at e; cases e
      simp [hi, hne]

/-- the interface invariant at the end of the model's aggregation -/
theorem aggOf_iinv {g : GraphVal} (wf : WF g) (fs : ForeignSingle g) {importNodes : List Nat} {agg : Agg}
    (h : aggOf g importNodes = some agg) :
    IInv (· ∈ foreignIds g) (· ∈ impliedNames g) agg.imports agg.ifaces := by
  have hsingle : ∀ f, f ∈ foreignIds g → ∀ x, x ∈ impliedNames g → compat f x = true → f = x := fs.single
  unfold aggOf at h
  cases hr : resolveInsts g g.nodes {} with
  | error e => simp [hr] at h
  | panic s => simp [hr] at h
  | ok r =>
    simp only [hr] at h
    cases hx : resolveExplicit g r.first importNodes r.agg [] with
    | error e => simp [hx] at h
    | panic s => simp [hx] at h
    | ok ae =>
      obtain ⟨a, ex⟩ := ae
      simp only [hx, Option.some.injEq] at h
      subst h
      have hA1 := resolveInsts_inv g.nodes (r := {}) (P := []) AInv.init hr
      have hI1 := resolveInsts_iinv hsingle g.nodes (r := {}) (P := []) AInv.init IInv.init (by
        intro n hn slot sat p hk hp q hq
        rw [wf.satOk n hn slot sat p hk hp] at hq
        exact reqOk_of_foreignSingle fs ((mem_impliedReqs g q).mpr (Or.inl ⟨n, hn, slot, sat, p, hk, hp, hq⟩))) hr
      exact resolveExplicit_iinv hsingle importNodes hA1 hI1 (by
        intro n _ nd nm hnd hk
        exact reqOk_of_foreignSingle (r := { name := nm, ty := nd.ty }) fs
          ((mem_impliedReqs g _).mpr (Or.inr ⟨nd, (node?_mem hnd).1, nm, hk, rfl⟩))) hx

theorem ifaceOf_of_Qk {a : Agg} {k : Str} (h : Qk k a.ifaces) : a.ifaceOf k = k := by
  unfold Agg.ifaceOf
  cases hf : a.ifaces.find? fun i => compat i k with
  | none => rfl
  | some x =>
    simp only
    have hp : compat x k = true := by
      have := List.find?_some hf
      simpa using this
    exact h.2 x (List.mem_of_find?_eq_some hf) hp

theorem ifaceOf_compat (a : Agg) (i : Str) : compat (a.ifaceOf i) i = true := by
  unfold Agg.ifaceOf
  cases hf : a.ifaces.find? fun x => compat x i with
  | none => exact compat_rfl i
  | some x =>
    simp only
    have := List.find?_some hf
    simpa using this

/-- the `ifaceNamed` hypothesis, from the invariant -/
theorem ifaceNamed_of_iinv {a : Agg} (h : IInv Fr Nm a.imports a.ifaces) :
    ∀ e ∈ fixedImports a, e.2.kind = .instance → e.2.iface = none ∨ e.2.iface = some e.1 ∨
      ∃ i, e.2.iface = some i ∧ (providesIface e.1 i = false ∨
        (privIn (fixedImports a) i ∧ ∀ e' ∈ fixedImports a, e'.1 ≠ e.1 → e'.2.iface ≠ some i)) := by
  intro e he _
  obtain ⟨e0, he0, rfl⟩ := List.mem_map.mp he
  show (a.fix e0.2).iface = none ∨ (a.fix e0.2).iface = some e0.1 ∨ _
  cases hi : e0.2.iface with
  | none => left; simp [Agg.fix, hi]
  | some i =>
    right
    rcases h.c1 e0 he0 i hi with e1 | e1
    · left
      subst e1
      have := ifaceOf_of_Qk (h.c2 e0 he0 hi)
      simp [Agg.fix, hi, this]
    · right
      refine ⟨a.ifaceOf i, by simp [Agg.fix, hi], Or.inl ?_⟩
      unfold providesIface
      have hc : compat (a.ifaceOf i) e0.1 = false := by
        cases hcc : compat (a.ifaceOf i) e0.1 with
        | false => rfl
        | true =>
          rw [compat_tr (compat_sym (ifaceOf_compat a i)) hcc] at e1; cases e1
      have hne : (a.ifaceOf i == e0.1) = false := by
        cases hb : a.ifaceOf i == e0.1 with
        | false => rfl
        | true =>
          have : a.ifaceOf i = e0.1 := by simpa using hb
          rw [this, compat_rfl] at hc; cases hc
      simp [hne, hc]

end Wac
