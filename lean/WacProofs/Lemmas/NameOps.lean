import WacProofs.Lemmas.NameMap
import WacProofs.Lemmas.VersionInj
import WacModel.NameOps
import WacModel.Spec.NameOps
/-
  `NameMap` under arbitrary `insert` sequences (fresh, shadowing and rejected insertions):
  a declarative invariant tying the two tables to the effective entries, preserved by every
  call, and the reading of `get` it yields.
-/
namespace Wac
open Wac.Spec

variable {β : Type}

/-! ### the effective entries, through `lookup` -/

theorem setValue_cons (e : Str × β) (es : List (Str × β)) (n : Str) (x : β) :
    setValue (e :: es) n x = (if e.1 == n then (e.1, x) else e) :: setValue es n x := rfl

theorem names_setValue (es : List (Str × β)) (n : Str) (x : β) :
    (setValue es n x).map (·.1) = es.map (·.1) := by
  induction es with
  | nil => rfl
  | cons e es ih =>
    rw [setValue_cons, List.map_cons, List.map_cons, ih]
    by_cases h : e.1 = n
    · simp [h]
    · have : (e.1 == n) = false := beq_eq_false_iff_ne.mpr h
      simp [this]

theorem lookup_setValue (es : List (Str × β)) (n n' : Str) (x : β) :
    lookup (setValue es n x) n' = if n = n' then (lookup es n').map (fun _ => x) else lookup es n' := by
  induction es with
  | nil => simp [setValue, lookup]
  | cons e es ih =>
    rw [setValue_cons, lookup_cons, lookup_cons, ih]
    by_cases h : e.1 = n
    · subst h
      simp only [beq_self_eq_true, ↓reduceIte]
      by_cases h2 : e.1 = n' <;> simp [h2]
    · have hb : (e.1 == n) = false := beq_eq_false_iff_ne.mpr h
      simp only [hb, Bool.false_eq_true, ↓reduceIte]
      by_cases h2 : e.1 = n'
      · subst h2
        have : ¬ n = e.1 := fun e' => h e'.symm
        simp [this]
      · simp [h2]

theorem lookup_append_single (es : List (Str × β)) (n n' : Str) (x : β) :
    lookup (es ++ [(n, x)]) n' = match lookup es n' with
      | some y => some y
      | none => if n = n' then some x else none := by
  induction es with
  | nil => simp [lookup]
  | cons e es ih =>
    rw [List.cons_append, lookup_cons, lookup_cons, ih]
    by_cases h : e.1 = n' <;> simp [h]

theorem mem_lookup_isSome {es : List (Str × β)} {e : Str × β} (h : e ∈ es) :
    (lookup es e.1).isSome = true := by
  cases hl : lookup es e.1 with
  | some _ => rfl
  | none =>
    exact absurd (List.mem_map.mpr ⟨e, h, rfl⟩) ((lookup_none_iff es e.1).mp hl)

/-- an accepted call sets the value under its name and nothing else -/
theorem lookup_effStep (es : List (Str × β)) (n : Str) (sh : Bool) (x : β)
    (hacc : accepts es n sh = true) (n' : Str) :
    lookup (effStep es (n, sh, x)) n' = if n = n' then some x else lookup es n' := by
  unfold effStep
  simp only
  cases hl : lookup es n with
  | none =>
    simp only [lookup_append_single]
    by_cases h : n = n'
    · subst h; simp [hl]
    · simp only [h, ↓reduceIte]; cases lookup es n' <;> rfl
  | some y =>
    have hsh : sh = true := by simpa [accepts, hl] using hacc
    subst hsh
    simp only [↓reduceIte, lookup_setValue]
    by_cases h : n = n'
    · subst h; simp [hl]
    · simp [h]

/-- a rejected call changes nothing -/
theorem effStep_rejected (es : List (Str × β)) (n : Str) (sh : Bool) (x : β)
    (hrej : accepts es n sh = false) : effStep es (n, sh, x) = es := by
  unfold effStep
  simp only
  cases hl : lookup es n with
  | none => simp [accepts, hl] at hrej
  | some y =>
    have hsh : sh = false := by simpa [accepts, hl] using hrej
    subst hsh; simp

theorem nodup_effStep (es : List (Str × β)) (op : Str × Bool × β)
    (hnd : (es.map (·.1)).Nodup) : ((effStep es op).map (·.1)).Nodup := by
  unfold effStep
  cases hl : lookup es op.1 with
  | none =>
    simp only [List.map_append, List.map_cons, List.map_nil]
    rw [List.nodup_append]
    refine ⟨hnd, by simp, ?_⟩
    intro a ha b hb
    simp only [List.mem_singleton] at hb
    subst hb
    intro hab; subst hab
    exact (lookup_none_iff es _).mp hl ha
  | some y =>
    simp only
    split
    · rw [names_setValue]; exact hnd
    · exact hnd

theorem nodup_effectiveFrom (es : List (Str × β)) (ops : List (Str × Bool × β))
    (hnd : (es.map (·.1)).Nodup) : ((effectiveFrom es ops).map (·.1)).Nodup := by
  induction ops generalizing es with
  | nil => exact hnd
  | cons op r ih => exact ih _ (nodup_effStep es op hnd)

theorem nodup_effective (ops : List (Str × Bool × β)) : ((effective ops).map (·.1)).Nodup :=
  nodup_effectiveFrom [] ops List.nodup_nil

/-! ### one `insert` call on the two tables -/

theorem insert_eq_none_iff (m : NameMap β) (n : Str) (sh : Bool) (x : β) :
    m.insert n sh x = none ↔ ((amGet m.definitions n).isSome = true ∧ sh = false) := by
  unfold NameMap.insert
  split
  · rename_i h
    simp only [Bool.and_eq_true, Bool.not_eq_true'] at h
    simp [h]
  · rename_i h
    simp only [Bool.and_eq_true, Bool.not_eq_true'] at h
    constructor
    · intro h'
      exfalso
      revert h'
      simp only
      split
      · simp
      · split
        · simp
        · split <;> simp
    · intro h'; exact absurd h' h

theorem insert_some_tables {m m1 : NameMap β} {n : Str} {sh : Bool} {x : β}
    (hi : m.insert n sh x = some m1) :
    m1.definitions = amInsert m.definitions n x ∧
    ∀ k, amGet m1.alternate k = match altKey n with
      | none => amGet m.alternate k
      | some (k', v) => if k' = k then altStep (amGet m.alternate k) n v else amGet m.alternate k := by
  unfold NameMap.insert at hi
  split at hi
  · cases hi
  · simp only at hi
    constructor
    · split at hi
      · simp at hi; rw [← hi]
      · split at hi
        · simp at hi; rw [← hi]
        · split at hi <;> (simp at hi; rw [← hi])
    · intro k
      split at hi
      · rename_i hk; simp at hi; rw [← hi, hk]
      · rename_i k' v hk
        rw [hk]; simp only
        split at hi
        · rename_i hg
          simp at hi; rw [← hi]; simp only [amGet_amInsert]
          by_cases hkk : k' = k
          · subst hkk; simp [hg, altStep]
          · simp [hkk]
        · rename_i pn pv hg
          by_cases hkk : k' = k
          · subst hkk
            split at hi
            · rename_i hlt; simp at hi; rw [← hi]; simp [hg, altStep, hlt]
            · rename_i hlt; simp at hi; rw [← hi]; simp [amGet_amInsert, hg, altStep, hlt]
          · split at hi <;> (simp at hi; rw [← hi]; simp [amGet_amInsert, hkk])

/-! ### the invariant -/

/-- the alternate-table entry `o` of key `k` is right for the entries `es`: absent iff no entry
has that key; otherwise it names an entry of that key, with its version, that no entry of the key
exceeds -/
def AltOk (es : List (Str × β)) (k : Str) : Option (Str × Version) → Prop
  | none => ∀ n v, altKey n = some (k, v) → lookup es n = none
  | some (rn, rv) => (lookup es rn).isSome = true ∧ altKey rn = some (k, rv) ∧
      ∀ n v, altKey n = some (k, v) → (lookup es n).isSome = true → ¬ (rv.lt v = true)

/-- the map `m` represents the entries `es` -/
structure Inv (m : NameMap β) (es : List (Str × β)) : Prop where
  nodup : (es.map (·.1)).Nodup
  defs : ∀ n, amGet m.definitions n = lookup es n
  alt : ∀ k, AltOk es k (amGet m.alternate k)

theorem inv_empty : Inv ({} : NameMap β) [] where
  nodup := List.nodup_nil
  defs := fun _ => rfl
  alt := fun _ => by
    show AltOk [] _ none
    intro n v _; rfl

/-- setting the value under `n` keeps / repairs every alternate-table entry exactly the way
`insert` does -/
theorem altOk_step {es es' : List (Str × β)} {n : Str} {x : β} (k : Str)
    (cur : Option (Str × Version))
    (hl : ∀ n', lookup es' n' = if n = n' then some x else lookup es n')
    (h : AltOk es k cur) :
    AltOk es' k (match altKey n with
      | none => cur
      | some (k', v) => if k' = k then altStep cur n v else cur) := by
  have hmono : ∀ n', (lookup es n').isSome = true → (lookup es' n').isSome = true := by
    intro n' h'; rw [hl]; split
    · rfl
    · exact h'
  have hself : (lookup es' n).isSome = true := by rw [hl]; simp
  -- when `n` has no key or another key, entries of key `k` are the old ones
  have hother : (∀ v, altKey n ≠ some (k, v)) → AltOk es' k cur := by
    intro hk
    cases cur with
    | none =>
      intro n' v' ha
      have hne : ¬ n = n' := by intro e; subst e; exact hk v' ha
      rw [hl, if_neg hne]; exact h n' v' ha
    | some c =>
      obtain ⟨rn, rv⟩ := c
      obtain ⟨h1, h2, h3⟩ := h
      refine ⟨hmono _ h1, h2, ?_⟩
      intro n' v' ha hs
      have hne : ¬ n = n' := by intro e; subst e; exact hk v' ha
      rw [hl, if_neg hne] at hs; exact h3 n' v' ha hs
  cases hk : altKey n with
  | none =>
    simp only
    exact hother (by intro v; rw [hk]; simp)
  | some kv =>
    obtain ⟨k', v⟩ := kv
    simp only
    by_cases hkk : k' = k
    · subst hkk
      simp only [↓reduceIte]
      cases cur with
      | none =>
        simp only [altStep]
        refine ⟨hself, hk, ?_⟩
        intro n' v' ha hs
        by_cases hne : n = n'
        · subst hne; rw [hk] at ha; cases ha; rw [not_vlt_iff]
        · rw [hl, if_neg hne, h n' v' ha] at hs; cases hs
      | some c =>
        obtain ⟨pn, pv⟩ := c
        obtain ⟨h1, h2, h3⟩ := h
        simp only [altStep]
        by_cases hlt : v.lt pv = true
        · simp only [hlt, ↓reduceIte]
          refine ⟨hmono _ h1, h2, ?_⟩
          intro n' v' ha hs
          by_cases hne : n = n'
          · subst hne; rw [hk] at ha; cases ha
            rw [not_vlt_iff]; exact le_of_lt ((vlt_iff _ _).mp hlt)
          · rw [hl, if_neg hne] at hs; exact h3 n' v' ha hs
        · simp only [hlt, Bool.false_eq_true, ↓reduceIte]
          refine ⟨hself, hk, ?_⟩
          intro n' v' ha hs
          by_cases hne : n = n'
          · subst hne; rw [hk] at ha; cases ha; rw [not_vlt_iff]
          · rw [hl, if_neg hne] at hs
            have a := (not_vlt_iff _ _).mp (h3 n' v' ha hs)
            rw [not_vlt_iff]; exact le_trans a ((not_vlt_iff _ _).mp hlt)
    · simp only [hkk, ↓reduceIte]
      exact hother (by intro v' e; rw [hk] at e; cases e; exact hkk rfl)

/-- every `insert` call — fresh, shadowing or rejected — preserves the invariant -/
theorem inv_step {m : NameMap β} {es : List (Str × β)} (h : Inv m es) (op : Str × Bool × β) :
    Inv (m.step op) (effStep es op) := by
  obtain ⟨n, sh, x⟩ := op
  unfold NameMap.step
  simp only
  cases hi : m.insert n sh x with
  | none =>
    simp only
    have := (insert_eq_none_iff m n sh x).mp hi
    rw [h.defs n] at this
    have hrej : accepts es n sh = false := by
      obtain ⟨h1, h2⟩ := this
      subst h2
      cases hl : lookup es n with
      | none => rw [hl] at h1; cases h1
      | some y => simp [accepts, hl]
    rw [effStep_rejected es n sh x hrej]
    exact h
  | some m1 =>
    simp only
    have hacc : accepts es n sh = true := by
      cases ha : accepts es n sh with
      | true => rfl
      | false =>
        exfalso
        have : m.insert n sh x = none := by
          rw [insert_eq_none_iff, h.defs n]
          cases hl : lookup es n with
          | none => simp [accepts, hl] at ha
          | some y =>
            refine ⟨rfl, ?_⟩
            simpa [accepts, hl] using ha
        rw [this] at hi; cases hi
    obtain ⟨hdefs, halt⟩ := insert_some_tables hi
    have hl := lookup_effStep es n sh x hacc
    refine ⟨nodup_effStep es _ h.nodup, ?_, ?_⟩
    · intro n'
      rw [hdefs, amGet_amInsert, hl, h.defs n']
    · intro k
      rw [halt k]
      exact altOk_step k _ hl (h.alt k)

theorem inv_runOps {m : NameMap β} {es : List (Str × β)} (h : Inv m es)
    (ops : List (Str × Bool × β)) : Inv (m.runOps ops) (effectiveFrom es ops) := by
  induction ops generalizing m es with
  | nil => exact h
  | cons op r ih => exact ih (inv_step h op)

theorem inv_runOps_empty (ops : List (Str × Bool × β)) :
    Inv (({} : NameMap β).runOps ops) (effective ops) := inv_runOps inv_empty ops

/-- a map that represents `es` answers every query admissibly for `es` -/
theorem inv_get_isGet {m : NameMap β} {es : List (Str × β)} (h : Inv m es) (q : Str) :
    IsGet es q (m.get q) := by
  unfold IsGet NameMap.get
  rw [h.defs q]
  cases hl : lookup es q with
  | some x => rfl
  | none =>
    simp only
    cases ht : trackOf q with
    | none => simp [altKey_none_of_track ht]
    | some t =>
      obtain ⟨kq, vq, hkq, hrep, _⟩ := altKey_of_track ht
      simp only [hkq]
      have ha := h.alt kq
      cases hg : amGet m.alternate kq with
      | none =>
        rw [hg] at ha
        left
        refine ⟨rfl, ?_⟩
        intro e he hte
        obtain ⟨ke, ve, hke, hrepe, _⟩ := altKey_of_track hte
        have hkk : ke = kq := (keyRep_eq_iff hrepe hrep).mpr rfl
        have hn : lookup es e.1 = none := ha e.1 ve (by rw [hke, hkk])
        have := mem_lookup_isSome he
        rw [hn] at this; cases this
      | some r =>
        obtain ⟨rn, rv⟩ := r
        rw [hg] at ha
        obtain ⟨h1, h2, h3⟩ := ha
        right
        obtain ⟨x, hx⟩ := Option.isSome_iff_exists.mp h1
        obtain ⟨tr, htr, hreprn, hvrn⟩ := track_of_altKey h2
        have htt : tr = t := (keyRep_eq_iff hreprn hrep).mp rfl
        subst htt
        refine ⟨rn, x, rv, ?_, lookup_some_mem hx, htr, hvrn, ?_⟩
        · simp only; rw [h.defs rn]; exact hx
        · intro e he hte v' hv'
          obtain ⟨ke, ve, hke, hrepe, hve⟩ := altKey_of_track hte
          have hkk : ke = kq := (keyRep_eq_iff hrepe hrep).mpr rfl
          rw [hve] at hv'; cases hv'
          exact h3 e.1 _ (by rw [hke, hkk]) (mem_lookup_isSome he)

/-! ### `getSpec` under overwriting one value -/

theorem onTrack_setValue (es : List (Str × β)) (t : Track) (n : Str) (x : β) :
    onTrack (setValue es n x) t = setValue (onTrack es t) n x := by
  induction es with
  | nil => rfl
  | cons e es ih =>
    rw [setValue_cons]
    unfold onTrack at ih ⊢
    rw [List.filter_cons, List.filter_cons]
    have hname : (if (e.1 == n) = true then (e.1, x) else e).1 = e.1 := by
      split <;> rfl
    rw [hname]
    split
    · rw [setValue_cons, ih]
    · exact ih

theorem highest_setValue (l : List (Str × β)) (n : Str) (x : β) :
    highest (setValue l n x) = (highest l).map (fun e => if e.1 == n then (e.1, x) else e) := by
  induction l with
  | nil => rfl
  | cons e r ih =>
    rw [setValue_cons]
    simp only [highest]
    rw [ih]
    have hname : ∀ e : Str × β, (if (e.1 == n) = true then (e.1, x) else e).1 = e.1 := by
      intro e; split <;> rfl
    cases hh : highest r with
    | none => simp
    | some h =>
      simp only [Option.map_some, hname]
      cases versionOf e.1 with
      | none => simp
      | some ve =>
        cases versionOf h.1 with
        | none => simp
        | some vh =>
          simp only
          split <;> simp

theorem getSpec_eq_answerEntry (es : List (Str × β)) (q : Str) :
    getSpec es q = (answerEntry es q).map (·.2) := by
  unfold getSpec answerEntry
  cases es.find? (fun e => e.1 == q) with
  | some e => rfl
  | none => simp only; cases trackOf q <;> rfl

theorem find_setValue (es : List (Str × β)) (n : Str) (x : β) (q : Str) :
    (setValue es n x).find? (fun e => e.1 == q) =
      (es.find? (fun e => e.1 == q)).map (fun e => if e.1 == n then (e.1, x) else e) := by
  induction es with
  | nil => rfl
  | cons e es ih =>
    rw [setValue_cons]
    simp only [List.find?_cons]
    have hname : (if (e.1 == n) = true then (e.1, x) else e).1 = e.1 := by split <;> rfl
    rw [hname]
    cases hq : (e.1 == q) with
    | true => simp
    | false => simpa using ih

theorem answerEntry_setValue (es : List (Str × β)) (n : Str) (x : β) (q : Str) :
    answerEntry (setValue es n x) q =
      (answerEntry es q).map (fun e => if e.1 == n then (e.1, x) else e) := by
  unfold answerEntry
  rw [find_setValue]
  cases es.find? (fun e => e.1 == q) with
  | some e => rfl
  | none =>
    simp only [Option.map_none]
    cases trackOf q with
    | none => rfl
    | some t => simp only; rw [onTrack_setValue, highest_setValue]

/-- overwriting the value under `n` changes exactly the answers given through the entry `n` -/
theorem getSpec_setValue (es : List (Str × β)) (n : Str) (x : β) (q : Str) :
    getSpec (setValue es n x) q = if answeredBy es q = some n then some x else getSpec es q := by
  rw [getSpec_eq_answerEntry, getSpec_eq_answerEntry, answerEntry_setValue]
  unfold answeredBy
  cases answerEntry es q with
  | none => simp
  | some e =>
    by_cases h : e.1 = n
    · simp [h]
    · simp [h]

theorem answeredBy_exact {es : List (Str × β)} {q : Str} (h : lookup es q ≠ none) :
    answeredBy es q = some q := by
  unfold answeredBy answerEntry
  unfold lookup at h
  cases hf : es.find? (fun e => e.1 == q) with
  | none => rw [hf] at h; exact absurd rfl h
  | some e =>
    have := List.find?_some hf
    simp only [beq_iff_eq] at this
    simp [this]

theorem answeredBy_fallback {es : List (Str × β)} {q : Str} {t : Track}
    (h : lookup es q = none) (ht : trackOf q = some t) :
    answeredBy es q = (highest (onTrack es t)).map (·.1) := by
  unfold answeredBy answerEntry
  unfold lookup at h
  cases hf : es.find? (fun e => e.1 == q) with
  | none => simp [ht]
  | some e => rw [hf] at h; cases h

/-! ### sequences -/

theorem effectiveFrom_append (es : List (Str × β)) (ops ops' : List (Str × Bool × β)) :
    effectiveFrom es (ops ++ ops') = effectiveFrom (effectiveFrom es ops) ops' := by
  induction ops generalizing es with
  | nil => rfl
  | cons op r ih => simp only [List.cons_append, effectiveFrom]; exact ih _

theorem runOps_append (m : NameMap β) (ops ops' : List (Str × Bool × β)) :
    m.runOps (ops ++ ops') = (m.runOps ops).runOps ops' := by
  induction ops generalizing m with
  | nil => rfl
  | cons op r ih => simp only [List.cons_append, NameMap.runOps]; exact ih _

/-- pairwise distinct new names: every call is accepted whatever its flag -/
theorem effectiveFrom_fresh (es : List (Str × β)) (ops : List (Str × Bool × β))
    (hfresh : ∀ o ∈ ops, lookup es o.1 = none) (hnd : (ops.map (·.1)).Nodup) :
    effectiveFrom es ops = es ++ ops.map (fun o => (o.1, o.2.2)) := by
  induction ops generalizing es with
  | nil => simp [effectiveFrom]
  | cons op r ih =>
    simp only [List.map_cons, List.nodup_cons] at hnd
    have h0 : lookup es op.1 = none := hfresh op (by simp)
    have hs : effStep es op = es ++ [(op.1, op.2.2)] := by unfold effStep; rw [h0]
    simp only [effectiveFrom, hs]
    rw [ih _ ?_ hnd.2]
    · simp
    · intro o ho
      rw [lookup_append_single, hfresh o (List.mem_cons_of_mem _ ho)]
      have : ¬ op.1 = o.1 := fun e => hnd.1 (by rw [e]; exact List.mem_map.mpr ⟨o, ho, rfl⟩)
      simp [this]

/-- the value under a name depends only on the calls that name it -/
theorem lookup_effectiveFrom (es : List (Str × β)) (ops : List (Str × Bool × β)) (n : Str) :
    lookup (effectiveFrom es ops) n = storedFrom (lookup es n) n ops := by
  induction ops generalizing es with
  | nil => rfl
  | cons op r ih =>
    obtain ⟨n', sh, x⟩ := op
    simp only [effectiveFrom, storedFrom]
    rw [ih]
    cases hacc : accepts es n' sh with
    | true =>
      rw [lookup_effStep es n' sh x hacc n]
      by_cases h : n' = n
      · subst h
        simp only [beq_self_eq_true, ↓reduceIte]
        cases hl : lookup es n' with
        | none => rfl
        | some y =>
          have : sh = true := by simpa [accepts, hl] using hacc
          subst this; rfl
      · have : (n' == n) = false := beq_eq_false_iff_ne.mpr h
        simp [h, this]
    | false =>
      rw [effStep_rejected es n' sh x hacc]
      by_cases h : n' = n
      · subst h
        cases hl : lookup es n' with
        | none => simp [accepts, hl] at hacc
        | some y =>
          have : sh = false := by simpa [accepts, hl] using hacc
          subst this; simp
      · have : (n' == n) = false := beq_eq_false_iff_ne.mpr h
        simp [this]

end Wac
