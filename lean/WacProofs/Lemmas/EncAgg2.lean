import WacProofs.Lemmas.EncAgg
import WacProofs.Lemmas.EncodeImports2
/-
  The aggregator invariant along `resolve_imports` (both loops), and what it gives at the end:
  `agg.canonical = Spec.canon g` on the implied names, and the two kind conjuncts of `AggHyp`.
-/
namespace Wac
open Wac.Spec

/-- the `(name, kind)` pairs the first loop of `resolve_imports` aggregates for one node -/
def reqPairs (g : GraphVal) (n : Node) : List (Str × Kind) :=
  match n.kind with
  | .instantiation slot sat =>
    match g.pkg? slot with
    | some p => (unsatisfied p sat).map fun r => (r.name, r.ty.kind)
    | none => []
  | _ => []

theorem resolveArgs_inv {g : GraphVal} {inst : Nat} (reqs : List ImportReq) {r r' : Resolved} {P : List (Str × Kind)}
    (h : AInv r.agg.imports r.agg.redirects P) (he : resolveArgs g inst reqs r = .ok r') :
    AInv r'.agg.imports r'.agg.redirects (P ++ reqs.map fun q => (q.name, q.ty.kind)) := by
  induction reqs generalizing r P with
  | nil => simp only [resolveArgs] at he; injection he with he; subst he; simpa using h
  | cons q reqs ih =>
    simp only [resolveArgs] at he
    cases hi : g.importNode? q.name with
    | some i => simp [hi] at he
    | none =>
      simp only [hi] at he
      cases ha : r.agg.aggregate q.name q.ty with
      | none => simp [ha] at he
      | some a' =>
        simp only [ha] at he
        have := ih (aggregate_inv h ha) he
        simpa [List.append_assoc] using this

theorem resolveInsts_inv {g : GraphVal} (nodes : List Node) {r r' : Resolved} {P : List (Str × Kind)}
    (h : AInv r.agg.imports r.agg.redirects P) (he : resolveInsts g nodes r = .ok r') :
    AInv r'.agg.imports r'.agg.redirects (P ++ nodes.flatMap (reqPairs g)) := by
  induction nodes generalizing r P with
  | nil => simp only [resolveInsts] at he; injection he with he; subst he; simpa using h
  | cons n nodes ih =>
    simp only [resolveInsts] at he
    cases hk : n.kind with
    | instantiation slot sat =>
      simp only [hk] at he
      cases hp : g.pkg? slot with
      | none => simp [hp] at he
      | some p =>
        simp only [hp] at he
        cases ha : resolveArgs g n.id (unsatisfied p sat) r with
        | ok r1 =>
          simp only [ha] at he
          have := ih (resolveArgs_inv _ h ha) he
          simpa [List.flatMap_cons, reqPairs, hk, hp, List.append_assoc] using this
        | error e => simp [ha] at he
        | panic s => simp [ha] at he
    | «import» nm => simp only [hk] at he; simpa [List.flatMap_cons, reqPairs, hk] using ih h he
    | «alias» => simp only [hk] at he; simpa [List.flatMap_cons, reqPairs, hk] using ih h he
    | definition => simp only [hk] at he; simpa [List.flatMap_cons, reqPairs, hk] using ih h he

/-- an explicit import node of the list `ns`, as an aggregated pair -/
def IsExplicit (g : GraphVal) (ns : List Nat) (p : Str × Kind) : Prop :=
  ∃ n ∈ ns, ∃ nd, g.node? n = some nd ∧ nd.kind = .import p.1 ∧ p.2 = nd.ty.kind

theorem resolveExplicit_inv {g : GraphVal} {first : List (Str × Nat)} (ns : List Nat) {a a' : Agg}
    {ex ex' : List (Str × Nat)} {P : List (Str × Kind)} (h : AInv a.imports a.redirects P)
    (he : resolveExplicit g first ns a ex = .ok (a', ex')) :
    ∃ X, AInv a'.imports a'.redirects (P ++ X) ∧ ∀ p, p ∈ X ↔ IsExplicit g ns p := by
  induction ns generalizing a ex P with
  | nil =>
    simp only [resolveExplicit] at he
    injection he with he
    injection he with h1 _
    subst h1
    exact ⟨[], by simpa using h, by simp [IsExplicit]⟩
  | cons n ns ih =>
    simp only [resolveExplicit] at he
    cases hn : g.node? n with
    | none => simp [hn] at he
    | some nd =>
      simp only [hn] at he
      have hskip : (∀ nm, nd.kind ≠ .import nm) → ∀ p, IsExplicit g (n :: ns) p ↔ IsExplicit g ns p := by
        intro hne p
        constructor
        · rintro ⟨m, hm, nd', h1, h2, h3⟩
          rcases List.mem_cons.mp hm with e | e
          · subst e; rw [hn] at h1; injection h1 with h1; subst h1; exact absurd h2 (hne _)
          · exact ⟨m, e, nd', h1, h2, h3⟩
        · rintro ⟨m, hm, rest⟩
          exact ⟨m, List.mem_cons_of_mem _ hm, rest⟩
      cases hk : nd.kind with
      | «import» name =>
        simp only [hk] at he
        cases hagg : a.aggregate name nd.ty with
        | none => simp [hagg] at he
        | some a1 =>
          simp only [hagg] at he
          obtain ⟨X, hX, hiff⟩ := ih (aggregate_inv h hagg) he
          refine ⟨(name, nd.ty.kind) :: X, by simpa [List.append_assoc] using hX, ?_⟩
          intro p
          simp only [List.mem_cons, hiff]
          constructor
          · rintro (e | ⟨m, hm, rest⟩)
            · subst e; exact ⟨n, by simp, nd, hn, hk, rfl⟩
            · exact ⟨m, List.mem_cons_of_mem _ hm, rest⟩
          · rintro ⟨m, hm, nd', h1, h2, h3⟩
            rcases List.mem_cons.mp hm with e | e
            · subst e
              rw [hn] at h1; injection h1 with h1; subst h1
              rw [hk] at h2; injection h2 with h2
              left
              exact Prod.ext h2.symm h3
            · exact Or.inr ⟨m, e, nd', h1, h2, h3⟩
      | instantiation slot sat =>
        simp only [hk] at he
        obtain ⟨X, hX, hiff⟩ := ih h he
        exact ⟨X, hX, fun p => (hiff p).trans (hskip (by simp [hk]) p).symm⟩
      | «alias» =>
        simp only [hk] at he
        obtain ⟨X, hX, hiff⟩ := ih h he
        exact ⟨X, hX, fun p => (hiff p).trans (hskip (by simp [hk]) p).symm⟩
      | definition =>
        simp only [hk] at he
        obtain ⟨X, hX, hiff⟩ := ih h he
        exact ⟨X, hX, fun p => (hiff p).trans (hskip (by simp [hk]) p).symm⟩

/-- the invariant at the end of the model's aggregation -/
theorem aggOf_inv {g : GraphVal} {importNodes : List Nat} {agg : Agg} (h : aggOf g importNodes = some agg) :
    ∃ P, AInv agg.imports agg.redirects P ∧
      ∀ p, p ∈ P ↔ p ∈ g.nodes.flatMap (reqPairs g) ∨ IsExplicit g importNodes p := by
  unfold aggOf at h
  cases hr : resolveInsts g g.nodes {} with
  | error e => simp [hr] at h
  | panic s => simp [hr] at h
  | ok r =>
    simp only [hr] at h
    cases hx : resolveExplicit g r.first importNodes r.agg [] with
    | error e => simp [hx] at h
    | panic s => simp [hx] at h
    | ok ae =>
      obtain ⟨a, ex⟩ := ae
      simp only [hx, Option.some.injEq] at h
      subst h
      have h1 := resolveInsts_inv g.nodes (r := {}) (P := []) AInv.init hr
      obtain ⟨X, hX, hiff⟩ := resolveExplicit_inv importNodes h1 hx
      refine ⟨_, hX, ?_⟩
      intro p
      simp only [List.nil_append, List.mem_append, hiff]

/-! ### tracks: `alternate_lookup_key` strings vs the specification's `trackOf` -/

theorem sameTrack_iff (a b : Str) : SameTrack a b ↔ ∃ t, trackOf a = some t ∧ trackOf b = some t := by
  constructor
  · rintro ⟨k, va, vb, h1, h2⟩
    obtain ⟨ta, hta, ra, _⟩ := track_of_altKey h1
    obtain ⟨tb, htb, rb, _⟩ := track_of_altKey h2
    have : ta = tb := (keyRep_eq_iff ra rb).mp rfl
    subst this
    exact ⟨ta, hta, htb⟩
  · rintro ⟨t, h1, h2⟩
    obtain ⟨ka, va, hka, ra, _⟩ := altKey_of_track h1
    obtain ⟨kb, vb, hkb, rb, _⟩ := altKey_of_track h2
    have : ka = kb := (keyRep_eq_iff ra rb).mpr rfl
    subst this
    exact ⟨ka, va, vb, hka, hkb⟩

/-! ### the implied names -/

/-- membership in the specification's implied names, without the `match`es -/
theorem mem_impliedNames (g : GraphVal) (x : Str) :
    x ∈ impliedNames g ↔
      (∃ n ∈ g.nodes, ∃ slot sat p, n.kind = .instantiation slot sat ∧ g.pkg? slot = some p ∧
        ∃ r ∈ unsatisfiedByArgs n p, r.name = x) ∨
      (∃ n ∈ g.nodes, n.kind = .import x) := by
  unfold impliedNames
  simp only [List.mem_append, List.mem_flatMap, List.mem_filterMap]
  constructor
  · rintro (⟨n, hn, hx⟩ | ⟨n, hn, hx⟩)
    · left
      cases hk : n.kind with
      | instantiation slot sat =>
        simp only [hk] at hx
        cases hpk : g.pkg? slot with
        | none => simp [hpk] at hx
        | some pk =>
          simp only [hpk, List.mem_map] at hx
          obtain ⟨r, hr, rfl⟩ := hx
          exact ⟨n, hn, slot, sat, pk, hk, hpk, r, hr, rfl⟩
      | «import» nm => simp [hk] at hx
      | «alias» => simp [hk] at hx
      | definition => simp [hk] at hx
    · right
      cases hk : n.kind with
      | «import» nm =>
        simp only [hk, Option.some.injEq] at hx
        subst hx
        exact ⟨n, hn, hk⟩
      | instantiation slot sat => simp [hk] at hx
      | «alias» => simp [hk] at hx
      | definition => simp [hk] at hx
  · rintro (⟨n, hn, slot, sat, pk, hk, hpk, r, hr, rfl⟩ | ⟨n, hn, hk⟩)
    · left
      refine ⟨n, hn, ?_⟩
      simp only [hk, hpk, List.mem_map]
      exact ⟨r, hr, rfl⟩
    · right
      exact ⟨n, hn, by simp [hk]⟩

/-- the aggregated names are the implied names -/
theorem aggregated_names {g : GraphVal} (wf : WF g) {importNodes : List Nat}
    (hcomplete : ∀ nd ∈ g.nodes, nd.isImport = true → nd.id ∈ importNodes)
    {P : List (Str × Kind)}
    (hP : ∀ p, p ∈ P ↔ p ∈ g.nodes.flatMap (reqPairs g) ∨ IsExplicit g importNodes p) (x : Str) :
    x ∈ P.map (·.1) ↔ x ∈ impliedNames g := by
  rw [mem_impliedNames]
  constructor
  · intro hx
    obtain ⟨p, hp, rfl⟩ := List.mem_map.mp hx
    rcases (hP p).mp hp with h1 | ⟨n, _, nd, h1, h2, _⟩
    · left
      simp only [List.mem_flatMap] at h1
      obtain ⟨n, hn, hp⟩ := h1
      unfold reqPairs at hp
      cases hk : n.kind with
      | instantiation slot sat =>
        simp only [hk] at hp
        cases hpk : g.pkg? slot with
        | none => simp [hpk] at hp
        | some pk =>
          simp only [hpk, List.mem_map] at hp
          obtain ⟨r, hr, rfl⟩ := hp
          rw [wf.satOk n hn slot sat pk hk hpk] at hr
          exact ⟨n, hn, slot, sat, pk, hk, hpk, r, hr, rfl⟩
      | «import» nm => simp [hk] at hp
      | «alias» => simp [hk] at hp
      | definition => simp [hk] at hp
    · exact Or.inr ⟨nd, (node?_mem h1).1, h2⟩
  · rintro (⟨n, hn, slot, sat, pk, hk, hpk, r, hr, rfl⟩ | ⟨nd, hnd, hk⟩)
    · rw [← wf.satOk n hn slot sat pk hk hpk] at hr
      refine List.mem_map.mpr ⟨(r.name, r.ty.kind), (hP _).mpr (Or.inl ?_), rfl⟩
      simp only [List.mem_flatMap]
      exact ⟨n, hn, by simp only [reqPairs, hk, hpk, List.mem_map]; exact ⟨r, hr, rfl⟩⟩
    · refine List.mem_map.mpr ⟨(x, nd.ty.kind), (hP _).mpr (Or.inr ?_), rfl⟩
      exact ⟨nd.id, hcomplete nd hnd (by simp [Node.isImport, hk]), nd, node?_of_mem wf.idsNodup hnd, hk, rfl⟩

/-! ### `canonical = canon` -/

theorem AInv.canonical_facts {imps reds P} (h : AInv imps reds P) {p : Str × Kind} (hp : p ∈ P) :
    canonicalOf reds p.1 ∈ imps.map (·.1) ∧
      (canonicalOf reds p.1 = p.1 ∨
        ∃ κ vk vv, altKey p.1 = some (κ, vk) ∧ altKey (canonicalOf reds p.1) = some (κ, vv) ∧ vv.lt vk = false) := by
  obtain ⟨ty, hget, _⟩ := h.proc p hp
  refine ⟨amGet_mem_keys hget, ?_⟩
  cases hr : amGet reds p.1 with
  | none => left; simp [canonicalOf, hr]
  | some v =>
    right
    have : canonicalOf reds p.1 = v := by simp [canonicalOf, hr]
    rw [this]
    exact (h.red p.1 v hr).2.2

/-- the name the model's aggregator resolves an implied name to is the specification's:
    the name itself without a track, else the highest version among the implied names of the track -/
theorem canonical_eq_canon {g : GraphVal} (wf : WF g) {importNodes : List Nat}
    (hcomplete : ∀ nd ∈ g.nodes, nd.isImport = true → nd.id ∈ importNodes)
    {agg : Agg} (hagg : aggOf g importNodes = some agg) :
    ∀ name ∈ impliedNames g, agg.canonical name = canon g name := by
  obtain ⟨P, inv, hP⟩ := aggOf_inv hagg
  have hnames := aggregated_names wf hcomplete hP
  intro name hn
  obtain ⟨p, hp, rfl⟩ := List.mem_map.mp ((hnames name).mpr hn)
  rw [canonical_eq]
  obtain ⟨hckey, hcrel⟩ := inv.canonical_facts hp
  unfold canon
  cases ht : trackOf p.1 with
  | none =>
    simp only
    rcases hcrel with h1 | ⟨κ, vk, vv, h1, _⟩
    · exact h1
    · rw [altKey_none_of_track ht] at h1; cases h1
  | some t =>
    simp only
    -- the canonical name is an implied name of the same track
    have hct : trackOf (canonicalOf agg.redirects p.1) = some t := by
      rcases hcrel with h1 | ⟨κ, vk, vv, h1, h2, _⟩
      · rw [h1]; exact ht
      · obtain ⟨t', h3, h4⟩ := (sameTrack_iff _ _).mp ⟨κ, vk, vv, h1, h2⟩
        rw [ht] at h3; injection h3 with h3; subst h3; exact h4
    obtain ⟨ec, hec, hec1⟩ := List.mem_map.mp hckey
    have hcimp : canonicalOf agg.redirects p.1 ∈ impliedNames g :=
      (hnames _).mp (hec1 ▸ inv.keysP ec hec)
    have hcL : (canonicalOf agg.redirects p.1, ()) ∈ onTrack ((impliedNames g).map fun n => (n, ())) t := by
      simp only [onTrack, List.mem_filter, List.mem_map]
      exact ⟨⟨_, hcimp, rfl⟩, by simp [hct]⟩
    have hall : ∀ e ∈ onTrack ((impliedNames g).map fun n => (n, ())) t, ∃ v, versionOf e.1 = some v := by
      intro e he
      simp only [onTrack, List.mem_filter, beq_iff_eq] at he
      exact versionOf_of_track he.2
    have hs := highest_spec _ hall
    cases hh : highest (onTrack ((impliedNames g).map fun n => (n, ())) t) with
    | none =>
      rw [hh] at hs
      rw [hs] at hcL; cases hcL
    | some hi =>
      rw [hh] at hs
      obtain ⟨hmem, hmax⟩ := hs
      obtain ⟨hname, hu⟩ := hi
      simp only
      simp only [onTrack, List.mem_filter, List.mem_map, beq_iff_eq] at hmem
      obtain ⟨⟨x, hx, hxe⟩, hht⟩ := hmem
      injection hxe with hxe _
      subst hxe
      -- the highest name is aggregated; it resolves to the same import
      obtain ⟨q, hq, hq1⟩ := List.mem_map.mp ((hnames x).mpr hx)
      obtain ⟨hqkey, hqrel⟩ := inv.canonical_facts hq
      rw [hq1] at hqkey hqrel
      have hqt : trackOf (canonicalOf agg.redirects x) = some t := by
        rcases hqrel with h1 | ⟨κ, vk, vv, h1, h2, _⟩
        · rw [h1]; exact hht
        · obtain ⟨t', h3, h4⟩ := (sameTrack_iff _ _).mp ⟨κ, vk, vv, h1, h2⟩
          rw [hht] at h3; injection h3 with h3; subst h3; exact h4
      obtain ⟨eq, heq, heq1⟩ := List.mem_map.mp hqkey
      have hsame : canonicalOf agg.redirects x = canonicalOf agg.redirects p.1 := by
        have := inv.one eq heq ec hec (by
          rw [heq1, hec1]; exact (sameTrack_iff _ _).mpr ⟨t, hqt, hct⟩)
        rw [heq1, hec1] at this
        exact this
      rcases hqrel with h1 | ⟨κ, vk, vv, h1, h2, h3⟩
      · rw [← hsame, h1]
      · -- `x` is redirected to the canonical name, which is not lower; `x` is the highest: a tie
        rw [hsame] at h2
        obtain ⟨_, _, _, hvx⟩ := track_of_altKey h1
        obtain ⟨_, _, _, hvc⟩ := track_of_altKey h2
        have h4 := hmax _ hcL vk vv hvx hvc
        have h4' : vk.lt vv = false := by simpa using h4
        have hkey : vk.key = vv.key := le_antisymm ((vlt_false_iff _ _).mp h3) ((vlt_false_iff _ _).mp h4')
        have := tieFree_always [(x, ()), (canonicalOf agg.redirects p.1, ())] (x, ()) (by simp)
          (canonicalOf agg.redirects p.1, ()) (by simp) t hht hct vk vv hvx hvc hkey
        exact this.symm

/-! ### the kind conjuncts -/

theorem implicitKind_holds {g : GraphVal} {importNodes : List Nat} {agg : Agg} (hagg : aggOf g importNodes = some agg) :
    ∀ n ∈ g.nodes, ∀ slot sat p, n.kind = .instantiation slot sat → g.pkg? slot = some p →
      ∀ r ∈ unsatisfied p sat, aggKind agg r.name = some r.ty.kind := by
  obtain ⟨P, inv, hP⟩ := aggOf_inv hagg
  intro n hn slot sat p hk hp r hr
  have hmem : (r.name, r.ty.kind) ∈ P := by
    refine (hP _).mpr (Or.inl ?_)
    simp only [List.mem_flatMap]
    exact ⟨n, hn, by simp only [reqPairs, hk, hp, List.mem_map]; exact ⟨r, hr, rfl⟩⟩
  obtain ⟨ty, hget, hkd⟩ := inv.proc _ hmem
  simp only [aggKind, canonical_eq, hget, Option.map_some]
  exact congrArg some hkd

theorem explicitKind_holds {g : GraphVal} (wf : WF g) {importNodes : List Nat}
    (hcomplete : ∀ nd ∈ g.nodes, nd.isImport = true → nd.id ∈ importNodes)
    {agg : Agg} (hagg : aggOf g importNodes = some agg) :
    ∀ n ∈ g.nodes, ∀ nm, n.kind = .import nm → aggKind agg nm = some n.ty.kind := by
  obtain ⟨P, inv, hP⟩ := aggOf_inv hagg
  intro n hn nm hk
  have hmem : (nm, n.ty.kind) ∈ P := by
    refine (hP _).mpr (Or.inr ?_)
    exact ⟨n.id, hcomplete n hn (by simp [Node.isImport, hk]), n, node?_of_mem wf.idsNodup hn, hk, rfl⟩
  obtain ⟨ty, hget, hkd⟩ := inv.proc _ hmem
  simp only [aggKind, canonical_eq, hget, Option.map_some]
  exact congrArg some hkd

end Wac
