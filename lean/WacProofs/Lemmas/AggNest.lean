import WacProofs.Lemmas.AggMergeTotal
import WacProofs.Lemmas.AggMeet
/-
  C09 general theorems, part 16: foundations for NESTED instance exports.  The aggregator mutates
  the interface of an import in place and merges nested instances on fresh copies; everything
  else is frozen.  `IWF T S`: every interface of the aggregator's collection exports leaf kinds or
  instances (or `type` exports of interface type: `wrapK`) of interfaces outside the set `S` of
  mutable interface ids.  `unfold_frame`: the tree
  of a kind that does not refer to `S` survives any change that leaves the interfaces outside `S`
  alone.  Forest lemmas that connect the loop of `merge_interface` with `meetShared`.
-/
namespace Wac.AggP
open Wac Wac.Spec

/-- the two kinds whose exports `merge_interface` merges recursively: an instance (`false`) and a
`type` export of interface type (`true`) -/
def wrapK : Bool → Nat → ItemKind
  | false, t => .instance t
  | true, t => .type (.interface t)

/-- the tree of `wrapK b t` is `wrapT b` of the instance tree -/
def wrapT : Bool → Tree → Tree
  | false, t => t
  | true, t => .type t

theorem unfoldKind_wrapK (T : Types) (n : Nat) (b : Bool) (t : Nat) :
    T.unfoldKind (n + 1) (wrapK b t) =
      match T.interfaces[t]? with
      | none => none
      | some itf => (unfoldItems (T.unfoldKind n) itf.exports).map (fun F => wrapT b (.instance F)) := by
  cases b <;> simp only [wrapK, wrapT, Types.unfoldKind] <;> rfl

theorem wrapK_inj {b b' : Bool} {t t' : Nat} (h : wrapK b t = wrapK b' t') : b = b' ∧ t = t' := by
  cases b <;> cases b' <;> simp [wrapK] at h <;> exact ⟨rfl, h⟩

theorem wrapK_not_leaf (b : Bool) (t : Nat) : ¬ LeafK (wrapK b t) := by
  cases b <;> simp [wrapK, LeafK]

theorem cov_wrapT (b : Bool) (t : Tree) : cov (wrapT b t) = cov t := by
  cases b <;> simp [wrapT, cov]

theorem nd_wrapT (b : Bool) (t : Tree) : (wrapT b t).namesDistinct = t.namesDistinct := by
  cases b <;> simp [wrapT, Tree.namesDistinct]

theorem meet_wrapT (b : Bool) (F G : Forest) :
    meet (wrapT b (.instance F)) (wrapT b (.instance G)) = (meet (.instance F) (.instance G)).map (wrapT b) := by
  cases b
  · show meet (Tree.instance F) (Tree.instance G) = Option.map (fun t => t) (meet (Tree.instance F) (Tree.instance G))
    simp
  · simp only [wrapT, meet]; rfl

/-- a kind that can be unfolded without looking at a mutable interface -/
def FrozenK (T : Types) (S : Nat → Prop) (k : ItemKind) : Prop :=
  LeafK k ∨ ∃ b t, k = wrapK b t ∧ ¬ S t ∧ t < T.interfaces.length

/-- every interface exports leaf kinds or instances of frozen interfaces -/
def IWF (T : Types) (S : Nat → Prop) : Prop :=
  ∀ (j : Nat) (itf : Interface), T.interfaces[j]? = some itf → ∀ x : Str × ItemKind, x ∈ itf.exports → FrozenK T S x.2

/-- what may change: the value-level arenas grow, interfaces are appended, interfaces in `S` change -/
structure Frame (S : Nat → Prop) (T T' : Types) : Prop where
  ext : Ext T T'
  len : T.interfaces.length ≤ T'.interfaces.length
  same : ∀ j, j < T.interfaces.length → ¬ S j → T'.interfaces[j]? = T.interfaces[j]?

theorem Frame.refl (S : Nat → Prop) (T : Types) : Frame S T T := ⟨Ext.refl _, Nat.le_refl _, fun _ _ _ => rfl⟩

theorem Frame.trans {S : Nat → Prop} {T T' T'' : Types} (h1 : Frame S T T') (h2 : Frame S T' T'') : Frame S T T'' :=
  ⟨h1.ext.trans h2.ext, Nat.le_trans h1.len h2.len, fun j hj hs =>
    (h2.same j (Nat.lt_of_lt_of_le hj h1.len) hs).trans (h1.same j hj hs)⟩

theorem FrozenK.frame {S : Nat → Prop} {T T' : Types} {k : ItemKind} (h : FrozenK T S k) (hf : Frame S T T') :
    FrozenK T' S k := by
  rcases h with h | ⟨b, t, rfl, hs, hl⟩
  · exact .inl h
  · exact .inr ⟨b, t, rfl, hs, Nat.lt_of_lt_of_le hl hf.len⟩

theorem unfoldItems_congr {u u' : ItemKind → Option Tree} : ∀ (E : List (Str × ItemKind)) (F : Forest),
    (∀ x, x ∈ E → ∀ t, u x.2 = some t → u' x.2 = some t) → unfoldItems u E = some F → unfoldItems u' E = some F
  | [], F, _, h => by simpa [unfoldItems] using h
  | (n, k) :: E, F, hc, h => by
    obtain ⟨t, fr, h1, h2, rfl⟩ := unfoldItems_cons n k E F h
    simp only [unfoldItems, hc (n, k) List.mem_cons_self t h1,
      unfoldItems_congr E fr (fun x hx => hc x (List.mem_cons_of_mem _ hx)) h2]

/-- **frame lemma**: trees of frozen kinds are unchanged -/
theorem unfold_frame {S : Nat → Prop} {T T' : Types} (hw : IWF T S) (hf : Frame S T T') :
    ∀ n k t, FrozenK T S k → T.unfoldKind n k = some t → T'.unfoldKind n k = some t
  | 0, k, t, _, h => by simp [Types.unfoldKind] at h
  | n + 1, k, t, hk, h => by
    rcases hk with hk | ⟨b, t0, rfl, hs, hl⟩
    · exact hf.ext.unfoldLeaf hk _ _ h
    · rw [unfoldKind_wrapK] at h ⊢
      cases hi : T.interfaces[t0]? with
      | none => simp [hi] at h
      | some itf =>
        simp only [hi] at h
        rw [hf.same t0 hl hs, hi]
        obtain ⟨F, hF, rfl⟩ := Option.map_eq_some_iff.1 h
        simp only [unfoldItems_congr itf.exports F (fun x hx t' ht' => unfold_frame hw hf n x.2 t' (hw t0 itf hi x hx) ht') hF,
          Option.map_some]

theorem unfoldItems_frame {S : Nat → Prop} {T T' : Types} (hw : IWF T S) (hf : Frame S T T') {n : Nat}
    {E : List (Str × ItemKind)} {F : Forest} (hE : ∀ x, x ∈ E → FrozenK T S x.2)
    (h : unfoldItems (T.unfoldKind n) E = some F) : unfoldItems (T'.unfoldKind n) E = some F :=
  unfoldItems_congr E F (fun x hx t ht => unfold_frame hw hf n x.2 t (hE x hx) ht) h

/-! ### trees of the aggregator's collection are in the covariant fragment -/

theorem cov_eqKind {t : Tree} (h : isEqKind t = true) : cov t = true := by
  cases t <;> simp [isEqKind] at h <;> simp [cov]

theorem cov_eqK {t : Tree} (h : isEqK t = true) : cov t = true := by
  cases t with
  | type a => simp only [cov]; exact cov_eqKind h
  | _ => first | exact cov_eqKind h | (simp [isEqK, isEqKind] at h)

theorem covF_unfoldItems {u : ItemKind → Option Tree} : ∀ (E : List (Str × ItemKind)) (F : Forest),
    (∀ x, x ∈ E → ∀ t, u x.2 = some t → cov t = true) → unfoldItems u E = some F → covF F = true
  | [], F, _, h => by simp [unfoldItems] at h; subst h; rfl
  | (n, k) :: E, F, hc, h => by
    obtain ⟨t, fr, h1, h2, rfl⟩ := unfoldItems_cons n k E F h
    simp only [covF, Bool.and_eq_true]
    exact ⟨hc (n, k) List.mem_cons_self t h1, covF_unfoldItems E fr (fun x hx => hc x (List.mem_cons_of_mem _ hx)) h2⟩

theorem cov_unfold {S : Nat → Prop} {T : Types} (hw : IWF T S) :
    ∀ n k t, (LeafK k ∨ ∃ b t0, k = wrapK b t0) → T.unfoldKind n k = some t → cov t = true
  | 0, k, t, _, h => by simp [Types.unfoldKind] at h
  | n + 1, k, t, hk, h => by
    rcases hk with hk | ⟨b, t0, rfl⟩
    · exact cov_eqK (eqKind_unfoldLeaf hk h)
    · rw [unfoldKind_wrapK] at h
      cases hi : T.interfaces[t0]? with
      | none => simp [hi] at h
      | some itf =>
        simp only [hi] at h
        obtain ⟨F, hF, rfl⟩ := Option.map_eq_some_iff.1 h
        rw [cov_wrapT]
        simp only [cov]
        refine covF_unfoldItems itf.exports F (fun x hx t' ht' => cov_unfold hw n x.2 t' ?_ ht') hF
        rcases hw t0 itf hi x hx with h1 | ⟨b1, t1, h1, _⟩
        · exact .inl h1
        · exact .inr ⟨b1, t1, h1⟩

/-! ### forests: replacing an entry, and `meetShared` step by step -/

/-- replace the first entry named `n` -/
def setF : Forest → Str → Tree → Forest
  | .nil, _, _ => .nil
  | .cons m u r, n, t => if m == n then .cons m t r else .cons m u (setF r n t)

theorem hasName_setF : ∀ (F : Forest) (n : Str) (t : Tree) (k : Str), (setF F n t).hasName k = F.hasName k
  | .nil, _, _, _ => rfl
  | .cons m u r, n, t, k => by
    simp only [setF]
    split
    · simp [Forest.hasName]
    · simp [Forest.hasName, hasName_setF r n t k]

theorem get_setF : ∀ (F : Forest) (n : Str) (t : Tree) (k : Str),
    (setF F n t).get k = if n == k then (F.get k).map (fun _ => t) else F.get k
  | .nil, n, t, k => by simp [setF, Forest.get]
  | .cons m u r, n, t, k => by
    simp only [setF]
    by_cases hm : (m == n) = true
    · have e : m = n := by simpa using hm
      subst e
      simp only [BEq.rfl, ↓reduceIte, Forest.get]
      by_cases hk : (m == k) = true <;> simp [hk]
    · have hm' : (m == n) = false := by simpa using hm
      simp only [hm', Bool.false_eq_true, ↓reduceIte, Forest.get, get_setF r n t k]
      by_cases hk : (m == k) = true
      · have e : m = k := by simpa using hk
        subst e
        have : (n == m) = false := by
          rw [Bool.eq_false_iff]; intro hc
          have : n = m := by simpa using hc
          subst this; simp at hm'
        simp [this]
      · have hk' : (m == k) = false := by simpa using hk
        simp [hk']

/-- a source entry whose name no target entry has does not influence `meetShared` -/
theorem meetShared_cons_absent : ∀ (F G : Forest) (n : Str) (t : Tree), F.hasName n = false →
    meetShared F (.cons n t G) = meetShared F G
  | .nil, _, _, _, _ => rfl
  | .cons m u r, G, n, t, h => by
    simp only [Forest.hasName, Bool.or_eq_false_iff] at h
    have hne : (n == m) = false := by
      rw [Bool.eq_false_iff]; intro hc
      have : n = m := by simpa using hc
      subst this; simp at h
    simp only [meetShared, Forest.get, hne, Bool.false_eq_true, ↓reduceIte, meetShared_cons_absent r G n t h.2]

/-- the first source entry, shared with the target: it is merged into the target entry -/
theorem meetShared_cons_present : ∀ (F G : Forest) (n : Str) (ts tf r : Tree), keysNd F = true →
    F.get n = some tf → meet tf ts = some r → G.hasName n = false →
    meetShared F (.cons n ts G) = meetShared (setF F n r) G
  | .nil, _, _, _, _, _, _, h, _, _ => by simp [Forest.get] at h
  | .cons m u rest, G, n, ts, tf, r, hk, hf, hm, hg => by
    simp only [keysNd, Bool.and_eq_true, Bool.not_eq_true'] at hk
    by_cases hmn : (m == n) = true
    · have e : m = n := by simpa using hmn
      subst e
      simp only [Forest.get, BEq.rfl, ↓reduceIte, Option.some.injEq] at hf
      subst hf
      simp only [meetShared, Forest.get, BEq.rfl, ↓reduceIte, hm, setF, (Forest.hasName_false_iff G m).1 hg,
        meetShared_cons_absent rest G m ts hk.1]
    · have hmn' : (m == n) = false := by simpa using hmn
      have hnm : (n == m) = false := by
        rw [Bool.eq_false_iff]; intro hc
        have : n = m := by simpa using hc
        subst this; simp at hmn'
      simp only [Forest.get, hmn', Bool.false_eq_true, ↓reduceIte] at hf
      simp only [meetShared, Forest.get, hnm, Bool.false_eq_true, ↓reduceIte, setF, hmn',
        meetShared_cons_present rest G n ts tf r hk.2 hf hm hg]

/-- appending to the target an entry the source does not have -/
theorem meetShared_snoc : ∀ (F G : Forest) (n : Str) (t : Tree), G.hasName n = false →
    meetShared (snoc F n t) G = (meetShared F G).map (snoc · n t)
  | .nil, G, n, t, hg => by
    simp only [snoc, meetShared, (Forest.hasName_false_iff G n).1 hg, Option.map_some]
  | .cons m u r, G, n, t, hg => by
    simp only [snoc, meetShared, meetShared_snoc r G n t hg]
    cases hgm : G.get m with
    | none => cases meetShared r G <;> simp [snoc]
    | some u1 =>
      simp only
      generalize meet u u1 = a
      cases a <;> cases meetShared r G <;> simp [snoc]

end Wac.AggP
