import WacProofs.Lemmas.TreeSpansTypes
/-
  C14 (tree spans), layer 4b: expressions, statements and the document.
  `.id` access spans need the source order of tokens (`TInv.sorted`); the span of an expression
  (start of the primary expression to the end of the last postfix) is `Span.cover`.
-/
namespace Wac.Lemmas.TreeSpans
open Wac Wac.Ast Wac.Lex Wac.Parse Wac.Lemmas Wac.Lemmas.LexSpans Wac.Lemmas.ParseSpans Wac.Spec.TreeSpans

theorem t_parseInstantiationArgumentName {src st} (hi : TInv src st) :
    GoodT src (parseInstantiationArgumentName st) := by
  unfold parseInstantiationArgumentName
  tree_tac
macro_rules | `(tactic| tree_lemma) => `(tactic| exact t_parseInstantiationArgumentName (by tinv_tac))

/-- the identifier returned by `Ident::parse` carries the span of the token it consumed -/
theorem parseIdent_span {st st' : PState} {id : Ident} (h : parseIdent st = .ok (id, st')) :
    ∃ t, parseToken st .Ident = .ok (t, st') ∧ id.span = t.span := by
  unfold parseIdent at h
  cases h1 : parseToken st .Ident with
  | error e => simp [h1, bind, Except.bind] at h
  | ok p =>
    obtain ⟨t, st1⟩ := p
    simp only [h1, bind, Except.bind] at h
    split at h
    all_goals
      simp only [Except.ok.injEq, Prod.mk.injEq] at h
      obtain ⟨h2, h3⟩ := h
      subst h2 h3
      exact ⟨t, rfl, rfl⟩

theorem t_parseAccessExpr {src st} (hi : TInv src st) : GoodT src (parseAccessExpr st) := by
  apply goodTP_intro
  intro a st' h
  unfold parseAccessExpr at h
  cases h1 : parseToken st .Dot with
  | error e => simp [h1, bind, Except.bind] at h
  | ok p1 =>
    obtain ⟨start, st1⟩ := p1
    simp only [h1, bind, Except.bind] at h
    cases h2 : parseIdent st1 with
    | error e => simp [h2] at h
    | ok p2 =>
      obtain ⟨id, st2⟩ := p2
      simp only [h2, Except.ok.injEq, Prod.mk.injEq] at h
      obtain ⟨ha, hst⟩ := h
      subst ha hst
      obtain ⟨hi1, hs1, _⟩ := parseToken_ok hi h1
      obtain ⟨hi2, hid⟩ := goodTP_elim (t_parseIdent hi1) h2
      have hid' : id.spansIn src = true := hid
      refine ⟨hi2, ?_⟩
      obtain ⟨_, t0, e0, sp0, _, _⟩ := parseToken_spec h1
      obtain ⟨t, ht, spt⟩ := parseIdent_span h2
      obtain ⟨_, t1, e1, sp1, _, _⟩ := parseToken_spec ht
      have hsorted := hi.sorted
      rw [e0, e1] at hsorted
      have hle : t0.span.offset ≤ t1.span.offset := (List.pairwise_cons.mp hsorted).1 t1 (by simp)
      simp only [SpanOK.ok, AccessExpr.spansIn_mk, Bool.and_eq_true]
      refine ⟨spanIn_access (spanIn_of_slice hs1) (ident_span_in hid') ?_, hid'⟩
      rw [sp0, spt, sp1]; exact hle
macro_rules | `(tactic| tree_lemma) => `(tactic| exact t_parseAccessExpr (by tinv_tac))

theorem t_parseNamedAccessExpr {src st} (hi : TInv src st) : GoodT src (parseNamedAccessExpr st) := by
  unfold parseNamedAccessExpr
  tree_tac
macro_rules | `(tactic| tree_lemma) => `(tactic| exact t_parseNamedAccessExpr (by tinv_tac))

theorem t_parsePostfix {src} : ∀ (fuel : Nat) (st : PState), TInv src st → GoodT src (parsePostfix fuel st) := by
  intro fuel
  induction fuel with
  | zero => intro st hi; exact goodT_err
  | succ fuel ih =>
    intro st hi
    unfold parsePostfix
    tree_tac [ih]
macro_rules | `(tactic| tree_lemma) => `(tactic| exact t_parsePostfix _ _ (by tinv_tac))

theorem primary_span_in {src : Str} {p : PrimaryExpr} (h : p.spansIn src = true) : spanIn src p.span = true := by
  cases p with
  | New e => cases e; simp_all [PrimaryExpr.spansIn, NewExpr.spansIn, PrimaryExpr.span, NewExpr.span]
  | Nested e => cases e; simp_all [PrimaryExpr.spansIn, NestedExpr.spansIn, PrimaryExpr.span, NestedExpr.span]
  | Ident id => simp only [PrimaryExpr.spansIn] at h; exact ident_span_in h

theorem postfix_span_in {src : Str} {p : PostfixExpr} (h : p.spansIn src = true) : spanIn src p.span = true := by
  cases p with
  | Access a => simp_all [PostfixExpr.spansIn, AccessExpr.spansIn, PostfixExpr.span]
  | NamedAccess a => simp_all [PostfixExpr.spansIn, NamedAccessExpr.spansIn, PostfixExpr.span]

theorem t_exprs {src} : ∀ (fuel : Nat),
    (∀ st, TInv src st → GoodT src (parseExpr fuel st)) ∧
    (∀ st, TInv src st → GoodT src (parsePrimaryExpr fuel st)) ∧
    (∀ st, TInv src st → GoodT src (parseInstantiationArgument fuel st)) := by
  intro fuel
  induction fuel with
  | zero =>
    refine ⟨?_, ?_, ?_⟩ <;> intro st hi
    · unfold parseExpr; exact goodT_err
    · unfold parsePrimaryExpr; exact goodT_err
    · unfold parseInstantiationArgument; exact goodT_err
  | succ fuel ih =>
    obtain ⟨ih1, ih2, ih3⟩ := ih
    refine ⟨?_, ?_, ?_⟩ <;> intro st hi
    · unfold parseExpr
      apply goodT_bind (ih2 st hi)
      rintro ⟨primary, st1⟩ h1 hp
      dsimp only at h1 hp ⊢
      apply goodT_bind (t_parsePostfix _ _ h1)
      rintro ⟨post, st2⟩ h2 hpost
      dsimp only at h2 hpost ⊢
      refine goodT_ok h2 ?_
      have hp' : primary.spansIn src = true := hp
      have hpost' : post.all (PostfixExpr.spansIn src) = true := hpost
      have hps := primary_span_in hp'
      simp only [SpanOK.ok, Expr.spansIn, Bool.and_eq_true]
      refine ⟨⟨?_, hp'⟩, hpost'⟩
      split
      · rename_i p hl
        have hm : p ∈ post := List.mem_of_getLast? hl
        exact spanIn_cover hps (postfix_span_in (List.all_eq_true.mp hpost' p hm))
      · exact hps
    · unfold parsePrimaryExpr; tree_tac [ih1, ih2, ih3]
    · unfold parseInstantiationArgument; tree_tac [ih1, ih2, ih3]

theorem t_parseExpr {src fuel st} (hi : TInv src st) : GoodT src (parseExpr fuel st) := (t_exprs fuel).1 st hi
macro_rules | `(tactic| tree_lemma) => `(tactic| exact t_parseExpr (by tinv_tac))

theorem t_parsePrimaryExpr {src fuel st} (hi : TInv src st) : GoodT src (parsePrimaryExpr fuel st) :=
  (t_exprs fuel).2.1 st hi

theorem t_parseInstantiationArgument {src fuel st} (hi : TInv src st) :
    GoodT src (parseInstantiationArgument fuel st) := (t_exprs fuel).2.2 st hi

theorem t_parseLetStatement {src fuel st} (hi : TInv src st) : GoodT src (parseLetStatement fuel st) := by
  unfold parseLetStatement
  tree_tac
macro_rules | `(tactic| tree_lemma) => `(tactic| exact t_parseLetStatement (by tinv_tac))

theorem t_parseExportOptions {src st} (hi : TInv src st) : GoodT src (parseExportOptions st) := by
  unfold parseExportOptions
  tree_tac
macro_rules | `(tactic| tree_lemma) => `(tactic| exact t_parseExportOptions (by tinv_tac))

theorem t_parseExportStatement {src fuel st} (hi : TInv src st) : GoodT src (parseExportStatement fuel st) := by
  unfold parseExportStatement
  tree_tac
macro_rules | `(tactic| tree_lemma) => `(tactic| exact t_parseExportStatement (by tinv_tac))

theorem t_parseStatement {src fuel st} (hi : TInv src st) : GoodT src (parseStatement fuel st) := by
  unfold parseStatement
  tree_tac
macro_rules | `(tactic| tree_lemma) => `(tactic| exact t_parseStatement (by tinv_tac))

theorem t_parsePackageDirective {src st} (hi : TInv src st) : GoodT src (parsePackageDirective st) := by
  unfold parsePackageDirective
  tree_tac
macro_rules | `(tactic| tree_lemma) => `(tactic| exact t_parsePackageDirective (by tinv_tac))

theorem t_parseStatements {src} (fuel : Nat) : ∀ (n : Nat) (st : PState), TInv src st →
    GoodT src (parseStatements fuel n st) := by
  intro n
  induction n with
  | zero => intro st hi; exact goodT_err
  | succ n ih =>
    intro st hi
    unfold parseStatements
    tree_tac [ih]

/-- every span of a document returned by `parseTokens` is in the source -/
theorem parseTokens_tree {src : Str} {d : Document} (h : parseTokens (PState.init src) = .ok d) :
    d.spansIn src = true := by
  have hi := init_tinv src
  unfold parseTokens at h
  cases hd : parsePackageDirective (PState.init src) with
  | error e => simp [hd, bind, Except.bind] at h
  | ok p =>
    obtain ⟨dir, st1⟩ := p
    obtain ⟨hi1, hdir⟩ := goodTP_elim (t_parsePackageDirective hi) hd
    simp only [hd, bind, Except.bind] at h
    cases hs : parseStatements (fuelFor (PState.init src).toks.length) (st1.toks.length + 1) st1 with
    | error e => simp [hs] at h
    | ok q =>
      obtain ⟨stmts, st2⟩ := q
      obtain ⟨_, hst⟩ := goodTP_elim (t_parseStatements _ _ _ hi1) hs
      simp only [hs, Except.ok.injEq] at h
      subst h
      have hdir' : dir.spansIn src = true := hdir
      have hst' : stmts.all (Statement.spansIn src) = true := hst
      simp only [Document.spansIn, Bool.and_eq_true]
      exact ⟨⟨parseDocs_ok hi, hdir'⟩, hst'⟩

end Wac.Lemmas.TreeSpans
