import WacProofs.Lemmas.AggMerge
/-
  C09 general theorems, part 7: the two type-level actions of `aggregate` on a flat instance
  requirement: `remap_item_kind` of a new requirement (a fresh flat interface is appended that
  unfolds to the requirement's forest) and `merge_item_kind` into an existing import
  (= `merge_interface`).
-/
namespace Wac.AggP
open Wac Wac.Spec

theorem PostK.mono {types : Types} {u : Nat} {s s' : AggState} {k k' : ItemKind} (h : Step u s s')
    (hp : PostK types s k k') : PostK types s' k k' := by
  refine ⟨hp.1, fun t ht => ?_⟩
  have h1 := h.ext.unfoldLeaf hp.1 _ _ (hp.2 t ht)
  obtain ⟨l, hl⟩ := h.ext.defined
  exact unfoldKind_mono _ (by rw [hl]; simp) _ _ h1

/-- copies of a list of leaf kinds unfold to the same forest -/
theorem unfoldItems_of_all2 {types T : Types} {N M : Nat} :
    ∀ {E E' : List (Str × ItemKind)},
      All2 (fun (a b : Str × ItemKind) => b.1 = a.1 ∧ LeafK b.2 ∧
        ∀ t, HasTree types a.2 t → T.unfoldKind M b.2 = some t) E E' →
      ∀ G, unfoldItems (types.unfoldKind N) E = some G →
        unfoldItems (T.unfoldKind M) E' = some G ∧ ∀ x, x ∈ E' → LeafK x.2
  | _, _, .nil, G, hG => by
    simp only [unfoldItems, Option.some.injEq] at hG
    subst hG
    exact ⟨rfl, fun x hx => by cases hx⟩
  | _, _, .cons (a := a) (b := b) (l := l) (l' := l') hq hr, G, hG => by
    obtain ⟨na, ka⟩ := a
    obtain ⟨nb, kb⟩ := b
    obtain ⟨hn, hl, hu⟩ := hq
    simp only at hn hl hu
    subst hn
    obtain ⟨t, G', h1, h2, rfl⟩ := unfoldItems_cons nb ka l G hG
    obtain ⟨ih1, ih2⟩ := unfoldItems_of_all2 hr G' h2
    refine ⟨by simp only [unfoldItems, hu t ⟨N, h1⟩, ih1], ?_⟩
    intro x hx
    rcases List.mem_cons.1 hx with rfl | hx
    · exact hl
    · exact ih2 x hx

/-- what copying a new flat instance requirement does to the aggregator -/
structure FreshStep (W : Colls) (u : Nat) (G : Forest) (s s' : AggState) : Prop where
  rinv : RInv W s'
  ext : Ext s.agg.types s'.agg.types
  itf : ∃ E', s'.agg.types.interfaces = s.agg.types.interfaces ++ [{ id := none, uses := [], exports := E' }] ∧
    FlatItf s'.agg.types { id := none, uses := [], exports := E' } G
  worlds : s'.agg.types.worlds = s.agg.types.worlds
  modules : s'.agg.types.modules = s.agg.types.modules
  chk : s'.chk = s.chk
  cfg : s'.cfg = s.cfg
  imports : s'.agg.imports = s.agg.imports
  imap : s'.agg.interfaces = s.agg.interfaces
  redirects : s'.agg.redirects = s.agg.redirects
  keys : ∀ g, g.ty.hasId = true → (alGet s'.agg.remapped g).isSome = true →
    (alGet s.agg.remapped g).isSome = true ∨ g.uid = u

section fresh
variable {W : Colls} {types : Types} (hW : W.mem types) (hs : Sane types)
include hW hs

/-- **`remap_item_kind` of a flat instance type that has not been copied before** -/
theorem remapKind_flat_spec (fuel id : Nat) (s s' : AggState) (si : Interface) (k' : ItemKind) (G : Forest) (N : Nat)
    (hI : RInv W s) (hsi : types.interfaces[id]? = some si) (huses : si.uses = []) (hid : si.id = none)
    (hleaf : ∀ x, x ∈ si.exports → LeafK x.2) (hG : unfoldItems (types.unfoldKind N) si.exports = some G)
    (hmiss : alGet s.agg.remapped (GTy.mk' types (.interface id)) = none)
    (h : remapKind fuel types (.instance id) s = .ok (k', s')) :
    k' = .instance s.agg.types.interfaces.length ∧ FreshStep W types.uid G s s' := by
  obtain _ | _ | _ | fuel := fuel
  · simp [remapKind, run_apanic] at h
  ·
    simp only [remapKind, bind_ok, run_pure, Except.ok.injEq, Prod.mk.injEq] at h
    obtain ⟨_, _, h, _⟩ := h
    simp [remapInterface, run_apanic] at h
  · simp only [remapKind, bind_ok, run_pure, Except.ok.injEq, Prod.mk.injEq] at h
    obtain ⟨_, _, h, _⟩ := h
    rw [remapInterface] at h
    simp only [hsi, bind_ok, run_pure, run_getAgg, Except.ok.injEq, Prod.mk.injEq] at h
    obtain ⟨_, _, ⟨rfl, rfl⟩, _, _, ⟨rfl, rfl⟩, h⟩ := h
    simp only [hid, run_remappedGet, bind_ok, Except.ok.injEq, Prod.mk.injEq] at h
    obtain ⟨_, _, ⟨rfl, rfl⟩, h⟩ := h
    rw [hmiss] at h
    simp only [remapUses, bind_ok, run_apanic, reduceCtorEq, false_and, exists_false] at h
  · simp only [remapKind, bind_ok, run_pure, Except.ok.injEq, Prod.mk.injEq] at h
    obtain ⟨e', s1, h, rfl, rfl⟩ := h
    rw [remapInterface] at h
    simp only [hsi, bind_ok, run_pure, run_getAgg, Except.ok.injEq, Prod.mk.injEq] at h
    obtain ⟨_, _, ⟨rfl, rfl⟩, _, _, ⟨rfl, rfl⟩, h⟩ := h
    simp only [hid, run_remappedGet, bind_ok, Except.ok.injEq, Prod.mk.injEq] at h
    obtain ⟨_, _, ⟨rfl, rfl⟩, h⟩ := h
    rw [hmiss] at h
    simp only [huses, remapUses, mapMList, bind_ok, run_pure, run_getAgg, run_modifyTypes, run_remappedInsertNew,
      Except.ok.injEq, Prod.mk.injEq] at h
    obtain ⟨_, _, ⟨rfl, rfl⟩, E', s2, hmap, _, _, ⟨rfl, rfl⟩, _, s3, ⟨_, rfl⟩, _, s4, hins, rfl, rfl⟩ := h
    split at hins
    · cases hins
    · simp only [Except.ok.injEq, Prod.mk.injEq, true_and] at hins
      subst hins
      -- the exports are copied one by one
      obtain ⟨hI2, hst2, hall⟩ := mapMList_inv (I := RInv W) (R := Step types.uid)
        (Q := fun s (a b : Str × ItemKind) => b.1 = a.1 ∧ PostK types s a.2 b.2) (Step.refl _)
        (fun _ _ _ => Step.trans)
        (by intro s s' a b hst ⟨h1, h2⟩; exact ⟨h1, h2.mono hst⟩)
        si.exports
        (by
          intro a ha s b s' hI h
          simp only [bind_ok, run_pure, Except.ok.injEq, Prod.mk.injEq] at h
          obtain ⟨kb, s1, h1, rfl, rfl⟩ := h
          have := remapKind_leaf_spec hW hs (fuel + 1) a.2 (hleaf a ha) s kb s1 hI h1
          exact ⟨this.1, this.2.1, rfl, this.2.2⟩)
        s E' s2 hI hmap
      -- the final state
      have hext3 : Ext s2.agg.types { s2.agg.types with interfaces := s2.agg.types.interfaces ++ [{ id := none, uses := [], exports := E' }] } :=
        ext_of_eq rfl rfl rfl rfl
      have hall' : All2 (fun (a b : Str × ItemKind) => b.1 = a.1 ∧ LeafK b.2 ∧
          ∀ t, HasTree types a.2 t → s2.agg.types.unfoldKind (s2.agg.types.defined.length + 2) b.2 = some t)
          si.exports E' := hall.mono (fun a b ⟨h1, h2, h3⟩ => ⟨h1, h2, h3⟩)
      obtain ⟨hun, hlf⟩ := unfoldItems_of_all2 hall' G hG
      refine ⟨by rw [hst2.ifaces], ?_⟩
      refine ⟨⟨?_, ?_, hI2.shape.insert _ _ (fun d hd => by simp [GTy.mk'] at hd) (fun f hf => by simp [GTy.mk'] at hf)⟩, hst2.ext.trans hext3, ⟨E', ?_, ⟨hlf, ⟨s2.agg.types.defined.length + 2, ?_⟩⟩⟩, hst2.worlds, hst2.modules, hst2.chk, hst2.cfg,
        hst2.imports, hst2.imap, hst2.redirects, ?_⟩
      · -- RemapSound: the new key is an interface key
        intro C hC
        obtain ⟨k1, k2⟩ := hI2.sound.ext hext3 C hC
        refine ⟨fun d v' hg t ht => ?_, fun f f' hg t ht => ?_⟩
        · simp only [alGet_alInsert] at hg
          split at hg
          · rename_i he
            have := eq_of_beq he
            simp only [GTy.mk', GTy.mk.injEq] at this
            cases this.2
          · exact k1 d v' hg t ht
        · simp only [alGet_alInsert] at hg
          split at hg
          · rename_i he
            have := eq_of_beq he
            simp only [GTy.mk', GTy.mk.injEq] at this
            cases this.2
          · exact k2 f f' hg t ht
      · exact hI2.closed.same_defined hext3 rfl
      · simp only [hst2.ifaces, hid]
      · exact hext3.unfoldItems_leaf _ _ _ hlf hun
      · intro g hgid hg
        simp only [alGet_alInsert] at hg
        split at hg
        · rename_i he
          right
          rw [← eq_of_beq he]
          exact gty_uid_of_hasId _ _ rfl
        · exact hst2.keys g hg

end fresh

/-- `merge_item_kind` on two instance kinds is `merge_interface` -/
theorem mergeKind_instance (e : Nat) (types : Types) (i : Nat) (s : AggState) :
    mergeKind (.instance e) types (.instance i) s = mergeInterface (aggFuel s.agg types) e types i s := by
  simp only [mergeKind, run_bind, run_getAgg]

end Wac.AggP
