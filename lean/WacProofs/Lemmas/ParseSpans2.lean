import WacProofs.Lemmas.ParseSpans
namespace Wac.Lemmas.ParseSpans
open Wac Wac.Lex Wac.Parse Wac.Ast Wac.Lemmas Wac.Lemmas.LexSpans

theorem good_parseIdent {src st} (hi : Inv src st) : Good src (parseIdent st) := by
  unfold parseIdent
  good_tac
macro_rules | `(tactic| good_lemma) => `(tactic| exact good_parseIdent (by inv_tac))

theorem good_parseString {src st} (hi : Inv src st) : Good src (parseString st) := by
  unfold parseString
  good_tac
macro_rules | `(tactic| good_lemma) => `(tactic| exact good_parseString (by inv_tac))

theorem good_parsePackageName {src st} (hi : Inv src st) : Good src (parsePackageName st) := by
  unfold parsePackageName
  apply good_bind (good_parseToken hi _)
  intro p heq hp
  obtain ⟨t, st1⟩ := p
  dsimp only at hp ⊢
  have hs := parseToken_slice hi heq
  apply good_bind_pure
  · intro e he; exact parseVersionAt_err hs he (fun i h => findIdx_lt h)
  · intro v _; exact good_ok hp
macro_rules | `(tactic| good_lemma) => `(tactic| exact good_parsePackageName (by inv_tac))

theorem good_parsePackagePath {src st} (hi : Inv src st) : Good src (parsePackagePath st) := by
  unfold parsePackagePath
  apply good_bind (good_parseToken hi _)
  intro p heq hp
  obtain ⟨t, st1⟩ := p
  dsimp only at hp ⊢
  have hs := parseToken_slice hi heq
  split
  · exact good_err (by simp [GoodErr])
  · apply good_bind_pure
    · intro e he; exact parseVersionAt_err hs he (fun i h => findIdx_lt h)
    · intro v _; exact good_ok hp
macro_rules | `(tactic| good_lemma) => `(tactic| exact good_parsePackagePath (by inv_tac))

theorem good_parseType {src} : ∀ (fuel : Nat) (st : PState), Inv src st → Good src (parseType fuel st) := by
  intro fuel
  induction fuel with
  | zero => intro st hi; exact good_err (by simp [GoodErr])
  | succ fuel ih =>
    intro st hi
    unfold parseType
    good_tac [ih]
macro_rules | `(tactic| good_lemma) => `(tactic| exact good_parseType _ _ (by inv_tac))

theorem good_parseNamedType {src fuel st} (hi : Inv src st) : Good src (parseNamedType fuel st) := by
  unfold parseNamedType
  good_tac
macro_rules | `(tactic| good_lemma) => `(tactic| exact good_parseNamedType (by inv_tac))

theorem good_parseResultList {src fuel st} (hi : Inv src st) : Good src (parseResultList fuel st) := by
  unfold parseResultList
  good_tac
macro_rules | `(tactic| good_lemma) => `(tactic| exact good_parseResultList (by inv_tac))

theorem good_parseFuncType {src fuel st} (hi : Inv src st) : Good src (parseFuncType fuel st) := by
  unfold parseFuncType
  good_tac
macro_rules | `(tactic| good_lemma) => `(tactic| exact good_parseFuncType (by inv_tac))

theorem good_parseFuncTypeRef {src fuel st} (hi : Inv src st) : Good src (parseFuncTypeRef fuel st) := by
  unfold parseFuncTypeRef
  good_tac
macro_rules | `(tactic| good_lemma) => `(tactic| exact good_parseFuncTypeRef (by inv_tac))

theorem good_parseConstructor {src fuel st} (hi : Inv src st) : Good src (parseConstructor fuel st) := by
  unfold parseConstructor
  good_tac
macro_rules | `(tactic| good_lemma) => `(tactic| exact good_parseConstructor (by inv_tac))

theorem good_parseMethod {src fuel st} (hi : Inv src st) : Good src (parseMethod fuel st) := by
  unfold parseMethod
  good_tac
macro_rules | `(tactic| good_lemma) => `(tactic| exact good_parseMethod (by inv_tac))

theorem good_parseResourceMethod {src fuel st} (hi : Inv src st) : Good src (parseResourceMethod fuel st) := by
  unfold parseResourceMethod
  good_tac
macro_rules | `(tactic| good_lemma) => `(tactic| exact good_parseResourceMethod (by inv_tac))

theorem good_parseResourceDecl {src fuel st} (hi : Inv src st) : Good src (parseResourceDecl fuel st) := by
  unfold parseResourceDecl
  good_tac
macro_rules | `(tactic| good_lemma) => `(tactic| exact good_parseResourceDecl (by inv_tac))

theorem good_parseVariantCase {src fuel st} (hi : Inv src st) : Good src (parseVariantCase fuel st) := by
  unfold parseVariantCase
  good_tac
macro_rules | `(tactic| good_lemma) => `(tactic| exact good_parseVariantCase (by inv_tac))

theorem good_parseVariantDecl {src fuel st} (hi : Inv src st) : Good src (parseVariantDecl fuel st) := by
  unfold parseVariantDecl
  good_tac
macro_rules | `(tactic| good_lemma) => `(tactic| exact good_parseVariantDecl (by inv_tac))

theorem good_parseField {src fuel st} (hi : Inv src st) : Good src (parseField fuel st) := by
  unfold parseField
  good_tac
macro_rules | `(tactic| good_lemma) => `(tactic| exact good_parseField (by inv_tac))

theorem good_parseRecordDecl {src fuel st} (hi : Inv src st) : Good src (parseRecordDecl fuel st) := by
  unfold parseRecordDecl
  good_tac
macro_rules | `(tactic| good_lemma) => `(tactic| exact good_parseRecordDecl (by inv_tac))

theorem good_parseFlag {src st} (hi : Inv src st) : Good src (parseFlag st) := by
  unfold parseFlag
  good_tac
macro_rules | `(tactic| good_lemma) => `(tactic| exact good_parseFlag (by inv_tac))

theorem good_parseFlagsDecl {src fuel st} (hi : Inv src st) : Good src (parseFlagsDecl fuel st) := by
  unfold parseFlagsDecl
  good_tac
macro_rules | `(tactic| good_lemma) => `(tactic| exact good_parseFlagsDecl (by inv_tac))

theorem good_parseEnumCase {src st} (hi : Inv src st) : Good src (parseEnumCase st) := by
  unfold parseEnumCase
  good_tac
macro_rules | `(tactic| good_lemma) => `(tactic| exact good_parseEnumCase (by inv_tac))

theorem good_parseEnumDecl {src fuel st} (hi : Inv src st) : Good src (parseEnumDecl fuel st) := by
  unfold parseEnumDecl
  good_tac
macro_rules | `(tactic| good_lemma) => `(tactic| exact good_parseEnumDecl (by inv_tac))

theorem good_parseTypeAliasKind {src fuel st} (hi : Inv src st) : Good src (parseTypeAliasKind fuel st) := by
  unfold parseTypeAliasKind
  good_tac
macro_rules | `(tactic| good_lemma) => `(tactic| exact good_parseTypeAliasKind (by inv_tac))

theorem good_parseTypeAlias {src fuel st} (hi : Inv src st) : Good src (parseTypeAlias fuel st) := by
  unfold parseTypeAlias
  good_tac
macro_rules | `(tactic| good_lemma) => `(tactic| exact good_parseTypeAlias (by inv_tac))

theorem good_parseTypeDecl {src fuel st} (hi : Inv src st) : Good src (parseTypeDecl fuel st) := by
  unfold parseTypeDecl
  good_tac
macro_rules | `(tactic| good_lemma) => `(tactic| exact good_parseTypeDecl (by inv_tac))

theorem good_parseItemTypeDecl {src fuel st} (hi : Inv src st) : Good src (parseItemTypeDecl fuel st) := by
  unfold parseItemTypeDecl
  good_tac
macro_rules | `(tactic| good_lemma) => `(tactic| exact good_parseItemTypeDecl (by inv_tac))

theorem good_parseUsePath {src st} (hi : Inv src st) : Good src (parseUsePath st) := by
  unfold parseUsePath
  good_tac
macro_rules | `(tactic| good_lemma) => `(tactic| exact good_parseUsePath (by inv_tac))

theorem good_parseUseItem {src st} (hi : Inv src st) : Good src (parseUseItem st) := by
  unfold parseUseItem
  good_tac
macro_rules | `(tactic| good_lemma) => `(tactic| exact good_parseUseItem (by inv_tac))

theorem good_parseUse {src fuel st} (hi : Inv src st) : Good src (parseUse fuel st) := by
  unfold parseUse
  good_tac
macro_rules | `(tactic| good_lemma) => `(tactic| exact good_parseUse (by inv_tac))

theorem good_parseInterfaceExport {src fuel st} (hi : Inv src st) : Good src (parseInterfaceExport fuel st) := by
  unfold parseInterfaceExport
  good_tac
macro_rules | `(tactic| good_lemma) => `(tactic| exact good_parseInterfaceExport (by inv_tac))

theorem good_parseInterfaceItem {src fuel st} (hi : Inv src st) : Good src (parseInterfaceItem fuel st) := by
  unfold parseInterfaceItem
  good_tac
macro_rules | `(tactic| good_lemma) => `(tactic| exact good_parseInterfaceItem (by inv_tac))

theorem good_parseInterfaceDecl {src fuel st} (hi : Inv src st) : Good src (parseInterfaceDecl fuel st) := by
  unfold parseInterfaceDecl
  good_tac
macro_rules | `(tactic| good_lemma) => `(tactic| exact good_parseInterfaceDecl (by inv_tac))

theorem good_parseInlineInterface {src fuel st} (hi : Inv src st) : Good src (parseInlineInterface fuel st) := by
  unfold parseInlineInterface
  good_tac
macro_rules | `(tactic| good_lemma) => `(tactic| exact good_parseInlineInterface (by inv_tac))

theorem good_parseExternType {src fuel st} (hi : Inv src st) : Good src (parseExternType fuel st) := by
  unfold parseExternType
  good_tac
macro_rules | `(tactic| good_lemma) => `(tactic| exact good_parseExternType (by inv_tac))

theorem good_parseNamedWorldItem {src fuel st} (hi : Inv src st) : Good src (parseNamedWorldItem fuel st) := by
  unfold parseNamedWorldItem
  good_tac
macro_rules | `(tactic| good_lemma) => `(tactic| exact good_parseNamedWorldItem (by inv_tac))

theorem good_parseWorldItemPath {src fuel st} (hi : Inv src st) : Good src (parseWorldItemPath fuel st) := by
  unfold parseWorldItemPath
  good_tac
macro_rules | `(tactic| good_lemma) => `(tactic| exact good_parseWorldItemPath (by inv_tac))

theorem good_parseWorldImport {src fuel st} (hi : Inv src st) : Good src (parseWorldImport fuel st) := by
  unfold parseWorldImport
  good_tac
macro_rules | `(tactic| good_lemma) => `(tactic| exact good_parseWorldImport (by inv_tac))

theorem good_parseWorldExport {src fuel st} (hi : Inv src st) : Good src (parseWorldExport fuel st) := by
  unfold parseWorldExport
  good_tac
macro_rules | `(tactic| good_lemma) => `(tactic| exact good_parseWorldExport (by inv_tac))

theorem good_parseWorldRef {src st} (hi : Inv src st) : Good src (parseWorldRef st) := by
  unfold parseWorldRef
  good_tac
macro_rules | `(tactic| good_lemma) => `(tactic| exact good_parseWorldRef (by inv_tac))

theorem good_parseWorldIncludeItem {src st} (hi : Inv src st) : Good src (parseWorldIncludeItem st) := by
  unfold parseWorldIncludeItem
  good_tac
macro_rules | `(tactic| good_lemma) => `(tactic| exact good_parseWorldIncludeItem (by inv_tac))

theorem good_parseWorldInclude {src fuel st} (hi : Inv src st) : Good src (parseWorldInclude fuel st) := by
  unfold parseWorldInclude
  good_tac
macro_rules | `(tactic| good_lemma) => `(tactic| exact good_parseWorldInclude (by inv_tac))

theorem good_parseWorldItem {src fuel st} (hi : Inv src st) : Good src (parseWorldItem fuel st) := by
  unfold parseWorldItem
  good_tac
macro_rules | `(tactic| good_lemma) => `(tactic| exact good_parseWorldItem (by inv_tac))

theorem good_parseWorldDecl {src fuel st} (hi : Inv src st) : Good src (parseWorldDecl fuel st) := by
  unfold parseWorldDecl
  good_tac
macro_rules | `(tactic| good_lemma) => `(tactic| exact good_parseWorldDecl (by inv_tac))

theorem good_parseTypeStatement {src fuel st} (hi : Inv src st) : Good src (parseTypeStatement fuel st) := by
  unfold parseTypeStatement
  good_tac
macro_rules | `(tactic| good_lemma) => `(tactic| exact good_parseTypeStatement (by inv_tac))

theorem good_parseExternName {src st} (hi : Inv src st) : Good src (parseExternName st) := by
  unfold parseExternName
  good_tac
macro_rules | `(tactic| good_lemma) => `(tactic| exact good_parseExternName (by inv_tac))

theorem good_parseImportType {src fuel st} (hi : Inv src st) : Good src (parseImportType fuel st) := by
  unfold parseImportType
  good_tac
macro_rules | `(tactic| good_lemma) => `(tactic| exact good_parseImportType (by inv_tac))

theorem good_parseImportStatement {src fuel st} (hi : Inv src st) : Good src (parseImportStatement fuel st) := by
  unfold parseImportStatement
  good_tac
macro_rules | `(tactic| good_lemma) => `(tactic| exact good_parseImportStatement (by inv_tac))

theorem good_parseInstantiationArgumentName {src st} (hi : Inv src st) : Good src (parseInstantiationArgumentName st) := by
  unfold parseInstantiationArgumentName
  good_tac
macro_rules | `(tactic| good_lemma) => `(tactic| exact good_parseInstantiationArgumentName (by inv_tac))

theorem good_parseAccessExpr {src st} (hi : Inv src st) : Good src (parseAccessExpr st) := by
  unfold parseAccessExpr
  good_tac
macro_rules | `(tactic| good_lemma) => `(tactic| exact good_parseAccessExpr (by inv_tac))

theorem good_parseNamedAccessExpr {src st} (hi : Inv src st) : Good src (parseNamedAccessExpr st) := by
  unfold parseNamedAccessExpr
  good_tac
macro_rules | `(tactic| good_lemma) => `(tactic| exact good_parseNamedAccessExpr (by inv_tac))

theorem good_parsePostfix {src} : ∀ (fuel : Nat) (st : PState), Inv src st → Good src (parsePostfix fuel st) := by
  intro fuel
  induction fuel with
  | zero => intro st hi; exact good_err (by simp [GoodErr])
  | succ fuel ih =>
    intro st hi
    unfold parsePostfix
    good_tac [ih]
macro_rules | `(tactic| good_lemma) => `(tactic| exact good_parsePostfix _ _ (by inv_tac))

theorem good_exprs {src} : ∀ (fuel : Nat),
    (∀ st, Inv src st → Good src (parseExpr fuel st)) ∧
    (∀ st, Inv src st → Good src (parsePrimaryExpr fuel st)) ∧
    (∀ st, Inv src st → Good src (parseInstantiationArgument fuel st)) := by
  intro fuel
  induction fuel with
  | zero =>
    refine ⟨?_, ?_, ?_⟩ <;> intro st hi
    · unfold parseExpr; exact good_err (by simp [GoodErr])
    · unfold parsePrimaryExpr; exact good_err (by simp [GoodErr])
    · unfold parseInstantiationArgument; exact good_err (by simp [GoodErr])
  | succ fuel ih =>
    obtain ⟨ih1, ih2, ih3⟩ := ih
    refine ⟨?_, ?_, ?_⟩ <;> intro st hi
    · unfold parseExpr; good_tac [ih1, ih2, ih3]
    · unfold parsePrimaryExpr; good_tac [ih1, ih2, ih3]
    · unfold parseInstantiationArgument; good_tac [ih1, ih2, ih3]

theorem good_parseExpr {src fuel st} (hi : Inv src st) : Good src (parseExpr fuel st) := (good_exprs fuel).1 st hi
macro_rules | `(tactic| good_lemma) => `(tactic| exact good_parseExpr (by inv_tac))

theorem good_parseLetStatement {src fuel st} (hi : Inv src st) : Good src (parseLetStatement fuel st) := by
  unfold parseLetStatement
  good_tac
macro_rules | `(tactic| good_lemma) => `(tactic| exact good_parseLetStatement (by inv_tac))

theorem good_parseExportOptions {src st} (hi : Inv src st) : Good src (parseExportOptions st) := by
  unfold parseExportOptions
  good_tac
macro_rules | `(tactic| good_lemma) => `(tactic| exact good_parseExportOptions (by inv_tac))

theorem good_parseExportStatement {src fuel st} (hi : Inv src st) : Good src (parseExportStatement fuel st) := by
  unfold parseExportStatement
  good_tac
macro_rules | `(tactic| good_lemma) => `(tactic| exact good_parseExportStatement (by inv_tac))

theorem good_parseStatement {src fuel st} (hi : Inv src st) : Good src (parseStatement fuel st) := by
  unfold parseStatement
  good_tac
macro_rules | `(tactic| good_lemma) => `(tactic| exact good_parseStatement (by inv_tac))

theorem good_parsePackageDirective {src st} (hi : Inv src st) : Good src (parsePackageDirective st) := by
  unfold parsePackageDirective
  good_tac
macro_rules | `(tactic| good_lemma) => `(tactic| exact good_parsePackageDirective (by inv_tac))

theorem good_parseStatements {src} (fuel : Nat) : ∀ (n : Nat) (st : PState), Inv src st → Good src (parseStatements fuel n st) := by
  intro n
  induction n with
  | zero => intro st hi; exact good_err (by simp [GoodErr])
  | succ n ih =>
    intro st hi
    unfold parseStatements
    good_tac [ih]

/-- the state `Lexer::new` starts from satisfies the invariant -/
theorem init_inv (src : Str) : Inv src (PState.init src) :=
  ⟨rfl, rfl, tokenize_slices src, Or.inr ⟨[], [], src, by simp, by simp [PState.init], by simp [PState.init]⟩⟩

/-- every diagnostic of `parseTokens` is good -/
theorem parseTokens_err {src : Str} {e : ParseError} (h : parseTokens (PState.init src) = .error e) : GoodErr src e := by
  have hi := init_inv src
  unfold parseTokens at h
  have h1 := good_parsePackageDirective hi
  cases hd : parsePackageDirective (PState.init src) with
  | error e1 =>
    rw [hd] at h1
    simp [hd, bind, Except.bind] at h
    rw [← h]; exact h1
  | ok p =>
    rw [hd] at h1
    obtain ⟨d, st1⟩ := p
    have h2 := good_parseStatements (fuelFor (PState.init src).toks.length) (st1.toks.length + 1) st1 h1
    simp only [hd, bind, Except.bind] at h
    cases hs : parseStatements (fuelFor (PState.init src).toks.length) (st1.toks.length + 1) st1 with
    | error e2 =>
      rw [hs] at h2
      simp [hs] at h
      rw [← h]; exact h2
    | ok q => simp [hs] at h

end Wac.Lemmas.ParseSpans
