import WacProofs.Lemmas.AggNMerge
/-
  C09 general theorems, part 19: the invariant of `aggregate` for NESTED instance requirements
  (anonymous interfaces without `uses`, exports: functions, values, instances of such interfaces,
  to any depth), repaired configuration (`cfg.nestedMerge`).  Same shape as the flat invariant
  (`TInv`), with `meet` in place of `appendMissing`: every requirement is satisfied by the import
  of its class and that import is the greatest such type.
-/
namespace Wac.AggP
open Wac Wac.Spec

/-- a requirement of the nested fragment; `G` is the forest of its exports -/
structure NestReq (r : Req) (G : Forest) : Prop where
  sane : Sane r.2.1
  shape : ∃ i d, r.2.2 = .instance i ∧ SrcOK r.2.1 d i ∧
    (∀ si, r.2.1.interfaces[i]? = some si → unfoldItems (r.2.1.unfoldKind r.2.1.fuel) si.exports = some G) ∧
    r.2.1.unfoldKind r.2.1.fuel (.instance i) = some (.instance G)
  nd : G.namesDistinct = true

/-- import `n` is an instance that unfolds to the forest `F` -/
def ImpN (s : AggState) (n : Str) (F : Forest) : Prop :=
  ∃ e ti, amGet s.agg.imports n = some (.instance e) ∧ s.agg.types.interfaces[e]? = some ti ∧
    (∃ m, unfoldItems (s.agg.types.unfoldKind m) ti.exports = some F) ∧ F.namesDistinct = true

/-- the interface ids of the imports: the interfaces `merge_interface` mutates in place -/
def ImpIds (s : AggState) : Nat → Prop := fun j => ∃ n, amGet s.agg.imports n = some (.instance j)

theorem ImpN.det {s : AggState} {n : Str} {F F' : Forest} (h : ImpN s n F) (h' : ImpN s n F') : F = F' := by
  obtain ⟨e, ti, h1, h2, ⟨m, hm⟩, _⟩ := h
  obtain ⟨e', ti', h1', h2', ⟨m', hm'⟩, _⟩ := h'
  rw [h1] at h1'; cases h1'
  rw [h2] at h2'; cases h2'
  have a := unfoldItems_fuel_mono (Nat.le_max_left m m') hm
  have b := unfoldItems_fuel_mono (Nat.le_max_right m m') hm'
  rw [a] at b; exact Option.some.inj b

theorem IWF.congr {T : Types} {S S' : Nat → Prop} (h : IWF T S) (hS : ∀ j, S' j → S j) : IWF T S' := by
  intro j itf hj x hx
  rcases h j itf hj x hx with h1 | ⟨b, t, h1, h2, h3⟩
  · exact .inl h1
  · exact .inr ⟨b, t, h1, fun hc => h2 (hS t hc), h3⟩

/-- the type-level invariant for nested requirements -/
structure TInvN (W : Colls) (seen : List (Req × Forest)) (cls : Str → Str) (s : AggState) : Prop where
  ainv : AInv W s
  nested : s.cfg.nestedMerge = true ∧ s.cfg.typeMerge = true
  iwf : IWF s.agg.types (ImpIds s)
  imp : ∀ n k, amGet s.agg.imports n = some k → ∃ F, ImpN s n F
  inj : ∀ n1 n2 e, amGet s.agg.imports n1 = some (.instance e) → amGet s.agg.imports n2 = some (.instance e) → n1 = n2
  keys : ∀ g, g.ty.hasId = true → (alGet s.agg.remapped g).isSome = true → ∃ p, p ∈ seen ∧ p.1.2.1.uid = g.uid
  reqs : ∀ p, p ∈ seen → NestReq p.1 p.2
  sat : ∀ p, p ∈ seen → ∃ F, ImpN s (cls p.1.1) F ∧ sub (.instance F) (.instance p.2) = true
  glb : ∀ n F, ImpN s n F → ∀ X, X.namesDistinct = true →
    (∀ p, p ∈ seen → cls p.1.1 = n → sub X (.instance p.2) = true) → sub X (.instance F) = true

theorem TInvN.congr {W : Colls} {seen : List (Req × Forest)} {cls cls' : Str → Str} {s : AggState}
    (h : TInvN W seen cls s) (hc : ∀ p, p ∈ seen → cls' p.1.1 = cls p.1.1) : TInvN W seen cls' s :=
  ⟨h.ainv, h.nested, h.iwf, h.imp, h.inj, h.keys, h.reqs, fun p hp => by rw [hc p hp]; exact h.sat p hp,
    fun n F hF X hX hall => h.glb n F hF X hX (fun p hp hn => hall p hp (by rw [hc p hp]; exact hn))⟩

theorem TInvN.set_redirects {W : Colls} {seen : List (Req × Forest)} {cls : Str → Str} {s : AggState}
    (h : TInvN W seen cls s) (R : List (Str × Str)) :
    TInvN W seen cls { s with agg := { s.agg with redirects := R } } :=
  ⟨⟨⟨h.ainv.rinv.sound, h.ainv.rinv.closed, h.ainv.rinv.shape⟩, h.ainv.cinv, h.ainv.nores⟩, h.nested, h.iwf, h.imp,
    h.inj, h.keys, h.reqs, h.sat, h.glb⟩

/-- the forest of an import is in the covariant fragment -/
theorem TInvN.cov {W : Colls} {seen : List (Req × Forest)} {cls : Str → Str} {s : AggState} (h : TInvN W seen cls s)
    {n : Str} {F : Forest} (hF : ImpN s n F) : Spec.cov (.instance F) = true := by
  obtain ⟨e, ti, _, h2, ⟨m, hm⟩, _⟩ := hF
  simp only [Spec.cov]
  refine covF_unfoldItems ti.exports F (fun x hx t ht => cov_unfold h.iwf m x.2 t ?_ ht) hm
  rcases h.iwf e ti h2 x hx with h1 | ⟨b1, t1, h1, _⟩
  · exact .inl h1
  · exact .inr ⟨b1, t1, h1⟩

theorem impIds_lt {W : Colls} {seen : List (Req × Forest)} {cls : Str → Str} {s : AggState} (h : TInvN W seen cls s)
    {j : Nat} (hj : ImpIds s j) : j < s.agg.types.interfaces.length := by
  obtain ⟨n, hn⟩ := hj
  obtain ⟨F, e, ti, h1, h2, _⟩ := h.imp n _ hn
  rw [hn] at h1; cases h1
  exact getElem?_lt h2

/-! ### merging a requirement into an existing import -/

section merge
variable {W : Colls} {seen : List (Req × Forest)} {cls : Str → Str} {s s1 : AggState}

theorem TInvN.merge (hT : TInvN W seen cls s) {r : Req} {G : Forest} (hr : NestReq r G) (hW : W.mem r.2.1)
    (hfresh : ∀ p, p ∈ seen → p.1.2.1.uid ≠ r.2.1.uid)
    {en : Str} {existing : ItemKind} (hget : amGet s.agg.imports en = some existing)
    (h : mergeKind existing r.2.1 r.2.2 s = .ok ((), s1)) {cls' : Str → Str}
    (hc1 : cls' r.1 = en) (hc2 : ∀ p, p ∈ seen → cls' p.1.1 = cls p.1.1) :
    TInvN W ((r, G) :: seen) cls' s1 ∧ s1.agg.imports = s.agg.imports ∧ s1.agg.redirects = s.agg.redirects ∧
      s1.cfg = s.cfg := by
  obtain ⟨F, himp⟩ := hT.imp en existing hget
  have himp0 := himp
  obtain ⟨e, ti, hge, hti, ⟨m, hm⟩, hFnd⟩ := himp
  rw [hget] at hge; cases hge
  obtain ⟨i, d, hk, hsrc, hGs, hGt⟩ := hr.shape
  rw [hk, mergeKind_instance] at h
  have hik : ∀ i0 i', alGet s.agg.remapped (GTy.mk' r.2.1 (.interface i0)) = some (.interface i') →
      ¬ ImpIds s i' ∧ i' < s.agg.types.interfaces.length ∧
        ∀ t, HasTree r.2.1 (.instance i0) t → HasTree s.agg.types (.instance i') t := by
    intro i0 i' hg
    obtain ⟨p, hp, hu⟩ := hT.keys (GTy.mk' r.2.1 (.interface i0)) rfl (by rw [hg]; rfl)
    exact absurd (hu.trans (gty_uid_of_hasId _ _ rfl)) (hfresh p hp)
  have hish : ∀ i0 ty, alGet s.agg.remapped (GTy.mk' r.2.1 (.interface i0)) = some ty → ∃ i', ty = .interface i' := by
    intro i0 ty hg
    obtain ⟨p, hp, hu⟩ := hT.keys (GTy.mk' r.2.1 (.interface i0)) rfl (by rw [hg]; rfl)
    exact absurd (hu.trans (gty_uid_of_hasId _ _ rfl)) (hfresh p hp)
  have hNS : NState W r.2.1 (ImpIds s) e s F :=
    ⟨⟨hT.ainv, hT.iwf, fun j hj => impIds_lt hT hj, hik, hish⟩, hT.nested, ⟨en, hget⟩, ⟨ti, hti, m, hm⟩, hFnd⟩
  obtain ⟨R, hN1, hst, hmeet⟩ := mergeInterface_nest hW hr.sane _ (ImpIds s) e i s s1 F G d hNS hsrc hGs hr.nd h
  have hids : ∀ j, ImpIds s1 j ↔ ImpIds s j := fun j => by simp only [ImpIds, hst.imports]
  have hfr : Frame (ImpIds s) s.agg.types s1.agg.types := hst.frame ⟨en, hget⟩
  obtain ⟨ti1, hti1, hR⟩ := hN1.itf
  have himp1 : ImpN s1 en R := ⟨e, ti1, by rw [hst.imports]; exact hget, hti1, hR, hN1.nd⟩
  have keep : ∀ n F', n ≠ en → ImpN s n F' → ImpN s1 n F' := by
    rintro n F' hne ⟨e', ti', h1, h2, ⟨m', h3⟩, h4⟩
    have hee : e' ≠ e := fun hc => hne (hT.inj n en e (by rw [← hc]; exact h1) hget)
    refine ⟨e', ti', by rw [hst.imports]; exact h1, by rw [hst.others e' (getElem?_lt h2) hee]; exact h2, ⟨m', ?_⟩, h4⟩
    exact unfoldItems_frame hT.iwf hfr (hT.iwf e' ti' h2) h3
  have back : ∀ n F', n ≠ en → ImpN s1 n F' → ImpN s n F' := by
    intro n F' hne h1
    have h1' := h1
    obtain ⟨e', ti', g1, _, _, _⟩ := h1'
    rw [hst.imports] at g1
    obtain ⟨F0, h0⟩ := hT.imp n _ g1
    rw [(keep n F0 hne h0).det h1] at h0; exact h0
  have hcov := hT.cov himp0
  have hlb := meet_lower_bound (.instance F) (.instance G) (.instance R) hcov (nd_instance hFnd) (nd_instance hr.nd) hmeet
  refine ⟨⟨hN1.ni.ainv, hN1.nested, hN1.ni.iwf.congr (fun j hj => (hids j).1 hj), ?_, ?_, ?_, ?_, ?_, ?_⟩,
    hst.imports, hst.redirects, hst.cfg⟩
  · intro n k hn
    rw [hst.imports] at hn
    by_cases hne : n = en
    · subst hne; exact ⟨_, himp1⟩
    · obtain ⟨F', hF'⟩ := hT.imp n k hn
      exact ⟨F', keep n F' hne hF'⟩
  · intro n1 n2 e0 h1 h2
    rw [hst.imports] at h1 h2
    exact hT.inj n1 n2 e0 h1 h2
  · intro g hid hg
    rcases hst.keys g hid hg with hg | hg
    · obtain ⟨p, hp, hu⟩ := hT.keys g hid hg
      exact ⟨p, List.mem_cons_of_mem _ hp, hu⟩
    · exact ⟨(r, G), List.mem_cons_self, hg.symm⟩
  · intro p hp
    rcases List.mem_cons.1 hp with rfl | hp
    · exact hr
    · exact hT.reqs p hp
  · intro p hp
    rcases List.mem_cons.1 hp with rfl | hp
    · simp only [hc1]
      exact ⟨_, himp1, hlb.2⟩
    · rw [hc2 p hp]
      obtain ⟨F', hF', hs'⟩ := hT.sat p hp
      by_cases hne : cls p.1.1 = en
      · rw [hne] at hF' ⊢
        have : F' = F := hF'.det himp0
        subst this
        exact ⟨_, himp1, sub_trans' _ _ _ (nd_instance hN1.nd) (nd_instance hFnd) (nd_instance (hT.reqs p hp).nd)
          hlb.1 hs'⟩
      · exact ⟨F', keep _ F' hne hF', hs'⟩
  · intro n F' hF' X hX hall
    by_cases hne : n = en
    · subst hne
      rw [hF'.det himp1]
      refine meet_greatest (.instance F) (.instance G) (.instance R) X hcov (nd_instance hFnd) (nd_instance hr.nd) hX
        hmeet ?_ (by simpa [hc1] using hall (r, G) List.mem_cons_self hc1)
      exact hT.glb n F himp0 X hX (fun p hp hn => hall p (List.mem_cons_of_mem _ hp) (by rw [hc2 p hp]; exact hn))
    · exact hT.glb n F' (back n F' hne hF') X hX
        (fun p hp hn => hall p (List.mem_cons_of_mem _ hp) (by rw [hc2 p hp]; exact hn))

end merge

/-! ### a new import -/

section fresh
variable {W : Colls} {seen : List (Req × Forest)} {cls : Str → Str} {s s1 : AggState}

theorem TInvN.fresh (hT : TInvN W seen cls s) {r : Req} {G : Forest} (hr : NestReq r G) (hW : W.mem r.2.1)
    (hfresh : ∀ p, p ∈ seen → p.1.2.1.uid ≠ r.2.1.uid) (hnone : amGet s.agg.imports r.1 = none)
    {fuel : Nat} {k' : ItemKind} (h : remapKind fuel r.2.1 r.2.2 s = .ok (k', s1)) {cls' : Str → Str}
    (hc1 : cls' r.1 = r.1) (hc2 : ∀ p, p ∈ seen → cls' p.1.1 = cls p.1.1) :
    TInvN W ((r, G) :: seen) cls' (addImport s1 r.1 k') ∧ s1.agg.imports = s.agg.imports ∧
      s1.agg.redirects = s.agg.redirects ∧ s1.cfg = s.cfg := by
  obtain ⟨i, d, hk, hsrc, hGs, hGt⟩ := hr.shape
  rw [hk] at h
  have hmiss : alGet s.agg.remapped (GTy.mk' r.2.1 (.interface i)) = none := by
    cases hg : alGet s.agg.remapped (GTy.mk' r.2.1 (.interface i)) with
    | none => rfl
    | some v =>
      obtain ⟨p, hp, hu⟩ := hT.keys (GTy.mk' r.2.1 (.interface i)) rfl (by rw [hg]; rfl)
      exact absurd (hu.trans (gty_uid_of_hasId _ _ rfl)) (hfresh p hp)
  have hik : ∀ i0 i', alGet s.agg.remapped (GTy.mk' r.2.1 (.interface i0)) = some (.interface i') →
      ¬ ImpIds s i' ∧ i' < s.agg.types.interfaces.length ∧
        ∀ t, HasTree r.2.1 (.instance i0) t → HasTree s.agg.types (.instance i') t := by
    intro i0 i' hg
    obtain ⟨p, hp, hu⟩ := hT.keys (GTy.mk' r.2.1 (.interface i0)) rfl (by rw [hg]; rfl)
    exact absurd (hu.trans (gty_uid_of_hasId _ _ rfl)) (hfresh p hp)
  have hish : ∀ i0 ty, alGet s.agg.remapped (GTy.mk' r.2.1 (.interface i0)) = some ty → ∃ i', ty = .interface i' := by
    intro i0 ty hg
    obtain ⟨p, hp, hu⟩ := hT.keys (GTy.mk' r.2.1 (.interface i0)) rfl (by rw [hg]; rfl)
    exact absurd (hu.trans (gty_uid_of_hasId _ _ rfl)) (hfresh p hp)
  have hNI : NI W r.2.1 (ImpIds s) s := ⟨hT.ainv, hT.iwf, fun j hj => impIds_lt hT hj, hik, hish⟩
  cases fuel with
  | zero => simp [remapKind, run_apanic] at h
  | succ fuel =>
  simp only [remapKind, bind_ok, run_pure, Except.ok.injEq, Prod.mk.injEq] at h
  obtain ⟨id', s1', h1, rfl, rfl⟩ := h
  obtain ⟨hI1, hst, ⟨hfz, htree⟩, htop⟩ := (remapNest_spec hW hr.sane fuel).1 d i s id' s1' hNI hsrc h1
  obtain ⟨hlen, hiwf'⟩ := htop hmiss
  -- the new import
  obtain ⟨N, hN⟩ := htree (.instance G) ⟨_, hGt⟩
  obtain ⟨N', rfl⟩ : ∃ N', N = N' + 1 := by
    cases N with
    | zero => simp [Types.unfoldKind] at hN
    | succ N' => exact ⟨N', rfl⟩
  simp only [Types.unfoldKind] at hN
  cases hnew : s1'.agg.types.interfaces[id']? with
  | none => simp [hnew] at hN
  | some tinew =>
    simp only [hnew] at hN
    obtain ⟨G', hG', hGG⟩ := Option.map_eq_some_iff.1 hN
    cases hGG
    have hgi : ∀ x, amGet (addImport s1' r.1 (.instance id')).agg.imports x =
        if r.1 == x then some (.instance id') else amGet s.agg.imports x := by
      intro x; simp only [addImport, hst.imports]; exact AggP.amGet_amInsert _ _ _ _
    have hids : ∀ j, ImpIds (addImport s1' r.1 (.instance id')) j → ImpIds s j ∨ j = id' := by
      rintro j ⟨n, hn⟩
      rw [hgi] at hn
      by_cases hne : r.1 = n
      · simp only [hne, BEq.rfl, ↓reduceIte, Option.some.injEq, ItemKind.instance.injEq] at hn
        exact .inr hn.symm
      · have : (r.1 == n) = false := by simpa using hne
        rw [this] at hn
        exact .inl ⟨n, by simpa using hn⟩
    have himp1 : ImpN (addImport s1' r.1 (.instance id')) r.1 G :=
      ⟨id', tinew, by rw [hgi]; simp, hnew, ⟨N', hG'⟩, hr.nd⟩
    have hfr : Frame (ImpIds s) s.agg.types s1'.agg.types := hst.frame _
    have keep : ∀ n F', ImpN s n F' → n ≠ r.1 ∧ ImpN (addImport s1' r.1 (.instance id')) n F' := by
      rintro n F' ⟨e', ti', g1, g2, ⟨m', g3⟩, g4⟩
      have hne : n ≠ r.1 := by rintro rfl; rw [hnone] at g1; cases g1
      have hne' : (r.1 == n) = false := by simpa using fun e => hne e.symm
      refine ⟨hne, e', ti', by rw [hgi, hne']; exact g1, by
        show s1'.agg.types.interfaces[e']? = some ti'
        rw [hst.same e' (getElem?_lt g2)]; exact g2, ⟨m', ?_⟩, g4⟩
      exact unfoldItems_frame hT.iwf hfr (hT.iwf e' ti' g2) g3
    have back : ∀ n F', n ≠ r.1 → ImpN (addImport s1' r.1 (.instance id')) n F' → ImpN s n F' := by
      intro n F' hne h1
      have h1' := h1
      obtain ⟨e', ti', g1, _, _, _⟩ := h1'
      have hne' : (r.1 == n) = false := by simpa using fun e => hne e.symm
      rw [hgi, hne'] at g1
      obtain ⟨F0, h0⟩ := hT.imp n _ g1
      rw [(keep n F0 h0).2.det h1] at h0; exact h0
    refine ⟨⟨⟨⟨hI1.ainv.rinv.sound, hI1.ainv.rinv.closed, hI1.ainv.rinv.shape⟩, hI1.ainv.cinv, hI1.ainv.nores⟩, ?_, ?_,
      ?_, ?_, ?_, ?_, ?_, ?_⟩, hst.imports, hst.redirects, hst.cfg⟩
    · show s1'.cfg.nestedMerge = true ∧ s1'.cfg.typeMerge = true
      rw [hst.cfg]; exact hT.nested
    · exact hiwf'.congr hids
    · intro n k hn
      rw [hgi] at hn
      by_cases hne : r.1 = n
      · subst hne; exact ⟨_, himp1⟩
      · have hne' : (r.1 == n) = false := by simpa using hne
        rw [hne'] at hn
        obtain ⟨F', hF'⟩ := hT.imp n k hn
        exact ⟨F', (keep n F' hF').2⟩
    · intro n1 n2 e0 g1 g2
      rw [hgi] at g1 g2
      have hnotold : ¬ ImpIds s id' := by
        rcases hfz with h0 | ⟨w0, t0, h0, h2, _⟩
        · cases h0
        · obtain ⟨_, rfl⟩ := wrapK_inj (b := false) h0; exact h2
      by_cases a1 : r.1 = n1 <;> by_cases a2 : r.1 = n2
      · rw [← a1, ← a2]
      · have a2' : (r.1 == n2) = false := by simpa using a2
        simp only [a1, BEq.rfl, ↓reduceIte, Option.some.injEq, ItemKind.instance.injEq] at g1
        rw [a2'] at g2
        subst g1
        exact absurd ⟨n2, by simpa using g2⟩ hnotold
      · have a1' : (r.1 == n1) = false := by simpa using a1
        simp only [a2, BEq.rfl, ↓reduceIte, Option.some.injEq, ItemKind.instance.injEq] at g2
        rw [a1'] at g1
        subst g2
        exact absurd ⟨n1, by simpa using g1⟩ hnotold
      · have a1' : (r.1 == n1) = false := by simpa using a1
        have a2' : (r.1 == n2) = false := by simpa using a2
        rw [a1'] at g1; rw [a2'] at g2
        exact hT.inj n1 n2 e0 (by simpa using g1) (by simpa using g2)
    · intro g hid hg
      rcases hst.keys g hid hg with hg | hg
      · obtain ⟨p, hp, hu⟩ := hT.keys g hid hg
        exact ⟨p, List.mem_cons_of_mem _ hp, hu⟩
      · exact ⟨(r, G), List.mem_cons_self, hg.symm⟩
    · intro p hp
      rcases List.mem_cons.1 hp with rfl | hp
      · exact hr
      · exact hT.reqs p hp
    · intro p hp
      rcases List.mem_cons.1 hp with rfl | hp
      · simp only [hc1]
        exact ⟨_, himp1, sub_instance_refl G hr.nd⟩
      · rw [hc2 p hp]
        obtain ⟨F', hF', hs'⟩ := hT.sat p hp
        exact ⟨F', (keep _ F' hF').2, hs'⟩
    · intro n F' hF' X hX hall
      by_cases hne : n = r.1
      · subst hne
        rw [hF'.det himp1]
        exact hall (r, G) List.mem_cons_self hc1
      · exact hT.glb n F' (back n F' hne hF') X hX
          (fun p hp hn => hall p (List.mem_cons_of_mem _ hp) (by rw [hc2 p hp]; exact hn))

end fresh

/-! ### renaming an import -/

section rename
variable {W : Colls} {seen : List (Req × Forest)} {cls : Str → Str} {s : AggState}

theorem TInvN.rename (hT : TInvN W seen cls s) {name exName : Str} {m : ItemKind}
    (hex : amGet s.agg.imports exName = some m) (hnone : amGet s.agg.imports name = none)
    (R : List (Str × Str)) {cls' : Str → Str}
    (hc : ∀ p, p ∈ seen → cls' p.1.1 = if cls p.1.1 = exName then name else cls p.1.1) :
    TInvN W seen cls' (renameImport s name exName m R) := by
  have hne : name ≠ exName := by rintro rfl; rw [hnone] at hex; cases hex
  have hgi : ∀ x, amGet (renameImport s name exName m R).agg.imports x =
      if name == x then some m else if exName == x then none else amGet s.agg.imports x :=
    fun x => amGet_renamed s.agg.imports name exName m hne hnone x
  have fwd_ex : ∀ F, ImpN s exName F → ImpN (renameImport s name exName m R) name F := by
    rintro F ⟨e, ti, h1, h2, h3, h4⟩
    rw [hex] at h1; cases h1
    exact ⟨e, ti, by rw [hgi]; simp, h2, h3, h4⟩
  have fwd : ∀ n F, n ≠ exName → ImpN s n F → ImpN (renameImport s name exName m R) n F := by
    rintro n F hn ⟨e, ti, h1, h2, h3, h4⟩
    have hn1 : (name == n) = false := by
      rw [Bool.eq_false_iff]; intro hc'
      have : name = n := by simpa using hc'
      subst this; rw [hnone] at h1; cases h1
    have hn2 : (exName == n) = false := by simpa using fun e => hn e.symm
    exact ⟨e, ti, by rw [hgi, hn1, hn2]; exact h1, h2, h3, h4⟩
  have bwd : ∀ n F, ImpN (renameImport s name exName m R) n F →
      (n = name ∧ ImpN s exName F) ∨ (n ≠ name ∧ n ≠ exName ∧ ImpN s n F) := by
    rintro n F ⟨e, ti, h1, h2, h3, h4⟩
    rw [hgi] at h1
    by_cases a1 : name = n
    · subst a1
      simp only [BEq.rfl, ↓reduceIte, Option.some.injEq] at h1
      subst h1
      exact .inl ⟨rfl, e, ti, hex, h2, h3, h4⟩
    · have a1' : (name == n) = false := by simpa using a1
      rw [a1'] at h1
      by_cases a2 : exName = n
      · subst a2; simp at h1
      · have a2' : (exName == n) = false := by simpa using a2
        rw [a2'] at h1
        exact .inr ⟨fun e' => a1 e'.symm, fun e' => a2 e'.symm, e, ti, by simpa using h1, h2, h3, h4⟩
  -- the set of import interface ids does not grow
  have hids : ∀ j, ImpIds (renameImport s name exName m R) j → ImpIds s j := by
    rintro j ⟨n, hn⟩
    rw [hgi] at hn
    by_cases a1 : name = n
    · simp only [a1, BEq.rfl, ↓reduceIte, Option.some.injEq] at hn
      subst hn; exact ⟨exName, hex⟩
    · have a1' : (name == n) = false := by simpa using a1
      rw [a1'] at hn
      by_cases a2 : exName = n
      · subst a2; simp at hn
      · have a2' : (exName == n) = false := by simpa using a2
        rw [a2'] at hn
        exact ⟨n, by simpa using hn⟩
  refine ⟨⟨⟨hT.ainv.rinv.sound, hT.ainv.rinv.closed, hT.ainv.rinv.shape⟩, hT.ainv.cinv, hT.ainv.nores⟩, hT.nested,
    hT.iwf.congr hids, ?_, ?_, hT.keys, hT.reqs, ?_, ?_⟩
  · intro n k hn
    rw [hgi] at hn
    by_cases a1 : name = n
    · subst a1
      obtain ⟨F, hF⟩ := hT.imp exName m hex
      exact ⟨F, fwd_ex F hF⟩
    · have a1' : (name == n) = false := by simpa using a1
      rw [a1'] at hn
      by_cases a2 : exName = n
      · subst a2; simp at hn
      · have a2' : (exName == n) = false := by simpa using a2
        rw [a2'] at hn
        obtain ⟨F, hF⟩ := hT.imp n k (by simpa using hn)
        exact ⟨F, fwd n F (fun e' => a2 e'.symm) hF⟩
  · intro n1 n2 e0 h1 h2
    rw [hgi] at h1 h2
    have tr : ∀ n, (if name == n then some m else if exName == n then none else amGet s.agg.imports n) =
        some (.instance e0) → ∃ n0, amGet s.agg.imports n0 = some (.instance e0) ∧
          ((n = name ∧ n0 = exName) ∨ (n ≠ name ∧ n ≠ exName ∧ n0 = n)) := by
      intro n hn
      by_cases a1 : name = n
      · subst a1
        simp only [BEq.rfl, ↓reduceIte, Option.some.injEq] at hn
        subst hn
        exact ⟨exName, hex, .inl ⟨rfl, rfl⟩⟩
      · have a1' : (name == n) = false := by simpa using a1
        rw [a1'] at hn
        by_cases a2 : exName = n
        · subst a2; simp at hn
        · have a2' : (exName == n) = false := by simpa using a2
          rw [a2'] at hn
          exact ⟨n, by simpa using hn, .inr ⟨fun e' => a1 e'.symm, fun e' => a2 e'.symm, rfl⟩⟩
    obtain ⟨m1, g1, c1⟩ := tr n1 h1
    obtain ⟨m2, g2, c2⟩ := tr n2 h2
    have := hT.inj m1 m2 e0 g1 g2
    rcases c1 with ⟨a, b⟩ | ⟨a, b, c⟩ <;> rcases c2 with ⟨a', b'⟩ | ⟨a', b', c'⟩
    · rw [a, a']
    · rw [b, c'] at this; exact absurd this.symm b'
    · rw [c, b'] at this; exact absurd this b
    · rw [c, c'] at this; exact this
  · intro p hp
    rw [hc p hp]
    obtain ⟨F, hF, hs'⟩ := hT.sat p hp
    by_cases a : cls p.1.1 = exName
    · rw [a] at hF; simp only [a, ↓reduceIte]
      exact ⟨F, fwd_ex F hF, hs'⟩
    · simp only [a, ↓reduceIte]
      exact ⟨F, fwd _ F a hF, hs'⟩
  · intro n F hF X hX hall
    rcases bwd n F hF with ⟨rfl, hF0⟩ | ⟨a1, a2, hF0⟩
    · refine hT.glb exName F hF0 X hX (fun p hp hn => hall p hp ?_)
      rw [hc p hp, hn]; simp
    · refine hT.glb n F hF0 X hX (fun p hp hn => hall p hp ?_)
      rw [hc p hp, hn]; simp [a2]

end rename

end Wac.AggP
