import WacProofs.Lemmas.Digits
import WacModel.Spec.Names
/-
  Structure lemmas relating the string-slicing model (`altKey`) to the declarative track
  (`Spec.trackOf`).
-/
namespace Wac
open Wac.Spec

theorem mem_takeWhile_imp' {α} (p : α → Bool) (l : List α) (c : α) (h : c ∈ l.takeWhile p) : p c = true := by
  induction l with
  | nil => simp at h
  | cons x l ih =>
    simp only [List.takeWhile_cons] at h
    split at h
    · rename_i hx
      simp only [List.mem_cons] at h
      rcases h with rfl | h
      · exact hx
      · exact ih h
    · simp at h

theorem numericIdent_some {s : Str} {n : Nat} {r : Str} (h : numericIdent s = some (n, r)) :
    ∃ ds, s = ds ++ r ∧ ds ≠ [] ∧ AllDigits ds ∧ Canon ds ∧ digitsVal ds = n := by
  unfold numericIdent at h
  simp only at h
  split at h
  · simp at h
  · rename_i hne
    split at h
    · simp at h
    · rename_i hcanon
      split at h
      · simp at h
      · simp only [Option.some.injEq, Prod.mk.injEq] at h
        refine ⟨s.takeWhile isDigit, ?_, ?_, ?_, ?_, h.1⟩
        · rw [← h.2]; exact (List.takeWhile_append_dropWhile).symm
        · intro hnil; rw [hnil] at hne; simp at hne
        · intro c hc; exact mem_takeWhile_imp' _ _ _ hc
        · intro hl hh
          apply hcanon
          simp [hl, hh]

theorem eatDot_some {s r : Str} (h : eatDot s = some r) : s = '.' :: r := by
  unfold eatDot at h
  split at h
  · simp at h; rw [h]
  · simp at h

theorem parseTail_fields {M m p : Nat} {s : Str} {v : Version} (h : parseTail M m p s = some v) :
    v.major = M ∧ v.minor = m ∧ v.patch = p := by
  unfold parseTail at h
  split at h
  · simp at h
  · split at h
    · simp at h
    · split at h
      · simp at h; subst h; simp
      · simp at h

/-- shape of an accepted version string: canonical major, dot, canonical minor, dot, rest -/
theorem parseVersion_shape {vs : Str} {v : Version} (h : parseVersion vs = some v) :
    ∃ D1 D2 r, vs = D1 ++ '.' :: (D2 ++ '.' :: r) ∧
      D1 ≠ [] ∧ AllDigits D1 ∧ Canon D1 ∧ digitsVal D1 = v.major ∧
      D2 ≠ [] ∧ AllDigits D2 ∧ Canon D2 ∧ digitsVal D2 = v.minor := by
  unfold parseVersion at h
  split at h
  · simp at h
  · rename_i major s1 h1
    split at h
    · simp at h
    · rename_i s2 hd1
      split at h
      · simp at h
      · rename_i minor s3 h2
        split at h
        · simp at h
        · rename_i s4 hd2
          split at h
          · simp at h
          · rename_i patch s5 h3
            obtain ⟨D1, e1, ne1, ad1, c1, v1⟩ := numericIdent_some h1
            obtain ⟨D2, e2, ne2, ad2, c2, v2⟩ := numericIdent_some h2
            have f := parseTail_fields h
            refine ⟨D1, D2, s4, ?_, ne1, ad1, c1, by rw [v1, f.1], ne2, ad2, c2, by rw [v2, f.2.1]⟩
            rw [e1, eatDot_some hd1, e2, eatDot_some hd2]

theorem findChar_append (c : Char) (a b : Str) (h : c ∉ a) :
    findChar c (a ++ c :: b) = some a.length := by
  induction a with
  | nil => simp [findChar]
  | cons x a ih =>
    have hx : (x == c) = false := by
      simp only [List.mem_cons, not_or] at h
      simpa using fun e => h.1 e.symm
    simp only [List.cons_append, findChar, hx, List.length_cons]
    rw [ih (fun hm => h (by simp [hm]))]; simp

theorem findChar_none (c : Char) (a : Str) (h : c ∉ a) : findChar c a = none := by
  induction a with
  | nil => simp [findChar]
  | cons x a ih =>
    have hx : (x == c) = false := by
      simp only [List.mem_cons, not_or] at h
      simpa using fun e => h.1 e.symm
    simp only [findChar, hx]
    rw [ih (fun hm => h (by simp [hm]))]; simp

theorem splitAt_some {name base vs : Str} (h : splitAt_ name = some (base, vs)) :
    name = base ++ '@' :: vs ∧ '@' ∉ base := by
  induction name generalizing base with
  | nil => simp [splitAt_] at h
  | cons c r ih =>
    simp only [splitAt_] at h
    split at h
    · rename_i hc
      simp at h; obtain ⟨rfl, rfl⟩ := h
      simp at hc; simp [hc]
    · rename_i hc
      simp only [Option.map_eq_some_iff] at h
      obtain ⟨⟨b, v⟩, hb, he⟩ := h
      simp at he; obtain ⟨rfl, rfl⟩ := he
      obtain ⟨e, hn⟩ := ih hb
      refine ⟨by rw [e]; simp, ?_⟩
      simp only [List.mem_cons, not_or]
      exact ⟨by simpa using fun e => hc (by simp [← e]), hn⟩

theorem splitAt_none {name : Str} (h : splitAt_ name = none) : '@' ∉ name := by
  induction name with
  | nil => simp
  | cons c r ih =>
    simp only [splitAt_] at h
    split at h
    · simp at h
    · rename_i hc
      simp only [Option.map_eq_none_iff] at h
      simp only [List.mem_cons, not_or]
      exact ⟨by simpa using fun e => hc (by simp [← e]), ih h⟩

theorem splitAt_of_eq {base vs : Str} (h : '@' ∉ base) : splitAt_ (base ++ '@' :: vs) = some (base, vs) := by
  induction base with
  | nil => simp [splitAt_]
  | cons c r ih =>
    have hc : (c == '@') = false := by
      simp only [List.mem_cons, not_or] at h
      simpa using fun e => h.1 e.symm
    simp only [List.cons_append, splitAt_, hc]
    rw [ih (fun hm => h (by simp [hm]))]; simp

theorem dot_not_digit {D : Str} (h : AllDigits D) : '.' ∉ D := by
  intro hm; have := h _ hm; revert this; decide

theorem at_not_digit {D : Str} (h : AllDigits D) : '@' ∉ D := by
  intro hm; have := h _ hm; revert this; decide

end Wac

namespace Wac
open Wac.Spec

theorem take_len (a b : Str) (n : Nat) (h : n = a.length) : (a ++ b).take n = a := by
  subst h; simp
theorem drop_len (a b : Str) (n : Nat) (h : n = a.length) : (a ++ b).drop n = b := by
  subst h; simp

/-- the sliced key string `k` represents the track `t` -/
def KeyRep (k : Str) : Track → Prop
  | .major base n => ∃ D, k = base ++ '@' :: D ∧ '@' ∉ base ∧ D ≠ [] ∧ AllDigits D ∧ Canon D ∧ digitsVal D = n ∧ n ≠ 0
  | .minor base n => ∃ D, k = base ++ '@' :: '0' :: '.' :: D ∧ '@' ∉ base ∧ D ≠ [] ∧ AllDigits D ∧ Canon D ∧ digitsVal D = n ∧ n ≠ 0

theorem zero_digits {D : Str} (hne : D ≠ []) (ad : AllDigits D) (c : Canon D) (h : digitsVal D = 0) :
    D = ['0'] := by
  apply canon_inj D ['0'] ad (by intro c hc; simp at hc; subst hc; decide) hne (by simp) c
    (by intro h; simp at h) (by rw [h]; rfl)

/-- `alternate_lookup_key` yields a key exactly for names that have a track, and the key string
represents that track; it also returns the parsed version. -/
theorem altKey_track (name : Str) :
    match altKey name, trackOf name with
    | none, none => True
    | some (k, v), some t => KeyRep k t ∧ versionOf name = some v
    | _, _ => False := by
  unfold altKey trackOf versionOf releaseOf
  cases hs : splitAt_ name with
  | none =>
    have := findChar_none '@' name (splitAt_none hs)
    simp [this]
  | some bv =>
    obtain ⟨base, vs⟩ := bv
    obtain ⟨hname, hbase⟩ := splitAt_some hs
    have hf : findChar '@' name = some base.length := by rw [hname]; exact findChar_append _ _ _ hbase
    have hdrop : name.drop (base.length + 1) = vs := by
      rw [hname]
      have : base ++ '@' :: vs = (base ++ ['@']) ++ vs := by simp
      rw [this, drop_len _ _ _ (by simp)]
    simp only [hf, hdrop]
    cases hp : parseVersion vs with
    | none => simp
    | some v =>
      obtain ⟨D1, D2, r, hvs, ne1, ad1, c1, v1, ne2, ad2, c2, v2⟩ := parseVersion_shape hp
      simp only
      by_cases hpre : v.pre.isEmpty = true
      · simp only [hpre, Bool.not_true, Bool.false_eq_true, ↓reduceIte]
        have hd1 : findChar '.' vs = some D1.length := by
          rw [hvs]; exact findChar_append _ _ _ (dot_not_digit ad1)
        by_cases hM : v.major = 0
        · have hD1 : D1 = ['0'] := zero_digits ne1 ad1 c1 (by rw [v1, hM])
          by_cases hm : v.minor = 0
          · simp [hM, hm]
          · have hd2 : findChar '.' (name.drop (D1.length + base.length + 1 + 1)) = some D2.length := by
              rw [hname, hvs]
              have : (base ++ '@' :: (D1 ++ '.' :: (D2 ++ '.' :: r))) =
                  (base ++ '@' :: (D1 ++ ['.'])) ++ (D2 ++ '.' :: r) := by simp
              rw [this, drop_len _ _ _ (by simp; omega)]
              exact findChar_append _ _ _ (dot_not_digit ad2)
            have htake : name.take (D2.length + (D1.length + base.length + 1) + 1) =
                base ++ '@' :: '0' :: '.' :: D2 := by
              rw [hname, hvs, hD1]
              have : (base ++ '@' :: (['0'] ++ '.' :: (D2 ++ '.' :: r))) =
                  (base ++ '@' :: '0' :: '.' :: D2) ++ ('.' :: r) := by simp
              rw [this, take_len _ _ _ (by simp; omega)]
            have hmpos : 0 < v.minor := Nat.pos_of_ne_zero hm
            simp only [hM, bne_self_eq_false, Bool.false_eq_true, ↓reduceIte, hd1, hd2, htake, Nat.lt_irrefl, hmpos,
              bne_iff_ne, ne_eq, hm, not_false_eq_true]
            exact ⟨⟨D2, rfl, hbase, ne2, ad2, c2, v2, hm⟩, by simp⟩
        · have htake : name.take (D1.length + base.length + 1) = base ++ '@' :: D1 := by
            rw [hname, hvs]
            have : (base ++ '@' :: (D1 ++ '.' :: (D2 ++ '.' :: r))) =
                (base ++ '@' :: D1) ++ ('.' :: (D2 ++ '.' :: r)) := by simp
            rw [this, take_len _ _ _ (by simp; omega)]
          have hMpos : 0 < v.major := Nat.pos_of_ne_zero hM
          simp only [bne_iff_ne, ne_eq, hM, not_false_eq_true, ↓reduceIte, hd1, htake, hMpos]
          exact ⟨⟨D1, rfl, hbase, ne1, ad1, c1, v1, hM⟩, by simp⟩
      · simp [hpre]

end Wac

namespace Wac
open Wac.Spec

theorem append_at_inj {b1 b2 r1 r2 : Str} (h1 : '@' ∉ b1) (h2 : '@' ∉ b2)
    (h : b1 ++ '@' :: r1 = b2 ++ '@' :: r2) : b1 = b2 ∧ r1 = r2 := by
  have e1 := splitAt_of_eq (vs := r1) h1
  have e2 := splitAt_of_eq (vs := r2) h2
  rw [h, e2] at e1
  simp at e1
  exact ⟨e1.1.symm, e1.2.symm⟩

/-- equal key strings ⇔ equal tracks -/
theorem keyRep_eq_iff {k1 k2 : Str} {t1 t2 : Track} (h1 : KeyRep k1 t1) (h2 : KeyRep k2 t2) :
    k1 = k2 ↔ t1 = t2 := by
  cases t1 with
  | major b1 n1 =>
    obtain ⟨D1, rfl, hb1, ne1, ad1, c1, v1, _⟩ := h1
    cases t2 with
    | major b2 n2 =>
      obtain ⟨D2, rfl, hb2, ne2, ad2, c2, v2, _⟩ := h2
      constructor
      · intro h
        obtain ⟨rfl, rfl⟩ := append_at_inj hb1 hb2 h
        rw [← v1, ← v2]
      · intro h
        simp only [Track.major.injEq] at h
        obtain ⟨rfl, rfl⟩ := h
        rw [canon_inj D1 D2 ad1 ad2 ne1 ne2 c1 c2 (by rw [v1, v2])]
    | minor b2 n2 =>
      obtain ⟨D2, rfl, hb2, ne2, ad2, c2, v2, _⟩ := h2
      constructor
      · intro h
        obtain ⟨_, hD⟩ := append_at_inj hb1 hb2 h
        exact absurd (by rw [hD]; simp) (dot_not_digit ad1)
      · intro h; cases h
  | minor b1 n1 =>
    obtain ⟨D1, rfl, hb1, ne1, ad1, c1, v1, _⟩ := h1
    cases t2 with
    | major b2 n2 =>
      obtain ⟨D2, rfl, hb2, ne2, ad2, c2, v2, _⟩ := h2
      constructor
      · intro h
        obtain ⟨_, hD⟩ := append_at_inj hb1 hb2 h
        exact absurd (by rw [← hD]; simp) (dot_not_digit ad2)
      · intro h; cases h
    | minor b2 n2 =>
      obtain ⟨D2, rfl, hb2, ne2, ad2, c2, v2, _⟩ := h2
      constructor
      · intro h
        obtain ⟨rfl, hD⟩ := append_at_inj hb1 hb2 h
        simp only [List.cons.injEq, true_and] at hD
        subst hD
        rw [← v1, ← v2]
      · intro h
        simp only [Track.minor.injEq] at h
        obtain ⟨rfl, rfl⟩ := h
        rw [canon_inj D1 D2 ad1 ad2 ne1 ne2 c1 c2 (by rw [v1, v2])]

end Wac
